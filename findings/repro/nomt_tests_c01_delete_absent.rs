//! F11 (C01): a commit whose writes are all deletes of keys that do not exist must succeed and change nothing.
use nomt::{hasher::Blake3Hasher, KeyReadWrite, Nomt, Options, SessionParams};

#[test]
fn deleting_absent_keys_is_a_no_op() {
    let dir = tempfile::tempdir().unwrap();
    let mut o = Options::new();
    o.path(dir.path().join("db"));
    o.commit_concurrency(1);
    let db: Nomt<Blake3Hasher> = Nomt::open(o).unwrap();
    let root0 = db.root();
    let session = db.begin_session(SessionParams::default());
    let mut actuals: Vec<_> = (0..4u8).map(|i| ([i; 32], KeyReadWrite::Write(None))).collect();
    actuals.sort_by_key(|(k, _)| *k);
    let finished = session.finish(actuals).unwrap();
    finished.commit(&db).unwrap();
    assert_eq!(db.root(), root0);
    assert_eq!(db.read([1; 32]).unwrap(), None);
}
