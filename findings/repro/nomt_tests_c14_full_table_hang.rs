//! F10 (C14): a commit that needs more merkle pages than the hash table has buckets must return an error, never hang.
//! With a table that becomes 100% full, `bitbox::ProbeSequence::next` spins forever: its inner loop only leaves on an
//! empty / tombstone / possibly-matching bucket, and the attempt counter of `allocate_bucket` counts calls of `next`,
//! not probes.  Place under nomt/tests/ and run with `cargo test -p nomt --test c14_full_table_hang`.
use nomt::{hasher::Blake3Hasher, KeyReadWrite, Nomt, Options, SessionParams};
use std::{sync::mpsc, time::Duration};

fn key(i: u64) -> [u8; 32] {
    *blake3::hash(&i.to_le_bytes()).as_bytes()
}

#[test]
fn commit_into_a_full_table_returns_an_error() {
    let dir = tempfile::tempdir().unwrap();
    let mut o = Options::new();
    o.path(dir.path().join("db"));
    o.hashtable_buckets(64);
    o.bitbox_seed([0; 16]);
    o.commit_concurrency(1);
    o.rollback(false);
    let db: Nomt<Blake3Hasher> = Nomt::open(o).unwrap();
    let (tx, rx) = mpsc::channel();
    std::thread::spawn(move || {
        let session = db.begin_session(SessionParams::default());
        let mut actuals: Vec<_> = (0..20_000u64).map(|i| (key(i), KeyReadWrite::Write(Some(vec![1u8; 8])))).collect();
        actuals.sort_by_key(|(k, _)| *k);
        let finished = session.finish(actuals).unwrap();
        let res = finished.commit(&db);
        let poisoned = db.is_poisoned();
        let _ = tx.send((res.map_err(|e| e.to_string()), poisoned));
        // keep the handle alive until the verdict is read
        std::thread::sleep(Duration::from_millis(200));
    });
    match rx.recv_timeout(Duration::from_secs(60)) {
        Ok((res, poisoned)) => {
            assert!(res.is_err(), "a commit that cannot fit into 64 buckets returned success");
            assert!(poisoned, "handle not poisoned after bucket exhaustion");
        }
        Err(_) => panic!("HANG: the commit did not return within 60 s (ProbeSequence::next spins on a full table)"),
    }
}
