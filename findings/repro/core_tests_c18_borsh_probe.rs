#![cfg(feature = "borsh")]
use nomt_core::{hasher::Blake3Hasher, proof::{MultiPathProof, MultiProof, PathProofTerminal, verify_multi_proof}, trie_pos::TriePosition};
#[test]
fn deserialized_trie_position_bypasses_depth_invariant() {
    // TriePosition { path: [u8;32], depth: u16, node_index: usize(u64 in borsh) }
    let mut bytes = vec![0u8; 32];
    bytes.extend_from_slice(&300u16.to_le_bytes());
    bytes.extend_from_slice(&0u64.to_le_bytes());
    let tp: TriePosition = borsh::from_slice(&bytes).expect("decodes fine: no validation");
    let mp = MultiProof { paths: vec![MultiPathProof { terminal: PathProofTerminal::Terminator(tp), depth: 0 }], siblings: vec![] };
    let r = std::panic::catch_unwind(|| verify_multi_proof::<Blake3Hasher>(&mp, [0u8;32]).is_ok());
    println!("result: {:?}", r.as_ref().map_err(|_| "PANIC"));
    assert!(r.is_ok(), "verifier panicked on a deserialized TriePosition with depth 300");
}
