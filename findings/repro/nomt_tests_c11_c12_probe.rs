use nomt::{hasher::Blake3Hasher, KeyReadWrite, Nomt, Options, SessionParams};
use std::path::PathBuf;

fn setup(path: &str) -> Nomt<Blake3Hasher> {
    let mut p = PathBuf::from("test"); p.push(path);
    if p.exists() { std::fs::remove_dir_all(&p).unwrap(); }
    let mut o = Options::new();
    o.path(p); o.commit_concurrency(1); o.rollback(true);
    Nomt::open(o).unwrap()
}

// C12: a stale try_commit_nonblocking must not touch rollback history.
#[test]
fn stale_nonblocking_commit_pollutes_rollback_log() {
    let nomt = setup("zz_probe_c12");
    let k = [7u8; 32];
    // commit A: k = 1
    let s = nomt.begin_session(SessionParams::default());
    s.finish(vec![(k, KeyReadWrite::Write(Some(vec![1])))]).unwrap().commit(&nomt).unwrap();
    // two competing sessions on the same base
    let s1 = nomt.begin_session(SessionParams::default());
    let f1 = s1.finish(vec![(k, KeyReadWrite::Write(Some(vec![2])))]).unwrap();
    let s2 = nomt.begin_session(SessionParams::default());
    let j = [9u8; 32];
    let f2 = s2.finish(vec![(j, KeyReadWrite::Write(Some(vec![3])))]).unwrap();
    f1.commit(&nomt).unwrap(); // k = 2
    let root_after_f1 = nomt.root();
    let r = f2.try_commit_nonblocking(&nomt);
    assert!(r.is_err(), "stale commit must be rejected");
    assert_eq!(nomt.root(), root_after_f1);
    assert_eq!(nomt.read(k).unwrap(), Some(vec![2]));
    // as if never attempted: rollback(1) must undo f1 => k = 1
    nomt.rollback(1).unwrap();
    let got = nomt.read(k).unwrap();
    println!("after rollback(1): {:?}", got);
    assert_eq!(got, Some(vec![1]), "rollback(1) should restore the state before f1");
}

// C11/C12: a rejected overlay commit must not mark the overlay as committed.
#[test]
fn rejected_overlay_commit_marks_committed() {
    let nomt = setup("zz_probe_c11");
    let a_key = [1u8; 32]; let b_key = [2u8; 32]; let x_key = [3u8; 32];
    let sa = nomt.begin_session(SessionParams::default());
    let a = sa.finish(vec![(a_key, KeyReadWrite::Write(Some(vec![1])))]).unwrap().into_overlay();
    let sb = nomt.begin_session(SessionParams::default().overlay([&a]).unwrap());
    let b = sb.finish(vec![(b_key, KeyReadWrite::Write(Some(vec![2])))]).unwrap().into_overlay();
    // competing commit moves the root.
    let sx = nomt.begin_session(SessionParams::default());
    sx.finish(vec![(x_key, KeyReadWrite::Write(Some(vec![3])))]).unwrap().commit(&nomt).unwrap();
    // A is now stale: commit is rejected.
    a.commit(&nomt).unwrap_err();
    // B's parent A was never committed (and is gone): building on [B] alone must be refused.
    let r = SessionParams::default().overlay([&b]);
    match r {
        Err(e) => println!("refused as expected: {:?}", e),
        Ok(p) => {
            let s = nomt.begin_session(p);
            println!("ACCEPTED incomplete chain; read a_key through B = {:?}", s.read(a_key).unwrap());
            panic!("incomplete chain accepted after rejected commit of the parent");
        }
    }
}
