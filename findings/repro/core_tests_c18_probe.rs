use nomt_core::{hasher::Blake3Hasher, proof::{MultiPathProof, MultiProof, PathProofTerminal, verify_multi_proof}, trie::LeafData};
#[test]
fn malformed_multiproof_panics() {
    let mp = MultiProof { paths: vec![MultiPathProof { terminal: PathProofTerminal::Leaf(LeafData{ key_path:[0;32], value_hash:[1;32]}), depth: 5 }], siblings: vec![] };
    let r = std::panic::catch_unwind(|| verify_multi_proof::<Blake3Hasher>(&mp, [0u8;32]).is_ok());
    println!("result: {:?}", r.as_ref().map_err(|_| "PANIC"));
    assert!(r.is_ok(), "verifier panicked on malformed proof");
}
