use nomt::{hasher::Blake3Hasher, KeyReadWrite, Nomt, Options, SessionParams};
use std::path::PathBuf;

fn opts(path: &str, rollback: bool) -> Options {
    let mut p = PathBuf::from("test"); p.push(path);
    let mut o = Options::new();
    o.path(p); o.commit_concurrency(1); o.rollback(rollback);
    o.hashtable_buckets(4096); o.preallocate_ht(false);
    o
}
fn fresh(path: &str, rollback: bool) -> Nomt<Blake3Hasher> {
    let mut p = PathBuf::from("test"); p.push(path);
    if p.exists() { std::fs::remove_dir_all(&p).unwrap(); }
    Nomt::open(opts(path, rollback)).unwrap()
}
fn commit(nomt: &Nomt<Blake3Hasher>, kvs: Vec<([u8;32], Option<Vec<u8>>)>) -> anyhow::Result<nomt::Root> {
    let s = nomt.begin_session(SessionParams::default());
    let mut a: Vec<_> = kvs.into_iter().map(|(k,v)| (k, KeyReadWrite::Write(v))).collect();
    a.sort_by_key(|x| x.0);
    let f = s.finish(a)?;
    let r = f.root();
    f.commit(nomt)?;
    Ok(r)
}
fn key(i: u32) -> [u8;32] { *blake3::hash(&i.to_le_bytes()).as_bytes() }

/// F3: failed hash-table page writes are swallowed by write_ht.
/// Fault injection without touching nomt: replace the process's `ht` descriptor by a read-only
/// one (dup2), so every pwrite on it fails with EBADF while fsync still succeeds.
#[test]
fn f3_ht_write_errors_are_swallowed() {
    let name = "zz_probe_f3";
    let nomt = fresh(name, false);
    commit(&nomt, (0..200).map(|i| (key(i), Some(vec![1u8; 8]))).collect()).unwrap();
    // find the fd of the ht file.
    let mut ht_fd = None;
    for e in std::fs::read_dir("/proc/self/fd").unwrap() {
        let e = e.unwrap();
        if let Ok(t) = std::fs::read_link(e.path()) {
            if t.ends_with(format!("test/{name}/ht")) { ht_fd = Some(e.file_name().to_str().unwrap().parse::<i32>().unwrap()); }
        }
    }
    let ht_fd = ht_fd.expect("ht fd");
    let ro = std::fs::File::open(format!("test/{name}/ht")).unwrap();
    use std::os::fd::AsRawFd;
    assert!(unsafe { libc::dup2(ro.as_raw_fd(), ht_fd) } >= 0);
    // this commit's post-meta hash-table writes all fail with EBADF.
    let res = commit(&nomt, (0..200).map(|i| (key(i), Some(vec![2u8; 8]))).collect());
    println!("commit result with failing ht writes: {:?}, poisoned: {}", res.as_ref().map(|_| "Ok"), nomt.is_poisoned());
    let reported_root = nomt.root();
    drop(nomt);
    let nomt = Nomt::<Blake3Hasher>::open(opts(name, false)).unwrap();
    println!("root reported before close: {:?}\nroot after reopen:          {:?}", reported_root, nomt.root());
    assert!(res.is_err() || nomt.root() == reported_root,
        "commit returned Ok although its hash-table writes failed; the store is silently corrupt");
}

/// F6: an I/O error while appending the rollback delta does not poison the handle.
#[test]
fn f6_rollback_append_failure_does_not_poison() {
    let name = "zz_probe_f6";
    let nomt = fresh(name, true);
    let k = [5u8; 32];
    commit(&nomt, vec![(k, Some(vec![1]))]).unwrap();
    let root_before = nomt.root();
    unsafe {
        libc::signal(libc::SIGXFSZ, libc::SIG_IGN);
        let lim = libc::rlimit { rlim_cur: 0, rlim_max: libc::RLIM_INFINITY };
        assert_eq!(libc::setrlimit(libc::RLIMIT_FSIZE, &lim), 0);
    }
    let res = commit(&nomt, vec![(k, Some(vec![2]))]);
    unsafe {
        let lim = libc::rlimit { rlim_cur: libc::RLIM_INFINITY, rlim_max: libc::RLIM_INFINITY };
        assert_eq!(libc::setrlimit(libc::RLIMIT_FSIZE, &lim), 0);
    }
    println!("commit under RLIMIT_FSIZE=0: {:?}", res.as_ref().map(|_| "Ok").map_err(|e| e.to_string()));
    assert!(res.is_err());
    println!("poisoned = {}, root changed = {}, value = {:?}", nomt.is_poisoned(), nomt.root() != root_before, nomt.read(k).unwrap());
    assert!(nomt.is_poisoned(), "a write failure during commit must poison the handle");
}
