//! F13 probe (C20): "once the handle is dropped ... the directory can be opened again and all background writers of the old
//! handle have finished".  A commit that fails early on the hash-table side (bucket exhaustion) returns while the value-tree
//! update of the same commit is still running on its own threads; dropping the handle releases the directory lock at once.
//! The test drops the handle right after the failed commit, re-opens the directory (which must succeed: the lock is free) and
//! then watches the value files: if their size or contents still change, a writer of the OLD handle is alive.
use nomt::{hasher::Blake3Hasher, KeyReadWrite, Nomt, Options, SessionParams};
use std::{path::Path, time::Duration};

fn key(i: u64) -> [u8; 32] {
    *blake3::hash(&i.to_le_bytes()).as_bytes()
}

fn opts(path: &Path) -> Options {
    let mut o = Options::new();
    o.path(path);
    o.hashtable_buckets(64);
    o.bitbox_seed([1; 16]);
    o.commit_concurrency(1);
    o.rollback(false);
    o
}

fn fingerprint(dir: &Path) -> Vec<(String, u64, blake3::Hash)> {
    let mut v = Vec::new();
    for name in ["ln", "bbn", "meta", "ht", "wal"] {
        let p = dir.join(name);
        let data = std::fs::read(&p).unwrap_or_default();
        v.push((name.to_string(), data.len() as u64, blake3::hash(&data)));
    }
    v
}

#[test]
fn no_writer_of_a_dropped_handle_touches_the_files() {
    let dir = tempfile::tempdir().unwrap();
    let path = dir.path().join("db");
    let db: Nomt<Blake3Hasher> = Nomt::open(opts(&path)).unwrap();
    let session = db.begin_session(SessionParams::default());
    // many large values: the value-tree side of the commit has a lot to write; the 64-bucket table is exhausted at once
    let mut actuals: Vec<_> = (0..60_000u64).map(|i| (key(i), KeyReadWrite::Write(Some(vec![i as u8; 1200])))).collect();
    actuals.sort_by_key(|(k, _)| *k);
    let finished = session.finish(actuals).unwrap();
    let res = finished.commit(&db);
    assert!(res.is_err(), "the commit was expected to fail with bucket exhaustion");
    drop(db);
    // the directory lock is free: a new handle can be opened
    let db2: Nomt<Blake3Hasher> = Nomt::open(opts(&path)).expect("re-open after drop");
    let before = fingerprint(&path);
    let mut changed = Vec::new();
    for round in 0..20 {
        std::thread::sleep(Duration::from_millis(100));
        let now = fingerprint(&path);
        for (a, b) in before.iter().zip(now.iter()) {
            if a != b {
                changed.push(format!("round {round}: {} {} bytes -> {} bytes{}", a.0, a.1, b.1, if a.1 == b.1 { " (contents changed)" } else { "" }));
            }
        }
        if !changed.is_empty() {
            break;
        }
    }
    drop(db2);
    assert!(changed.is_empty(), "files of the directory changed while only a NEW idle handle was open - a background writer of the dropped handle was still running:\n{}", changed.join("\n"));
}
