//! C19 demonstration: every page below the allocation frontier of the value file (`ln`) must be
//! either in use by the current state or tracked by the free list, exactly once, and the frontier
//! must not creep upwards over repeated fill / overwrite / empty cycles.
//!
//! The audit below decodes the database files purely by their documented on-disk format:
//!   * `meta`: manifest (free-list heads and bump pointers),
//!   * `bbn` : bottom-level branch nodes (-> leaf page numbers),
//!   * `ln`  : leaves, overflow pages and the embedded free list.

mod common;
use common::Test;

use std::{
    collections::{BTreeMap, BTreeSet},
    fs::File,
    os::unix::fs::FileExt,
    path::{Path, PathBuf},
};

const PAGE_SIZE: usize = 4096;
const OVERFLOW_BIT: u16 = 1 << 15;

fn read_page(f: &File, pn: u32) -> Vec<u8> {
    let mut buf = vec![0u8; PAGE_SIZE];
    f.read_exact_at(&mut buf, pn as u64 * PAGE_SIZE as u64)
        .unwrap_or_else(|e| panic!("reading page {pn}: {e}"));
    buf
}

fn u16_at(b: &[u8], off: usize) -> u16 {
    u16::from_le_bytes(b[off..off + 2].try_into().unwrap())
}

fn u32_at(b: &[u8], off: usize) -> u32 {
    u32::from_le_bytes(b[off..off + 4].try_into().unwrap())
}

/// Walk an embedded free list. Returns (pages holding the list, page numbers listed as free).
fn walk_free_list(f: &File, head: u32) -> (Vec<u32>, Vec<u32>) {
    let mut list_pages = Vec::new();
    let mut entries = Vec::new();
    let mut pn = head;
    while pn != 0 {
        let page = read_page(f, pn);
        list_pages.push(pn);
        let prev = u32_at(&page, 0);
        let count = u16_at(&page, 4) as usize;
        for i in 0..count {
            entries.push(u32_at(&page, 6 + i * 4));
        }
        pn = prev;
    }
    (list_pages, entries)
}

#[derive(Debug, Default)]
struct Audit {
    ln_bump: u32,
    ln_file_pages: u64,
    free_list_pages: usize,
    free_entries: usize,
    leaves: usize,
    overflow_pages: usize,
    /// pages below the frontier that nobody accounts for.
    leaked: Vec<u32>,
    /// pages accounted for more than once (pn -> owners).
    multiply_claimed: Vec<(u32, Vec<&'static str>)>,
    /// pages referenced at or beyond the frontier.
    out_of_range: Vec<(u32, &'static str)>,
}

impl Audit {
    fn is_clean(&self) -> bool {
        self.leaked.is_empty() && self.multiply_claimed.is_empty() && self.out_of_range.is_empty()
    }
}

fn audit(db: &Path) -> Audit {
    let meta = {
        let f = File::open(db.join("meta")).unwrap();
        let mut buf = vec![0u8; 64];
        f.read_exact_at(&mut buf, 0).unwrap();
        buf
    };
    assert_eq!(&meta[0..4], b"NOMT");
    let ln_freelist_pn = u32_at(&meta, 8);
    let ln_bump = u32_at(&meta, 12);
    let bbn_freelist_pn = u32_at(&meta, 16);
    let bbn_bump = u32_at(&meta, 20);

    let ln = File::open(db.join("ln")).unwrap();
    let bbn = File::open(db.join("bbn")).unwrap();

    let mut claims: BTreeMap<u32, Vec<&'static str>> = BTreeMap::new();
    let mut claim = |pn: u32, who: &'static str| claims.entry(pn).or_default().push(who);

    // 1. the free list of the value file.
    let (ln_list_pages, ln_free) = walk_free_list(&ln, ln_freelist_pn);
    for pn in &ln_list_pages {
        claim(*pn, "free-list page");
    }
    for pn in &ln_free {
        claim(*pn, "free-list entry");
    }

    // 2. live bottom-level branch nodes -> leaves.
    let (bbn_list_pages, bbn_free) = walk_free_list(&bbn, bbn_freelist_pn);
    let bbn_tracked: BTreeSet<u32> = bbn_list_pages.into_iter().chain(bbn_free).collect();

    let mut leaves = Vec::new();
    for pn in 1..bbn_bump {
        if bbn_tracked.contains(&pn) {
            continue;
        }
        let page = read_page(&bbn, pn);
        if page.iter().all(|b| *b == 0) {
            continue;
        }
        assert_eq!(u32_at(&page, 0), pn, "bbn page number mismatch");
        let n = u16_at(&page, 4) as usize;
        for i in 0..n {
            leaves.push(u32_at(&page, PAGE_SIZE - (n - i) * 4));
        }
    }

    // 3. leaves -> overflow cells -> overflow pages.
    let mut overflow_pages = 0;
    for leaf_pn in &leaves {
        claim(*leaf_pn, "leaf");
        if *leaf_pn >= ln_bump {
            continue;
        }
        let page = read_page(&ln, *leaf_pn);
        let n = u16_at(&page, 0) as usize;
        for i in 0..n {
            let raw = u16_at(&page, 2 + i * 34 + 32);
            if raw & OVERFLOW_BIT == 0 {
                continue;
            }
            let start = (raw & !OVERFLOW_BIT) as usize;
            let end = if i + 1 == n {
                PAGE_SIZE
            } else {
                (u16_at(&page, 2 + (i + 1) * 34 + 32) & !OVERFLOW_BIT) as usize
            };
            let cell = &page[start..end];
            // overflow cell: value_size u64, value_hash [u8; 32], page numbers.
            let mut pages: Vec<u32> = cell[40..].chunks(4).map(|c| u32_at(c, 0)).collect();
            // overflow page: n_pointers u16, n_bytes u16, pointers, bytes.
            let mut idx = 0;
            while idx < pages.len() {
                let opn = pages[idx];
                idx += 1;
                if opn >= ln_bump {
                    continue;
                }
                let opage = read_page(&ln, opn);
                let n_ptrs = u16_at(&opage, 0) as usize;
                for j in 0..n_ptrs {
                    pages.push(u32_at(&opage, 4 + j * 4));
                }
            }
            overflow_pages += pages.len();
            for opn in pages {
                claim(opn, "overflow page");
            }
        }
    }

    let mut out = Audit {
        ln_bump,
        ln_file_pages: ln.metadata().unwrap().len() / PAGE_SIZE as u64,
        free_list_pages: ln_list_pages.len(),
        free_entries: ln_free.len(),
        leaves: leaves.len(),
        overflow_pages,
        ..Default::default()
    };

    for pn in 1..ln_bump {
        match claims.get(&pn) {
            None => out.leaked.push(pn),
            Some(owners) if owners.len() > 1 => out.multiply_claimed.push((pn, owners.clone())),
            Some(_) => {}
        }
    }
    for (pn, owners) in &claims {
        if *pn == 0 || *pn >= ln_bump {
            out.out_of_range.push((*pn, owners[0]));
        }
    }
    out
}

fn report(label: &str, a: &Audit) {
    println!(
        "[{label}] ln_bump={} file_pages={} leaves={} overflow={} free_entries={} free_list_pages={} \
         leaked={} multiply_claimed={} out_of_range={}",
        a.ln_bump,
        a.ln_file_pages,
        a.leaves,
        a.overflow_pages,
        a.free_entries,
        a.free_list_pages,
        a.leaked.len(),
        a.multiply_claimed.len(),
        a.out_of_range.len(),
    );
    if !a.leaked.is_empty() {
        println!(
            "    leaked (first 16): {:?}",
            &a.leaked[..a.leaked.len().min(16)]
        );
    }
    if !a.multiply_claimed.is_empty() {
        println!(
            "    multiply claimed (first 8): {:?}",
            &a.multiply_claimed[..a.multiply_claimed.len().min(8)]
        );
    }
    if !a.out_of_range.is_empty() {
        println!(
            "    out of range (first 8): {:?}",
            &a.out_of_range[..a.out_of_range.len().min(8)]
        );
    }
}

fn db_path(name: &str) -> PathBuf {
    PathBuf::from("test").join(name)
}

fn key(i: u64) -> [u8; 32] {
    *blake3::hash(&i.to_le_bytes()).as_bytes()
}

fn value(i: u64, round: u64, len: usize) -> Vec<u8> {
    let mut v = vec![0u8; len];
    let seed = blake3::hash(&(i ^ (round << 32)).to_le_bytes());
    for (j, b) in v.iter_mut().enumerate() {
        *b = seed.as_bytes()[j % 32] ^ (round as u8) ^ (j as u8);
    }
    v
}

/// THE DEMONSTRATION.
///
/// A handful of large (multi-page, some with indirect overflow pages) values is written, written
/// again with the very same contents, overwritten with different contents, shrunk to in-leaf
/// size, grown again and finally deleted; the cycle is repeated and the database is closed and
/// reopened in the middle. The files are audited after every commit: every page below the
/// frontier of the value file must be accounted for exactly once, and the frontier after
/// emptying must not grow from cycle to cycle.
///
/// The large values sit between small "sentinel" values which are written once and never touched
/// again, and everything fits one leaf (see NOTES.md for why the history is shaped like this).
#[test]
fn c19_large_value_rewrite_shrink_delete_cycles() {
    let name = "c19_large_value_rewrite_shrink_delete_cycles";
    let db = db_path(name);

    const CYCLES: u64 = 6;
    let big_sizes = [
        5_000usize, 30_000, 61_380, 70_000, 200_000, 500_000, 1_400, 100_000,
    ];

    // sorted order: S0 < B0 < S1 < B1 < ... < B7 < S8
    let sentinel = |j: usize| {
        let mut k = [0u8; 32];
        k[0] = 0x10 + 2 * j as u8;
        k
    };
    let big = |j: usize| {
        let mut k = [0u8; 32];
        k[0] = 0x10 + 2 * j as u8 + 1;
        k
    };

    let mut t = Test::new_with_params(name, 1, 20_000, None, true);

    let mut dirty: Vec<String> = Vec::new();
    let mut empty_frontiers = Vec::new();

    let mut check = |label: String| -> Audit {
        let a = audit(&db);
        report(&label, &a);
        if !a.is_clean() {
            dirty.push(format!(
                "{label}: leaked={} multiply_claimed={} out_of_range={}",
                a.leaked.len(),
                a.multiply_claimed.len(),
                a.out_of_range.len()
            ));
        }
        a
    };

    for j in 0..=big_sizes.len() {
        t.write(sentinel(j), Some(value(1000 + j as u64, 0, 100)));
    }
    t.commit();
    let a = check("sentinels".to_string());
    assert_eq!(a.leaves, 1);

    for cycle in 0..CYCLES {
        let write_all = |t: &mut Test, round: u64, shrink: bool| {
            for (j, len) in big_sizes.iter().enumerate() {
                let len = if shrink { 200 } else { *len };
                t.write(big(j), Some(value(j as u64, round, len)));
            }
            t.commit();
        };
        let expect_all = |t: &mut Test, round: u64, shrink: bool| {
            for (j, len) in big_sizes.iter().enumerate() {
                let len = if shrink { 200 } else { *len };
                assert_eq!(t.read(big(j)), Some(value(j as u64, round, len)));
            }
            t.commit();
        };

        write_all(&mut t, 10 * cycle, false);
        check(format!("cycle {cycle} insert"));

        // idempotent write: the same contents once more.
        write_all(&mut t, 10 * cycle, false);
        check(format!("cycle {cycle} rewrite same"));
        expect_all(&mut t, 10 * cycle, false);

        write_all(&mut t, 10 * cycle + 1, false);
        check(format!("cycle {cycle} overwrite different"));

        write_all(&mut t, 10 * cycle + 2, true);
        check(format!("cycle {cycle} shrink to in-leaf"));

        if cycle == 2 {
            // close and reopen the database: the free list is read back from the file.
            drop(t);
            t = Test::new_with_params(name, 1, 20_000, None, false);
            check(format!("cycle {cycle} reopened"));
        }

        write_all(&mut t, 10 * cycle + 3, false);
        check(format!("cycle {cycle} grow to overflow"));

        write_all(&mut t, 10 * cycle + 3, false);
        check(format!("cycle {cycle} rewrite same (2)"));
        expect_all(&mut t, 10 * cycle + 3, false);

        for j in 0..big_sizes.len() {
            t.write(big(j), None);
        }
        t.commit();
        let a = check(format!("cycle {cycle} delete"));
        assert_eq!((a.leaves, a.overflow_pages), (1, 0));
        empty_frontiers.push(a.ln_bump);
    }

    println!("frontier of the value file after each emptying: {empty_frontiers:?}");
    assert!(
        dirty.is_empty(),
        "value-file pages below the frontier that are neither in use nor on the free list \
         (or accounted for twice); {} audits dirty, first: {:?}",
        dirty.len(),
        dirty[0],
    );
    let first = empty_frontiers[0];
    let last = *empty_frontiers.last().unwrap();
    assert!(
        last <= first + 16,
        "the frontier keeps growing across cycles: {empty_frontiers:?}"
    );
}

/// Control (passes with and without the change): fill / overwrite / empty cycles using in-leaf
/// values only, with enough leaves that the free list of the value file spans several pages.
#[test]
fn c19_control_small_values_fill_empty_cycles() {
    let name = "c19_control_small_values_fill_empty_cycles";
    let db = db_path(name);

    const N: u64 = 6000;
    const CYCLES: u64 = 3;
    const BUCKETS: u32 = 100_000;
    let sizes = [40usize, 1300, 300, 900, 8, 1100];

    let mut t = Test::new_with_params(name, 1, BUCKETS, None, true);

    let mut dirty: Vec<String> = Vec::new();
    let mut empty_frontiers = Vec::new();
    let mut max_free_list_pages = 0;

    let mut check = |label: String| {
        let a = audit(&db);
        report(&label, &a);
        if !a.is_clean() {
            dirty.push(label);
        }
        max_free_list_pages = max_free_list_pages.max(a.free_list_pages);
    };

    for cycle in 0..CYCLES {
        for part in 0..4 {
            for i in (0..N).filter(|i| i % 4 == part) {
                let len = sizes[((i + cycle) % sizes.len() as u64) as usize];
                t.write(key(i), Some(value(i, cycle, len)));
            }
            t.commit();
            check(format!("cycle {cycle} fill {part}"));
        }
        for shift in [1u64, 4] {
            for i in 0..N {
                let len = sizes[((i + cycle + shift) % sizes.len() as u64) as usize];
                t.write(key(i), Some(value(i, cycle + 100 * shift, len)));
            }
            t.commit();
            check(format!("cycle {cycle} overwrite +{shift}"));
        }
        for part in 0..3 {
            for i in (0..N).filter(|i| i % 3 == part) {
                t.write(key(i), None);
            }
            t.commit();
            check(format!("cycle {cycle} delete {part}"));
        }
        let a = audit(&db);
        assert_eq!(a.leaves + a.overflow_pages, 0, "store should be empty");
        empty_frontiers.push(a.ln_bump);
    }

    println!("frontier of the value file after each emptying: {empty_frontiers:?}");
    assert!(
        max_free_list_pages >= 2,
        "free list should span several pages"
    );
    assert!(dirty.is_empty(), "dirty audits after: {dirty:?}");
}

/// NOT part of the demonstration (ignored by default): the same kind of history, but with values
/// that migrate between in-leaf and (multi-page) overflow form.
///
/// This one fails on the UNCHANGED tree as well: see NOTES.md ("pre-existing defect").
#[test]
#[ignore]
fn c19_probe_overflow_cycles_fails_on_unchanged_tree() {
    let name = "c19_probe_overflow_cycles";
    let mut t = Test::new_with_params(name, 1, 20_000, None, true);
    let db = db_path(name);

    const N: u64 = 600;
    const CYCLES: u64 = 3;
    let sizes = [40usize, 900, 1400, 5_000, 30_000, 70_000, 200];

    let mut dirty = Vec::new();
    let mut empty_frontiers = Vec::new();

    let mut check = |label: String| {
        let a = audit(&db);
        report(&label, &a);
        if !a.is_clean() {
            dirty.push(label);
        }
    };

    for cycle in 0..CYCLES {
        for part in 0..4 {
            for i in (0..N).filter(|i| i % 4 == part) {
                let len = sizes[((i + cycle) % sizes.len() as u64) as usize];
                t.write(key(i), Some(value(i, cycle, len)));
            }
            t.commit();
            check(format!("cycle {cycle} fill {part}"));
        }
        for shift in [3u64, 5] {
            for i in 0..N {
                let len = sizes[((i + cycle + shift) % sizes.len() as u64) as usize];
                t.write(key(i), Some(value(i, cycle + 100 * shift, len)));
            }
            t.commit();
            check(format!("cycle {cycle} overwrite +{shift}"));
        }
        for part in 0..3 {
            for i in (0..N).filter(|i| i % 3 == part) {
                t.write(key(i), None);
            }
            t.commit();
            check(format!("cycle {cycle} delete {part}"));
        }
        empty_frontiers.push(audit(&db).ln_bump);
    }

    println!("frontier of the value file after each emptying: {empty_frontiers:?}");
    assert!(dirty.is_empty(), "dirty audits after: {dirty:?}");
}
