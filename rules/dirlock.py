# E7 dirlock — one live handle per directory (C20), structural part
#  D1 lock-before-touch in Store::open / store::create (must-pass-through over the lock sites)
#  D2 Flock::lock yields a Flock only on the Ok arm of try_lock_exclusive; flock flags are LOCK_EX|LOCK_NB
#  D3 the Flock lives in store::Shared.flock; Drop for Shared drains the io pool before releasing it
#  D4 unlock (LOCK_UN) only from <Flock as Drop>::drop     D5 the lock handle is never duplicated
from core import trace, roots, xtrace, fields_of, CheckBroken
import fileclass

OPEN = "nomt::store::Store::open"
CREATE = "nomt::store::create"
LOCK = "nomt::store::flock::Flock::lock"
TRY_LOCK = "nomt::sys::unix::try_lock_exclusive"
UNLOCK = "nomt::sys::unix::unlock"

# component opens / creators that read or write database files
COMPONENTS = (
    "nomt::store::meta::Meta::read",
    "nomt::store::meta::Meta::write",
    "nomt::bitbox::create",
    "nomt::beatree::create",
    "nomt::beatree::Tree::open",
    "nomt::bitbox::DB::open",
    "nomt::rollback::Rollback::read",
    "nomt::io::start_io_pool",
)
# what may precede the lock (reasons)
ALLOWED_BEFORE = {
    "std::fs::create_dir_all": "the directory must exist before the lock file can be created in it",
    "std::path::Path::exists": "read-only probe",
    "nomt::store::is_directory_empty": "read-only probe (the documented creation TOCTOU)",
    "std::fs::read_dir": "read-only probe",
}


def is_probe(facts, events, c, depth=0):
    """an allowed read-only probe, or a function of the crate that consists of such probes only (`should_create(path)`)"""
    if c in ALLOWED_BEFORE:
        return True
    body = facts.bodies.get(c)
    if body is None or body.crate != "nomt" or depth > 3 or body.kind == "Closure":
        return False
    if touching_sites(events, body, facts):
        return False
    for b, t in body.calls():
        cc = t.get("callee") or ""
        if (cc.startswith("std::fs::") or cc.startswith("nomt::")) and not is_probe(facts, events, cc, depth + 1):
            return False
    return True


def const_int(body, op, depth=0):
    """constant-fold an operand: literal/named constants and BitOr/BitAnd/Add of constants"""
    if op["k"] == "const":
        return op.get("int")
    if op["k"] in ("copy", "move") and not op["pl"].get("p") and depth < 4:
        ds = body.defs().get(op["pl"]["l"], [])
        if len(ds) == 1 and ds[0][2] == "assign":
            rv = ds[0][3]["rv"]
            if rv["k"] == "use":
                return const_int(body, rv["op"], depth + 1)
            if rv["k"] == "bin" and rv["op"] in ("BitOr", "BitAnd", "Add"):
                a = const_int(body, rv["a"], depth + 1)
                b = const_int(body, rv["b"], depth + 1)
                if a is not None and b is not None:
                    a, b = int(a), int(b)
                    return str({"BitOr": a | b, "BitAnd": a & b, "Add": a + b}[rv["op"]])
    return None


def flag_flows(facts, body, op, depth=0):
    """(function that supplies the value, folded constant or None) for a flags operand that may be a constant here, or a
    parameter / capture filled by the callers (a private `flock(file, op)` helper shared by lock and unlock)"""
    v = const_int(body, op)
    if v is not None:
        return [(body.id.split("::{closure")[0], v)]
    out = []
    if depth > 3:
        return [(body.id.split("::{closure")[0], None)]
    rs = [r for r in trace(body, op) if r.kind != "via"]
    for r in rs:
        if r.kind == "upvar" and body.parent in facts.bodies and r.what != "<env>":
            par = facts.bodies[body.parent]
            for b in range(par.n):
                for st in par.stmts(b):
                    if st["k"] == "assign" and st["rv"]["k"] == "agg" and st["rv"].get("ak") == "closure" and st["rv"].get("name") == body.id and r.what in st["rv"].get("fields", []):
                        out += flag_flows(facts, par, st["rv"]["ops"][st["rv"]["fields"].index(r.what)], depth + 1)
        elif r.kind == "param" and body.kind != "Closure":
            callers = [c for c in facts.callers().get(body.id, []) if c[2] == "call"]
            for (cid, cb, _k) in callers:
                cbody = facts.bodies[cid]
                t = cbody.term(cb)
                if r.what - 1 < len(t["args"]):
                    out += flag_flows(facts, cbody, t["args"][r.what - 1], depth + 1)
            if not callers:
                out.append((body.id, None))
        else:
            out.append((body.id.split("::{closure")[0], None))
    return out


def touching_sites(ctx_events, body, facts=None):
    """(bb, what, site) of calls in `body` that touch database files"""
    out = []
    for e in ctx_events:
        if e.body.id == body.id and e.kind in ("open", "create", "write", "resize", "unlink", "sync"):
            if e.cls == "dir":
                continue  # the directory handle itself
            out.append((e.bb, "%s(%s)" % (e.kind, e.cls), e.site))
    have = {b for (b, _w, _s) in out}
    for b, t in body.calls():
        c = t.get("callee") or ""
        if c in COMPONENTS:
            out.append((b, c.split("::", 1)[1], t.get("ln")))
        elif facts is not None and c in facts.bodies and facts.bodies[c].crate == "nomt" and c not in (LOCK, CREATE) and b not in have:
            # a helper of this module that touches database files itself (e.g. an `open_db_file(name)` helper)
            inner = set(facts.reach([c]))
            kinds = sorted({"%s(%s)" % (e.kind, e.cls) for e in ctx_events if e.body.id in inner and e.cls not in ("dir",) and e.kind in ("open", "create", "write", "resize", "unlink", "sync")})
            if kinds:
                out.append((b, "%s via %s" % ("/".join(kinds[:3]), c.split("::", 1)[1]), t.get("ln")))
    return out


def refusal_region_untouched(facts, rep, events, body, lb, ws):
    """when the lock call at block lb FAILS (another handle is alive), nothing on the way out may touch the files"""
    t = body.term(lb)
    if "t" not in t:
        return 0
    cleanup = {b for b in range(body.n) if body.is_cleanup(b)}
    failure_only = set()
    # the branch on the outcome of the lock call: a `match` on the Result, or the `?` (Try::branch -> ControlFlow)
    for sb in range(body.n):
        tt = body.term(sb)
        if tt["k"] != "switch" or body.is_cleanup(sb):
            continue
        hit = False
        for r in trace(body, tt["d"]):
            if r.kind == "call" and "<discr>" in r.fields:
                if r.bb == lb:
                    hit = True
                elif str(r.what).endswith("Try>::branch") and r.obj is not None and r.obj.get("args") and any(x.kind == "call" and x.bb == lb for x in trace(body, r.obj["args"][0])):
                    hit = True
        if not hit:
            continue
        ok_t = [tb for (v, tb) in tt["vals"] if v == "0"]
        bad_t = [tb for (v, tb) in tt["vals"] if v != "0"]
        if not ok_t:
            # `if let Err(e) = ..`: the listed value is the failure, the otherwise edge the success
            ok_t = [tt["else"]]
        elif tt["else"] not in ok_t and body.term(tt["else"])["k"] != "unreachable":
            bad_t.append(tt["else"])
        failure_only |= body.reachable(bad_t, cleanup) - body.reachable(ok_t, cleanup)
    n = 0
    for (b, what, site) in touching_sites(events, body, facts):
        if b in failure_only and b != lb:
            n += 1
            rep.violation("D1", ws, "touch-after-refusal|%s" % what, "%s at %s runs on the path on which the directory lock was REFUSED (another handle is alive): a losing opener would modify or remove the live handle's files" % (what, site), site=site)
    return n


def run(facts, rep, events, model):
    n = 0
    LOCK_FIELD = fileclass.field_name(facts, "nomt::store::flock::Flock", "lock_fd")
    op = facts.body(OPEN)
    cr = facts.body(CREATE)
    lk = facts.body(LOCK)
    # ---- D1 ---------------------------------------------------------------------------------
    # lock wrappers: functions of nomt::store that return Ok only after a checked call of Flock::lock (or of another
    # wrapper).  `create` must be one; an `open`-side helper such as `lock_existing` is accepted the same way.
    wrappers = {}
    changed = True
    while changed:
        changed = False
        for body in facts.bodies.values():
            if body.crate != "nomt" or not body.id.startswith("nomt::store::") or body.id in wrappers or body.id in (LOCK, OPEN) or body.kind == "Closure":
                continue
            calls = [b for b, t in body.calls() if t.get("callee") == LOCK or t.get("callee") in wrappers]
            oks = body.ok_returns()
            rem0 = body.ok_removed()
            if len(calls) == 1 and oks and all(body.dominates(calls[0], r, removed=rem0) for r in oks) and model.ok_implied(body, calls[0]):
                wrappers[body.id] = calls[0]
                changed = True
    n += 1
    if CREATE in wrappers:
        rep.ok("D1", "store::create", "lock-call", detail="Flock::lock(..)? in create")
    else:
        # the creation of the files was separated from the locking (`lock_db_dir(..)?; init_db_files(..)?`): then every call
        # of it must come after a checked lock site of the opener
        callers = facts.callers().get(CREATE, [])
        lock_sites = [b for b, t in op.calls() if t.get("callee") == LOCK or t.get("callee") in wrappers]
        free = op.reachable([0], set(op.ok_removed()) | set(lock_sites))
        ok_c = bool(callers) and bool(lock_sites) and all(cid == OPEN and cb not in free for (cid, cb, _k) in callers)
        rep.check(ok_c, "D1", "store::create", "lock-call", "store::create must take the directory lock (exactly once, result checked, on every path to its Ok return), or be called only after a checked lock site of Store::open", site=cr.span, detail="create is called only behind the lock site(s) of Store::open")
    for wid, lb in sorted(wrappers.items()):
        w = facts.bodies[wid]
        ws = wid.split("::", 1)[1]
        rem = w.ok_removed()
        for (b, what, site) in touching_sites(events, w, facts):
            if b == lb:
                continue  # the (inner) lock wrapper itself: judged on its own row
            n += 1
            ok = w.dominates(lb, b, removed=rem)
            rep.check(ok, "D1", ws, "touch|%s" % what, "%s at %s in %s is not dominated by the success of Flock::lock: a second opener / creator could touch the directory's files without holding the lock" % (what, site, ws), site=site, detail="%s at %s after Flock::lock(..)?" % (what, site))
        for b, t in w.calls():
            c = t.get("callee") or ""
            if b != lb and not w.is_cleanup(b) and not w.dominates(lb, b, removed=rem) and b not in set(w.err_blocks()) and (c.startswith("std::fs::") or c.startswith("nomt::")) and not is_probe(facts, events, c):
                if c in ("std::fs::OpenOptions::new", "std::fs::OpenOptions::read", "std::fs::OpenOptions::open", "std::fs::File::open"):
                    cls = {e.cls for e in events if e.body.id == w.id and e.bb == b}
                    if cls <= {"dir"}:
                        continue
                n += 1
                rep.violation("D1", ws, "before-lock|%s" % c.split("::", 1)[1], "%s at %s can run before the directory lock is held and is not one of the allowed probes" % (c, t.get("ln")), site=t.get("ln"))
        n += refusal_region_untouched(facts, rep, events, w, lb, ws)
        for r in w.ok_returns():
            n += 1
            rep.check(w.dominates(lb, r, removed=rem), "D1", ws, "ok-return", "%s can return Ok without holding the lock" % ws, site=w.span, detail="Ok return dominated by Flock::lock")
        # the wrapper hands out the Flock it took
        ret_ok = any(r.kind == "call" and (r.what == LOCK or r.what in wrappers) for r in trace(w, {"l": 0}, deep=True))
        n += 1
        rep.check(ret_ok, "D1", ws, "returns-flock", "%s no longer returns the Flock it acquired" % ws, site=w.span, detail="the Ok value contains the Flock")
    # open: every touching site passes one of the two lock sites
    sites = [b for b, t in op.calls() if t.get("callee") == LOCK or t.get("callee") in wrappers]
    for b in sites:
        n += 1
        rep.check(model.ok_implied(op, b), "D1", "store::Store::open", "lock-checked|%s" % op.term(b)["callee"].split("::")[-1], "the result of %s at %s is not checked" % (op.term(b)["callee"], op.term(b).get("ln")), site=op.term(b).get("ln"), detail="`?`")
    for lb_ in sites:
        n += refusal_region_untouched(facts, rep, events, op, lb_, "store::Store::open")
    remo = set(op.ok_removed()) | set(sites)
    reach = op.reachable([0], remo)
    ts = touching_sites(events, op, facts)
    for (b, what, site) in ts:
        n += 1
        rep.check(b not in reach, "D1", "store::Store::open", "touch|%s" % what, "%s at %s in Store::open can be reached without passing Flock::lock (or create, which locks first): a second opener could read or modify the files of a live handle" % (what, site), site=site, detail="%s at %s only after one of the lock sites %s" % (what, site, [op.term(s).get("ln") for s in sites]))
    rep.floor("D1 file-touching sites in Store::open", len(ts), 6)
    for r in op.ok_returns():
        n += 1
        rep.check(r not in reach, "D1", "store::Store::open", "ok-return", "Store::open can return Ok without having taken the directory lock", site=op.span, detail="Ok return only after a lock site")
    # anything else before the lock must be an allowed probe
    for b, t in op.calls():
        c = t.get("callee") or ""
        if b in reach and (c.startswith("std::fs::") or c.startswith("nomt::")) and not is_probe(facts, events, c) and b not in sites:
            if c in ("std::fs::OpenOptions::new", "std::fs::OpenOptions::read", "std::fs::OpenOptions::open", "std::fs::File::open"):
                # only the directory handle itself
                cls = {e.cls for e in events if e.body.id == op.id and e.bb == b}
                if cls <= {"dir"}:
                    continue
            n += 1
            rep.violation("D1", "store::Store::open", "before-lock|%s" % c.split("::", 1)[1], "%s at %s can run before the directory lock is held and is not one of the allowed probes" % (c, t.get("ln")), site=t.get("ln"))
    # ---- D2 ---------------------------------------------------------------------------------
    lk_entry = lk
    aggs = [(b, s) for b in range(lk.n) for s in lk.stmts(b) if s["k"] == "assign" and s["rv"]["k"] == "agg" and s["rv"].get("name") == "nomt::store::flock::Flock"]
    if not aggs:
        # the construction sits in a private step of the lock module that Flock::lock calls (`Self::try_acquire(lock_file)`):
        # the step is judged in its place
        for c in sorted({t.get("callee") or "" for _b, t in lk.calls()}):
            cb_ = facts.bodies.get(c)
            if cb_ is not None and c.startswith("nomt::store::flock::") and any(s["k"] == "assign" and s["rv"]["k"] == "agg" and s["rv"].get("name") == "nomt::store::flock::Flock" for b in range(cb_.n) for s in cb_.stmts(b)):
                lk = cb_
                aggs = [(b, s) for b in range(lk.n) for s in lk.stmts(b) if s["k"] == "assign" and s["rv"]["k"] == "agg" and s["rv"].get("name") == "nomt::store::flock::Flock"]
                break
    tl = [b for b, t in lk.calls() if t.get("callee") == TRY_LOCK]
    ok = False
    why = "no Flock construction / no try_lock_exclusive call"
    if aggs and len(tl) == 1:
        ok = True
        for (ab, s) in aggs:
            good = False
            for sb in range(lk.n):
                t = lk.term(sb)
                if t["k"] != "switch":
                    continue
                if not any(r.kind == "call" and r.bb == tl[0] and "<discr>" in r.fields for r in trace(lk, t["d"])):
                    continue
                ok_edge = [tb for (v, tb) in t["vals"] if v == "0"]
                others = [tb for (v, tb) in t["vals"] if v != "0"] + [t["else"]]
                if not ok_edge and [v for (v, tb) in t["vals"]] == ["1"]:
                    # `if let Err(e) = ..`: the Ok arm is the otherwise edge
                    ok_edge = [t["else"]]
                    others = [tb for (v, tb) in t["vals"]]
                if ok_edge and lk.dominates(ok_edge[0], ab) and ab not in lk.reachable([o for o in others if o != ok_edge[0]]):
                    good = True
            if not good:
                # `try_lock_exclusive(..).map_err(..)?; Ok(Flock {..})`: the construction is dominated by the call and lies
                # behind its `?` (the call's result is checked on every success path from the call to the construction)
                rem0 = lk.ok_removed()
                if ab != tl[0] and lk.dominates(tl[0], ab, removed=rem0) and ab not in rem0 and model.check_sites(lk, tl[0]) is not None and model.checked_before(lk, tl[0], ab, strict=True):
                    good = True
            ok = ok and good
        why = "Flock{..} constructed only on the Ok arm of try_lock_exclusive"
    n += 1
    rep.check(ok, "D2", "store::flock::Flock::lock", "ok-arm-only", "Flock::lock can return a Flock without try_lock_exclusive having succeeded", site=lk.span, detail=why)
    # the Flock holds the very file that was locked
    n += 1
    same = False
    for (ab, s) in aggs:
        fl = s["rv"]["fields"]
        a = {(r.kind, r.bb, str(r.what) if r.kind == "param" else "") for r in roots(lk, s["rv"]["ops"][fl.index(LOCK_FIELD)]) if r.kind in ("call", "param")}
        for t in [lk.term(x) for x in tl]:
            b_ = {(r.kind, r.bb, str(r.what) if r.kind == "param" else "") for r in roots(lk, t["args"][0]) if r.kind in ("call", "param")}
            if a & b_:
                same = True
    rep.check(same, "D2", "store::flock::Flock::lock", "same-file", "the file stored in the Flock is not the file that was locked", site=lk.span, detail="lock_fd is the descriptor passed to try_lock_exclusive")
    lk = lk_entry
    # flock flags
    flock_calls = []
    for body in facts.bodies.values():
        if body.crate != "nomt":
            continue
        for b, t in body.calls():
            if (t.get("callee") or "").endswith("::flock") and "libc" in t.get("callee"):
                for (owner, flag) in flag_flows(facts, body, t["args"][1]):
                    flock_calls.append((owner, flag, t.get("ln")))
    if not flock_calls:
        # no flock at all: the lock is taken some other way (POSIX record locks via fcntl(F_SETLK) are owned by the PROCESS and
        # are released when the process closes ANY descriptor of the file - a refused second open in the same process would
        # drop the live handle's lock)
        n += 1
        others = sorted({(t.get("callee") or "").rsplit("::", 1)[-1] for body in facts.bodies.values() if body.crate == "nomt" and body.id.startswith(("nomt::sys::", "nomt::store::flock::")) for _b, t in body.calls() if "libc" in (t.get("callee") or "")})
        rep.violation("D2", "store::flock::Flock::lock", "flock|missing", "the directory lock is no longer taken with flock(LOCK_EX | LOCK_NB) (libc calls now used by the lock code: %s): only an flock on the open file description is exclusive across processes AND across handles of one process and survives the closing of other descriptors of the file" % (", ".join(others) or "none"), site=lk.span)
    else:
        rep.floor("libc::flock flag flows", len(flock_calls), 2)
    seen_lock = seen_unlock = False
    for (fn, flag, ln) in sorted(set(flock_calls), key=repr):
        n += 1
        root = fn.split("::{closure")[0]
        if root == TRY_LOCK:
            seen_lock = True
            rep.check(flag == "6", "D2", "sys::unix::try_lock_exclusive", "flags=LOCK_EX|LOCK_NB", "try_lock_exclusive calls flock with flags %s instead of LOCK_EX|LOCK_NB (6): a blocking or shared lock does not refuse a second opener" % flag, site=ln, detail="libc::flock(fd, 6)")
        elif root == UNLOCK:
            seen_unlock = True
            rep.check(flag == "8", "D4", "sys::unix::unlock", "flags=LOCK_UN", "unlock calls flock with flags %s instead of LOCK_UN (8)" % flag, site=ln, detail="libc::flock(fd, 8)")
        else:
            rep.violation("D2", fn.split("::", 1)[1], "flock-elsewhere", "libc::flock is reached at %s with flags supplied by %s, which is neither try_lock_exclusive nor unlock" % (ln, fn), site=ln)
    n += 1
    rep.check(seen_lock and seen_unlock, "D2", "sys::unix", "lock-and-unlock-flows", "libc::flock is no longer reached from both try_lock_exclusive and unlock", detail="flows from try_lock_exclusive and from unlock")
    # try_lock_exclusive propagates the error of flock (cvt_r) : its result derives from cvt_r's
    tle = facts.body(TRY_LOCK)
    n += 1
    def origins(b_, op, depth=0, seen=None):
        """names of the calls a value is computed from, looking through Result combinators, functions of the crate (their
        return value) and closures of the crate that are invoked (their return value)"""
        seen = seen if seen is not None else set()
        out = set()
        if depth > 6:
            return out
        for r in trace(b_, op, deep=True):
            if r.kind not in ("call", "via") or r.obj is None:
                if r.kind == "agg" and r.obj is not None:
                    for o in r.obj.get("ops", []):
                        out |= origins(b_, o, depth + 1, seen)
                if r.kind == "binop" and r.obj is not None:
                    for kk in ("a", "b"):
                        if isinstance(r.obj.get(kk), dict):
                            out |= origins(b_, r.obj[kk], depth + 1, seen)
                continue
            c_ = str(r.what)
            key = (b_.id, r.bb, c_)
            if key in seen:
                continue
            seen.add(key)
            out.add(c_)
            args = r.obj.get("args", [])
            if c_.startswith(("core::result::Result", "core::option::Option", "core::ops::control_flow", "<core::result::Result", "<core::option::Option")):
                for a in args[:1]:
                    out |= origins(b_, a, depth + 1, seen)
            elif c_ in facts.bodies and facts.bodies[c_].crate == "nomt":
                out |= origins(facts.bodies[c_], {"l": 0}, depth + 1, seen)
                for a in args:
                    out |= origins(b_, a, depth + 1, seen)
            elif c_.startswith("core::ops::function::Fn") and args:
                # a closure being invoked: its own result
                for x in trace(b_, args[0], deep=True):
                    if x.kind == "agg" and x.obj is not None and x.obj.get("ak") == "closure" and x.obj.get("name") in facts.bodies:
                        out |= origins(facts.bodies[x.obj["name"]], {"l": 0}, depth + 1, seen)
                    if x.kind == "param":
                        # a closure parameter: the closures handed in by the callers
                        for (cid, cbb, kk) in facts.callers().get(b_.id, []):
                            cb_ = facts.bodies.get(cid)
                            if cb_ is None or kk != "call":
                                continue
                            ta = cb_.term(cbb)["args"]
                            if x.what - 1 < len(ta):
                                for y in trace(cb_, ta[x.what - 1], deep=True):
                                    if y.kind == "agg" and y.obj is not None and y.obj.get("ak") == "closure" and y.obj.get("name") in facts.bodies:
                                        out |= origins(facts.bodies[y.obj["name"]], {"l": 0}, depth + 1, seen)
        return out

    def returns_cvt_r(b_):
        """the result of try_lock_exclusive is computed from the libc::flock call and from Error::last_os_error(): the outcome
        of the lock attempt is what is reported (today: cvt_r(|| flock(..)).map(drop))"""
        os_ = origins(b_, {"l": 0})
        # the outcome may also be DECIDED by the call (`if f() != -1 { Ok(()) } else { Err(last_os_error()) }`, once the
        # helpers are folded in): the branch conditions of this small function count as well
        for sb in range(b_.n):
            tt = b_.term(sb)
            if tt["k"] == "switch" and not b_.is_cleanup(sb):
                os_ |= origins(b_, tt["d"])
        return any(o.startswith("libc::") and o.endswith("::flock") for o in os_) and any(o.endswith("Error::last_os_error") for o in os_)

    ok = returns_cvt_r(tle)
    rep.check(ok, "D2", "sys::unix::try_lock_exclusive", "propagates-errno", "try_lock_exclusive no longer returns the outcome of the flock call", site=tle.span, detail="cvt_r(|| flock(..)).map(drop)")
    # ---- D4 ---------------------------------------------------------------------------------
    callers = {c[0] for c in facts.callers().get(UNLOCK, [])}
    n += 1
    rep.check(callers == {"<nomt::store::flock::Flock as core::ops::drop::Drop>::drop"}, "D4", "sys::unix::unlock", "single-unlock-site", "unlock is called from %s (only <Flock as Drop>::drop may release the lock)" % sorted(callers), detail="callers = %s" % sorted(callers))
    callers = {c[0] for c in facts.callers().get(TRY_LOCK, [])}
    n += 1
    # Flock::lock itself, or the private step of the lock module that constructs the Flock on its behalf (called only from it)
    steps = {LOCK}
    for c in callers:
        if c.startswith("nomt::store::flock::") and c != LOCK and {x[0] for x in facts.callers().get(c, [])} <= {LOCK}:
            steps.add(c)
    rep.check(bool(callers) and callers <= steps, "D2", "sys::unix::try_lock_exclusive", "single-lock-site", "try_lock_exclusive is called from %s" % sorted(callers), detail="callers = %s" % sorted(callers))
    # ---- D3 ---------------------------------------------------------------------------------
    sh_aggs = [(b, s) for b in range(op.n) for s in op.stmts(b) if s["k"] == "assign" and s["rv"]["k"] == "agg" and s["rv"].get("name") == "nomt::store::Shared"]
    n += 1
    flows = False
    for (b, s) in sh_aggs:
        fl = s["rv"]["fields"]
        if "flock" in fl:
            rs = trace(op, s["rv"]["ops"][fl.index("flock")])
            if any(r.kind == "call" and r.what in (LOCK, CREATE) for r in rs):
                flows = True
    rep.check(flows and len(sh_aggs) == 1, "D3", "store::Store::open", "flock->Shared.flock", "the Flock acquired in Store::open does not end up in store::Shared.flock (the lock would be released while the handle lives)", site=op.span, detail="Shared { flock: Some(flock), .. }")
    # no explicit drop of the flock in open
    for b, t in op.calls():
        if (t.get("callee") or "") in ("core::mem::drop",) and t["args"]:
            if any(r.kind == "call" and r.what in (LOCK, CREATE) for r in trace(op, t["args"][0])):
                n += 1
                rep.violation("D3", "store::Store::open", "flock-dropped", "the Flock is dropped explicitly at %s in Store::open" % t.get("ln"), site=t.get("ln"))
    dr = facts.body("<nomt::store::Shared as core::ops::drop::Drop>::drop")
    sd = [b for b, t in dr.calls() if t.get("callee") == "nomt::io::IoPool::shutdown"]
    rel = []
    for b, t in dr.calls():
        c = t.get("callee") or ""
        if c.endswith("::take") or c == "core::mem::drop" or c.endswith("mem::replace"):
            if t["args"] and any("flock" in r.fields for r in trace(dr, t["args"][0])):
                rel.append(b)
    for b in range(dr.n):
        t = dr.term(b)
        if t["k"] == "drop" and "flock" in fields_of(t["pl"]):
            rel.append(b)
    n += 1
    ok = len(sd) == 1 and bool(rel) and all(dr.dominates(sd[0], r) and r != sd[0] for r in rel)
    rep.check(ok, "D3", "<store::Shared as Drop>::drop", "shutdown-before-release", "Drop for store::Shared does not call IoPool::shutdown before every release of the flock field (release sites %s): an I/O worker could still write after another process acquired the lock" % rel, site=dr.span, detail="io_pool.shutdown() at bb%s dominates the release of self.flock at %s" % (sd, rel))
    sh = facts.body("nomt::io::IoPool::shutdown")
    n += 1
    rep.check(any((t.get("callee") or "").endswith("ThreadPool::join") for b, t in sh.calls()), "D3", "io::IoPool::shutdown", "joins-workers", "IoPool::shutdown no longer joins the I/O worker pool", site=sh.span, detail="io_workers_tp.join()")
    # the Shared struct's flock field is declared and no other code takes it
    takers = []
    for body in facts.bodies.values():
        if body.crate != "nomt":
            continue
        for b, t in body.calls():
            c = t.get("callee") or ""
            if (c.endswith("Option::take") or c.endswith("mem::replace") or c.endswith("mem::take")) and t["args"]:
                for r in trace(body, t["args"][0]):
                    if r.path and r.path[-1] == ("flock", "nomt::store::Shared"):
                        takers.append(body.id)
    n += 1
    rep.check(set(takers) <= {dr.id}, "D3", "store::Shared", "flock-taken-only-in-drop", "store::Shared.flock is taken out in %s" % sorted(set(takers) - {dr.id}), detail="only Drop for Shared takes the flock")
    # ---- D5 ---------------------------------------------------------------------------------
    clones = [im for im in facts.impls if im.get("self") == "nomt::store::flock::Flock" and (im.get("trait") or "").endswith(("Clone", "Copy"))]
    n += 1
    rep.check(not clones, "D5", "store::flock::Flock", "not-clone", "Flock implements Clone/Copy: two owners would unlock twice / keep the lock past the handle", detail="no Clone/Copy impl")
    dup = []
    for body in facts.bodies.values():
        if body.crate != "nomt":
            continue
        for b, t in body.calls():
            c = t.get("callee") or ""
            if c.endswith("File::try_clone") or c.endswith("::dup") or c.endswith("::dup2") or c.endswith("::into_raw_fd"):
                if t["args"] and any(r.path and r.path[-1][0] == LOCK_FIELD for r in trace(body, t["args"][0])):
                    dup.append(t.get("ln"))
    n += 1
    rep.check(not dup, "D5", "store::flock::Flock", "fd-not-duplicated", "the lock descriptor is duplicated at %s" % dup, detail="lock_fd is never try_clone'd / dup'ed")
    n += d6_close_on_exec(facts, rep)
    return n


# ---- D6: descriptors do not leak into child processes ------------------------------------------------
# "once the handle is dropped (normally, ... or by process death) the directory can be opened again": a flock belongs to the
# open file description, so a descriptor inherited by a child process the host spawns keeps the directory locked after the
# owner died.  std opens everything with O_CLOEXEC; the rule is about RAW descriptor-creating calls: none in crate nomt, or a
# constant flags operand that contains O_CLOEXEC.
O_CLOEXEC = 0o2000000
F_DUPFD = 0
RAW_FD_MAKERS = {
    # name -> index of the flags argument (None: the call cannot carry O_CLOEXEC at all)
    "open": 1, "open64": 1, "openat": 2, "openat64": 2, "openat2": None, "creat": None, "creat64": None,
    "dup": None, "dup2": None, "dup3": 2, "pipe": None, "pipe2": 1, "socket": 1, "socketpair": 1, "accept": None, "accept4": 3,
    "memfd_create": 1, "eventfd": 1, "epoll_create": None, "epoll_create1": 0, "inotify_init": None, "inotify_init1": 0,
    "signalfd": 2, "timerfd_create": 1, "mkstemp": None, "mkostemp": 1,
}


def d6_close_on_exec(facts, rep):
    n = 0
    seen = 0
    for body in facts.bodies.values():
        if body.crate != "nomt" or "::tests::" in body.id:
            continue
        for b, t in body.calls():
            c = t.get("callee") or ""
            if not c.startswith("libc::"):
                continue
            name = c.rsplit("::", 1)[-1]
            short = body.id.split("::", 1)[1]
            if name == "fcntl":
                seen += 1
                if len(t["args"]) >= 2:
                    cmd = const_int(body, t["args"][1])
                    cmd = int(cmd) if cmd is not None else None
                    n += 1
                    rep.check(cmd is None or cmd != F_DUPFD, "D6", short, "fcntl(F_DUPFD)", "fcntl(F_DUPFD) at %s duplicates a descriptor without close-on-exec: a child process would inherit it (and with the lock descriptor, the directory lock)" % t.get("ln"), site=t.get("ln"), detail="fcntl command %s" % cmd)
                continue
            if name not in RAW_FD_MAKERS:
                continue
            seen += 1
            idx = RAW_FD_MAKERS[name]
            n += 1
            flags = const_int(body, t["args"][idx]) if idx is not None and idx < len(t["args"]) else None
            flags = int(flags) if flags is not None else None
            ok = flags is not None and (flags & O_CLOEXEC) != 0
            rep.check(ok, "D6", short, "raw-fd|%s" % name, "libc::%s at %s creates a descriptor without O_CLOEXEC (flags %s): a child process spawned by the host inherits it; if it is (or may be) a database or lock descriptor, the directory stays locked or written after the owner is gone" % (name, t.get("ln"), "not constant" if flags is None and idx is not None else (oct(flags) if flags is not None else "cannot be given")), site=t.get("ln"), detail="flags %s contain O_CLOEXEC" % (oct(flags) if flags is not None else "?"))
    n += 1
    rep.ok("D6", "crate nomt", "raw-descriptor-makers", detail="%d raw libc descriptor-related call(s) inspected (fcntl / open / dup ..); every other descriptor comes from std, which sets O_CLOEXEC" % seen)
    return n


# ---- D7: no background writer of a sync outlives the call that started it ---------------------------
# "once the handle is dropped ... all background writers of the old handle have finished".  The commit API is synchronous:
# every task a sync spawns (the value-tree update, the WAL / hash-table writeout, the rollback-log pruning) must have been
# joined when `Sync::sync` returns - on its ERROR exits as well, because a failed commit is exactly when the caller drops the
# handle, and dropping it releases the directory lock (D3 only drains the I/O pool).  Rule: for every call in Sync::sync
# after which a spawned task is still pending (summary of the happens-before model, rules/syncmodel.py), every path from that
# call to ANY return of Sync::sync passes a call that joins the task.  Unwinding (a panic) is not covered.


def _may_joiners(m, body, p, depth=0, seen=None):
    """blocks of `body` that join the task p directly, or call a function of the crate that contains such a join (whether
    the callee joins on ALL of its paths is not asked: wrappers typically join `if let Some(controller)`, the same condition
    under which the task was started)"""
    import strands as strands_mod

    out = []
    seen = seen if seen is not None else set()
    for b, t in body.calls():
        if body.is_cleanup(b):
            continue
        c = t.get("callee") or ""
        if c == strands_mod.JOIN:
            j = m.join_at.get((body.id, b))
            if j and (j["chan"] & p[1]):
                out.append(b)
        elif c in m.facts.bodies and m.facts.bodies[c].crate == "nomt" and depth < 4 and c not in seen:
            seen.add(c)
            if _may_joiners(m, m.facts.bodies[c], p, depth + 1, seen):
                out.append(b)
            seen.discard(c)
    return out


def d7_no_writer_outlives_sync(rep, ctx):
    m = ctx.model
    R = ctx.R
    n = 0
    short = R.id.split("::", 1)[1]
    cleanup = {b for b in range(R.n) if R.is_cleanup(b)}
    rets = set(R.return_blocks())
    starters = 0
    for ed in m.edges(R):
        if ed.kind not in ("sync", "closure") or not ed.target:
            continue
        pend = set()
        for it in m.summary(ed.target):
            for p in it.pend:
                if p[0] in ("task", "detached"):
                    pend.add(p)
        for p in sorted(pend, key=repr):
            starters += 1
            n += 1
            ds = _may_joiners(m, R, p)
            reach = R.reachable_flags(R.succ(ed.bb), set(ds) | cleanup)
            esc = sorted(reach & rets)
            tname = ed.target.split("::", 1)[1]
            if p[0] == "detached":
                rep.check(False, "D7", short, "detached|%s" % tname, "%s (called at %s) hands work to a thread without a completion handle: it can outlive the sync and the handle" % (tname, ed.ln), site=ed.ln)
                continue
            joins = [R.term(d).get("ln") for d in ds]
            rep.check(bool(ds) and not esc, "D7", short, "joined-on-every-exit|%s" % tname, "the task started by %s (called at %s) is not joined on every path to a return of Sync::sync: an error exit in between (%s) returns to the caller while the task may still be writing - the caller can drop the handle and release the directory lock with a writer alive" % (tname, ed.ln, "no join at all" if not ds else "joined only at %s" % joins), site=ed.ln, detail="task of %s joined at %s on every path to every return" % (tname, joins))
    rep.floor("D7 task-starting calls in Sync::sync", starters, 2)
    return n
