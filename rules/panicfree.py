# E5 panicfree — panic-site inventory of the verifier call graph (C18)
#
# Every MIR panic site reachable from the verifier entry points inside nomt_core must have a
# disposition (rules/panic_sites.py): guarded (machine-checked dominating error-returning guard),
# invariant (who-may-construct check of a private-field type), reviewed (frozen reason), or be a
# listed known finding.  A site without disposition is a violation.  Termination is NOT decided.
import re
from core import trace, roots, CheckBroken
import panic_sites as PS

ENTRY = [
    "nomt_core::proof::path_proof::PathProof::verify",
    "nomt_core::proof::path_proof::verify_update",
    "nomt_core::proof::multi_proof::verify",
    "nomt_core::proof::multi_proof::verify_update",
    "nomt_core::proof::path_proof::VerifiedPathProof::confirm_value",
    "nomt_core::proof::path_proof::VerifiedPathProof::confirm_nonexistence",
    "nomt_core::proof::multi_proof::VerifiedMultiProof::find_index_for",
    "nomt_core::proof::multi_proof::VerifiedMultiProof::confirm_value",
    "nomt_core::proof::multi_proof::VerifiedMultiProof::confirm_nonexistence",
    "nomt_core::proof::multi_proof::VerifiedMultiProof::confirm_value_with_index",
    "nomt_core::proof::multi_proof::VerifiedMultiProof::confirm_nonexistence_with_index",
]
# hasher implementations are opaque and assumed total
OPAQUE_PREFIX = ("nomt_core::hasher::", "<nomt_core::hasher::")

MAY_PANIC_CALLS = re.compile(
    r"("
    r"core::option::Option::(unwrap|expect)$"
    r"|core::result::Result::(unwrap|expect|unwrap_err|expect_err)$"
    r"|core::ops::index::Index(Mut)?<.*::index(_mut)?$"
    r"|::split_at(_mut)?$|::split_at_unchecked$|::copy_from_slice$|::clone_from_slice$|::swap$"
    r"|alloc::vec::Vec::(remove|swap_remove|insert|split_off|drain)$"
    r"|core::panicking::|::unwrap_failed$|::expect_failed$|core::slice::index::"
    r"|::copy_within$|::rotate_(left|right)$|::chunks(_exact)?(_mut)?$|::windows$"
    r"|bitvec::.*::(split_at|swap|copy_from_bitslice|clone_from_bitslice|set|replace)$"
    r"|core::cell::RefCell.*::(borrow|borrow_mut)$"
    r"|::from_utf8_unchecked$"
    r"|alloc::alloc::handle_alloc_error"
    # arithmetic that inherits the caller's overflow checks or panics on a bad argument
    r"|::sum$|::product$|::pow$|::next_power_of_two$|::abs$|::div_ceil$|::div_euclid$|::rem_euclid$|::ilog(2|10)?$|::isqrt$|::clamp$|::step_by$"
    r"|core::ops::arith::(Add|Sub|Mul|Div|Rem|Neg)(Assign)?\b.*::[a-z_]+$|core::ops::bit::(Shl|Shr)(Assign)?\b.*::[a-z_]+$"
    # allocations whose size an input can drive (capacity overflow / allocation failure)
    r"|::with_capacity(_in)?$|alloc::vec::Vec::(reserve|reserve_exact|resize|resize_with|extend_from_within)$|alloc::vec::from_elem$|::repeat$"
    r"|alloc::slice::<impl \[T\]>::(concat|join)$"
    r"|::unwrap_unchecked$|::get_unchecked(_mut)?$|::unreachable_unchecked$"
    r")"
)
# diverging helpers that are not panics
NOT_PANIC_DIVERGING = ("core::hint::unreachable_unchecked",)


def is_opaque(fn):
    return fn.startswith(OPAQUE_PREFIX)


def reachable_set(facts):
    for e in ENTRY:
        facts.body(e)
    seen = {}
    st = [(e, None) for e in ENTRY]
    while st:
        cur, par = st.pop()
        if cur in seen:
            continue
        body = facts.bodies.get(cur)
        if body is None or body.crate != "nomt_core" or is_opaque(cur):
            continue
        seen[cur] = par
        for (b, c, t, kind) in facts.callees(body):
            if kind == "candidate":
                # class-hierarchy fallback only for the repo's own traits (NodeHasher ...); std traits on
                # generic parameters (Iterator::next, FnMut::call_mut) are plumbing whose closures are
                # followed through the closure-creation rule
                tr = t.get("trait") or ""
                if not tr.startswith("nomt_core::"):
                    continue
            if c not in seen:
                st.append((c, cur))
    return seen


KEEP = {"self", "as", "usize", "u8", "u16", "u32", "u64", "isize", "i32", "i64", "unwrap", "unwrap_err", "expect", "len", "pop", "map", "assert_eq"}


def alpha(s):
    """alpha-rename identifiers by order of first occurrence, so that renaming a variable or a field does not
    change a site's key while any change of the expression's structure does"""
    names = {}

    def sub(m):
        w = m.group(0)
        if w in KEEP or w[0].isdigit():
            return w
        if w not in names:
            names[w] = "$%d" % (len(names) + 1)
        return names[w]

    return re.sub(r"[A-Za-z_][A-Za-z0-9_]*", sub, s)


def norm_snip(s):
    """whitespace-normalised, place chains atomised (`self.siblings.len()` -> `self.len()`, `a.0 + b.c` -> `$1 + $2`: turning
    a tuple into a struct or a local into a field does not change the key), identifiers alpha-renamed"""
    s = re.sub(r"\s+", " ", s or "").strip()[:160]
    s = re.sub(r"(?<![.\d])\.(?!\.)(?:[A-Za-z_]\w*|\d+)(?![\w]*\s*[(!])", "", s)
    return alpha(s)


def sites_of(body):
    """list of dict(kind, what, snip, bb, ln)"""
    out = []
    for b in range(body.n):
        if body.is_cleanup(b):
            continue
        t = body.term(b)
        if t["k"] == "assert":
            out.append({"kind": "assert", "what": t["ak"] + (":" + t["aop"] if t["aop"] else ""), "snip": norm_snip(t.get("snip")), "bb": b, "ln": t.get("ln"), "exp": t.get("exp", "")})
        elif t["k"] == "call":
            c = t.get("callee") or "<fnptr>"
            diverges = "t" not in t
            if diverges and c not in NOT_PANIC_DIVERGING:
                out.append({"kind": "diverge", "what": c, "snip": norm_snip(t.get("snip")), "bb": b, "ln": t.get("ln"), "exp": t.get("exp", "")})
            elif MAY_PANIC_CALLS.search(c):
                out.append({"kind": "call", "what": c, "snip": norm_snip(t.get("snip")), "bb": b, "ln": t.get("ln"), "exp": t.get("exp", "")})
    return out


def short_callee(c):
    c = re.sub(r"<[^<>]*>", "", c)
    c = re.sub(r"<[^<>]*>", "", c)
    return c.split("::")[-1] if "::" in c else c


def norm_fn(fn):
    """closure indices are not stable under edits that add/remove another closure: drop them"""
    return re.sub(r"\{closure#\d+\}", "{closure}", fn)


def site_key(fn, s, ordinal):
    fn = norm_fn(fn)
    fnk = fn.split("::", 1)[1] if fn.startswith("nomt_core::") else fn
    w = s["what"]
    if s["kind"] != "assert":
        m = re.search(r"([A-Za-z_]+)(?:<[^>]*>)*>?::([a-z_]+)$", w)
        w = short_callee(w)
    return "%s|%s:%s|%s|#%d" % (fnk, s["kind"], w, s["snip"], ordinal)


def inventory(facts):
    reach = reachable_set(facts)
    inv = []
    counts = {}
    for fn in sorted(reach):
        body = facts.bodies[fn]
        if body.derived:
            continue
        for s in sites_of(body):
            # the ordinal counts sites with the same PRINTED key (short callee name), so that keys are unique
            base = (norm_fn(fn), s["kind"], s["what"] if s["kind"] == "assert" else short_callee(s["what"]), s["snip"])
            counts[base] = counts.get(base, 0) + 1
            s["fn"] = fn
            s["key"] = site_key(fn, s, counts[base])
            inv.append(s)
    return reach, inv


# ---- guarded: the site is dominated by the pass edge of a branch whose other edge returns Err(V) --


def err_variant_blocks(body, variant):
    """blocks that assign _0 = Err(<..>::variant) (directly or through a temp)"""
    out = []
    for b in range(body.n):
        for s in body.stmts(b):
            if s["k"] == "assign" and s["pl"]["l"] == 0 and s["rv"]["k"] == "agg" and s["rv"].get("variant") == "Err":
                for o in s["rv"]["ops"]:
                    for r in trace(body, o):
                        if r.kind == "agg" and str(r.what).endswith("::" + variant):
                            out.append(b)
                    if o["k"] == "const" and variant in o.get("s", ""):
                        out.append(b)
    return out


def guard_switches(body, variant):
    """(switch block, first block of the error edge) pairs: a switch one of whose edges leads, through
    blocks without further branching, to a block returning Err(variant)"""
    res = []
    preds = body.preds()
    for eb in err_variant_blocks(body, variant):
        seen = set()
        st = [eb]
        while st:
            cur = st.pop()
            if cur in seen:
                continue
            seen.add(cur)
            for p in preds[cur]:
                if body.is_cleanup(p):
                    continue
                if body.term(p)["k"] == "switch":
                    res.append((p, cur))
                elif len(body.succ(p)) == 1:
                    st.append(p)
    return res


CMP_OPS = ("Gt", "Ge", "Lt", "Le", "Eq", "Ne")
MINMAX = ("core::cmp::min", "core::cmp::max", "core::cmp::Ord::min", "core::cmp::Ord::max")


def leaves(body, op, depth=0):
    """value leaves of an operand: ("v", key) for plain origins, ("len", key) for the length of a
    container whose origin is key.  Arithmetic, min/max and `as` casts are looked through."""
    out = set()
    if depth > 6:
        return out
    for r in trace(body, op):
        if r.kind == "binop" and r.obj is not None:
            rv = r.obj
            if rv["k"] == "bin":
                out |= leaves(body, rv["a"], depth + 1)
                out |= leaves(body, rv["b"], depth + 1)
            elif rv["k"] == "un":
                if rv.get("op") == "PtrMetadata":
                    for (k, key) in leaves(body, rv["a"], depth + 1):
                        if k == "v":
                            out.add(("len", key))
                else:
                    out |= leaves(body, rv["a"], depth + 1)
        elif r.kind == "call" and (r.what.endswith("::len") or r.what.endswith("::len_utf8")) and r.obj is not None and r.obj["args"]:
            for (k, key) in leaves(body, r.obj["args"][0], depth + 1):
                if k == "v":
                    out.add(("len", key))
        elif r.kind == "call" and (r.what in MINMAX or r.what.endswith("::min") or r.what.endswith("::max")) and r.obj is not None:
            for a in r.obj["args"]:
                out |= leaves(body, a, depth + 1)
        elif r.kind == "via":
            continue
        elif r.kind == "const":
            out.add(("c", str(r.what)))
        elif r.kind == "call" and r.obj is not None and len(r.obj.get("args", [])) == 2 and str(r.what).endswith("::index") and body.op_ty(r.obj["args"][1]).endswith("RangeFull"):
            # `x[..]` is x
            out |= leaves(body, r.obj["args"][0], depth + 1)
        elif r.kind == "call" and _FACTS[0] is not None and str(r.what) in _FACTS[0].bodies and r.obj is not None and r.obj.get("args") and _accessor_fields(str(r.what)) is not None:
            # a pure accessor (`fn path(&self) -> &T { &self.key_path[..] }`): the value is that field of the receiver
            extra = _accessor_fields(str(r.what))
            for (k, key) in leaves(body, r.obj["args"][0], depth + 1):
                if k == "c":
                    continue
                for (k2, f2) in extra:
                    kk = (key[0], key[1], key[2], tuple(key[3]) + tuple(f2) + tuple(r.fields))
                    out.add((k2 if k == "v" else k, kk))
        else:
            out.add(("v", (r.kind, r.bb if r.kind != "param" else -1, str(r.what), r.fields)))
    return out


_FACTS = [None]
_ACC = {}


def _accessor_fields(fn):
    """[(leaf kind, field path)] when every leaf of fn's return value is (a length of) a field path of its first parameter"""
    if fn in _ACC:
        return _ACC[fn]
    _ACC[fn] = None  # recursion guard
    cal = _FACTS[0].bodies[fn]
    res = None
    if cal.crate == "nomt_core" and cal.kind != "Closure" and cal.argc >= 1 and cal.n <= 12:
        ls = leaves(cal, {"k": "copy", "pl": {"l": 0}}, 3)
        if ls and all(k in ("v", "len") and key[0] == "param" and key[2] == "1" and key[3] for (k, key) in ls):
            res = sorted({(k, tuple(key[3])) for (k, key) in ls})
    _ACC[fn] = res
    return res


def guard_comparisons(body, variant):
    """(switch block, error edge, binop rvalue) for guards of `variant` that branch on a comparison"""
    out = []
    for (sw, err_edge) in guard_switches(body, variant):
        t = body.term(sw)
        for r in trace(body, t["d"]):
            if r.kind == "binop" and r.obj is not None and r.obj.get("k") == "bin" and r.obj.get("op") in CMP_OPS:
                out.append((sw, err_edge, r.obj))
    return out


def site_operands(body, s, mode):
    """(bound operand leaves, container leaves) / (a leaves, b leaves) of the panic site at block s['bb']"""
    t = body.term(s["bb"])
    if mode == "sub":
        # the assert's condition derives from a checked subtraction
        for r in trace(body, t["cond"]):
            if r.kind == "binop" and r.obj is not None and r.obj.get("k") == "bin" and "Sub" in r.obj.get("op", ""):
                return leaves(body, r.obj["a"]), leaves(body, r.obj["b"])
        return None
    if t["k"] != "call" or len(t["args"]) < 2:
        return None
    cont = {key for (k, key) in leaves(body, t["args"][0]) if k == "v"}
    bound = None
    idx = t["args"][1]
    if mode == "idx":
        bound = leaves(body, idx)
    else:
        for r in trace(body, idx):
            if r.kind == "agg" and r.obj is not None and "range::Range" in str(r.what):
                fl = r.obj.get("fields", [])
                want = "end" if mode == "end" else "start"
                if want in fl:
                    bound = leaves(body, r.obj["ops"][fl.index(want)])
    if bound is None:
        return None
    return bound, cont


def range_bounds(body, s):
    """(start leaves, end leaves) of a `[a..b]` site"""
    t = body.term(s["bb"])
    if t["k"] != "call" or len(t["args"]) < 2:
        return None
    for r in trace(body, t["args"][1]):
        if r.kind == "agg" and r.obj is not None and "range::Range" in str(r.what):
            fl = r.obj.get("fields", [])
            if "start" in fl and "end" in fl:
                return leaves(body, r.obj["ops"][fl.index("start")]), leaves(body, r.obj["ops"][fl.index("end")])
    return None


def relation_ok(body, s, variant, mode):
    if mode == "range":
        # `x[a..b]` panics when b > len OR a > b: the end is compared with the length and the two bounds with each other
        ok, why = relation_ok(body, s, variant, "end")
        if not ok:
            return ok, why
        sb = range_bounds(body, s)
        if sb is None:
            return False, "cannot identify the two bounds of the range"
        S = {x for x in sb[0] if x[0] == "v"}
        E = {x for x in sb[1] if x[0] == "v"}
        for (sw, err_edge, rv) in guard_comparisons(body, variant):
            if not (sw != s["bb"] and body.dominates(sw, s["bb"]) and s["bb"] not in body.reachable([err_edge])):
                continue
            L = leaves(body, rv["a"])
            R = leaves(body, rv["b"])
            if (L & S and R & E) or (L & E and R & S):
                return True, why + "; guard at bb%d compares the start of the range with its end" % sw
        return False, "no dominating Err(%s) guard compares the start of the range with its end (a reversed range panics)" % variant
    ops = site_operands(body, s, mode)
    if ops is None:
        return False, "cannot identify the %s operand of the site" % mode
    A, B = ops
    for (sw, err_edge, rv) in guard_comparisons(body, variant):
        if not (sw != s["bb"] and body.dominates(sw, s["bb"]) and s["bb"] not in body.reachable([err_edge])):
            continue
        L = leaves(body, rv["a"])
        R = leaves(body, rv["b"])
        if mode == "sub":
            av = {x for x in A if x[0] == "v"}
            bv = {x for x in B if x[0] == "v"}
            if (L & av and R & bv) or (L & bv and R & av):
                return True, "guard at bb%d compares the two operands of the subtraction" % sw
        else:
            bv = {x for x in A if x[0] != "c"}
            lens = {("len", key) for key in B}
            if (L & bv and R & lens) or (R & bv and L & lens):
                return True, "guard at bb%d compares the %s bound with the length of the indexed container" % (sw, mode)
    return False, "no dominating Err(%s) guard compares the %s with %s" % (variant, "minuend and subtrahend" if mode == "sub" else mode + " bound", "each other" if mode == "sub" else "the container's length")


def is_guarded(body, site_bb, variant, facts=None):
    gs = guard_switches(body, variant)
    for (sw, err_edge) in gs:
        if sw != site_bb and body.dominates(sw, site_bb) and site_bb not in body.reachable([err_edge]):
            return True, "dominated by the pass edge of the branch at bb%d whose other edge returns Err(%s)" % (sw, variant)
    if not gs and facts is not None and body.kind == "Closure" and body.parent in facts.bodies:
        # the guard sits in the enclosing function: the closure must be created behind it
        par = facts.bodies[body.parent]
        sites = [b for b in range(par.n) for s in par.stmts(b) if s["k"] == "assign" and s["rv"]["k"] == "agg" and s["rv"].get("ak") == "closure" and s["rv"].get("name") == body.id]
        if sites and all(is_guarded(par, b, variant, facts)[0] for b in sites):
            return True, "the closure is created in %s behind the guard returning Err(%s)" % (par.id, variant)
    return False, "no branch returning Err(%s) dominates the site" % variant


# ---- semantic signatures: what a site computes with, independent of how the expression is spelled ----------


def _nleaf(x):
    (k, key) = x
    if k == "c":
        return ("c", str(key))
    (rk, _bb, what, fields) = key
    w = short_callee(str(what)) if rk in ("call", "agg") else str(what)
    return (k, rk, w, tuple(fields))


def _nleaves(body, op):
    return tuple(sorted({_nleaf(x) for x in leaves(body, op)}, key=repr))


def sig_abs(sig):
    """a signature with parameter positions and the field path below a parameter forgotten: adding `&self`, or wrapping two
    parameters into one struct, renumbers / re-roots them without changing what the site computes from"""
    return re.sub(r"\('(\w)', 'param', '\d+', \([^()]*\)\)", r"('\1', 'param', '*', ())", sig)


def site_sig(body, s):
    """dataflow signature of a panic site: the origins (parameters, fields, calls, constants, lengths) of its operands.
    Hoisting a sub-expression into a `let`, renaming, or turning a tuple into a struct leaves it unchanged."""
    t = body.term(s["bb"])
    try:
        if t["k"] == "assert":
            for r in trace(body, t["cond"]):
                if r.kind == "binop" and r.obj is not None and r.obj.get("k") == "bin":
                    return repr(("assert", t.get("ak"), r.obj.get("op"), _nleaves(body, r.obj["a"]), _nleaves(body, r.obj["b"])))
            return repr(("assert", t.get("ak"), t.get("aop")))
        if t["k"] == "call":
            name = short_callee(t.get("callee") or "")
            args = t.get("args", [])
            parts = []
            for i, a in enumerate(args[:3]):
                rng = None
                for r in trace(body, a):
                    if r.kind == "agg" and r.obj is not None and "range::Range" in str(r.what) and not r.fields:
                        fl = r.obj.get("fields", [])
                        rng = ("range", short_callee(str(r.what)), tuple((f, _nleaves(body, r.obj["ops"][j])) for j, f in enumerate(fl)))
                parts.append(rng if rng is not None else _nleaves(body, a))
            return repr(("call", name, tuple(parts)))
    except Exception as e:  # a signature is an optimisation for matching; never fatal
        return "error:%s" % type(e).__name__
    return "other"


# ---- invariant: who may construct --------------------------------------------------------------


def constructors_ok(facts, adt, allowed, configs_note=""):
    """every aggregate construction of `adt` outside derive expansions lies in `allowed` functions"""
    bad = []
    n = 0
    for body in facts.bodies.values():
        if body.crate != "nomt_core":
            continue
        for b in range(body.n):
            for s in body.stmts(b):
                if s["k"] == "assign" and s["rv"]["k"] == "agg" and s["rv"].get("name") == adt:
                    n += 1
                    if body.derived:
                        tr = body.impl_trait or ""
                        if tr.endswith("::Clone") or tr.endswith("clone::Clone"):
                            continue
                        bad.append((body.id, s.get("ln"), "derive(%s)" % tr))
                        continue
                    root_fn = body.id.split("::{closure")[0]
                    if root_fn not in allowed:
                        bad.append((body.id, s.get("ln"), "hand-written"))
    return n, bad


ORDER_CALLS = {"ge": "ge", "le": "le", "gt": "gt", "lt": "lt"}


def strict_order_guard(body, variant):
    """an Err(variant) guard that rejects exactly when two keys are NOT strictly ordered: the error edge is
    taken when `a >= b` / `a <= b` is true, or when `a < b` / `a > b` is false"""
    found = []
    for (sw, err_edge) in guard_switches(body, variant):
        t = body.term(sw)
        # the switch value that leads to the error edge
        err_vals = [v for (v, tb) in t["vals"] if tb == err_edge]
        if t["else"] == err_edge:
            err_truth = True if [v for (v, tb) in t["vals"]] == ["0"] else None
        elif err_vals:
            err_truth = err_vals[0] != "0"
        else:
            err_truth = None
        for r in trace(body, t["d"]):
            if r.kind == "call":
                m = r.what.rsplit("::", 1)[-1]
                if m in ORDER_CALLS and ("PartialOrd" in r.what or "cmp::" in r.what):
                    strict = (m in ("ge", "le") and err_truth is True) or (m in ("lt", "gt") and err_truth is False)
                    found.append((sw, m, err_truth, strict, r.obj.get("ln") if r.obj else None))
                elif m in ("map_or", "is_some_and", "is_none_or") and "option::Option" in r.what and r.obj is not None and _FACTS[0] is not None:
                    # `prev.map_or(false, |p| p >= key)`: the comparison sits in the closure; with no previous element the
                    # default decides, which must be the accepting value
                    args = r.obj.get("args", [])
                    default = None
                    if m == "map_or" and len(args) >= 2 and args[1].get("k") == "const":
                        default = args[1].get("int") not in (None, "0")
                    elif m == "is_some_and":
                        default = False
                    elif m == "is_none_or":
                        default = True
                    for a in args[1:]:
                        for rr in trace(body, a):
                            if rr.kind == "agg" and rr.obj is not None and rr.obj.get("ak") == "closure":
                                cb = _FACTS[0].bodies.get(rr.obj.get("name"))
                                if cb is None:
                                    continue
                                for x in trace(cb, {"l": 0}):
                                    if x.kind == "call":
                                        m2 = x.what.rsplit("::", 1)[-1]
                                        if m2 in ORDER_CALLS and ("PartialOrd" in x.what or "cmp::" in x.what):
                                            strict = default is not None and default != err_truth and ((m2 in ("ge", "le") and err_truth is True) or (m2 in ("lt", "gt") and err_truth is False))
                                            found.append((sw, m2, err_truth, strict, x.obj.get("ln") if x.obj else None))
            if r.kind == "binop" and r.obj is not None and r.obj.get("op") in ("Ge", "Le", "Gt", "Lt"):
                m = r.obj["op"].lower()
                strict = (m in ("ge", "le") and err_truth is True) or (m in ("lt", "gt") and err_truth is False)
                found.append((sw, m, err_truth, strict, None))
    return found


SIGS_FILE = __import__("os").path.join(__import__("os").path.dirname(__import__("os").path.abspath(__file__)), "panic_site_sigs.json")


KNOWN_FNS_FILE = __import__("os").path.join(__import__("os").path.dirname(__import__("os").path.abspath(__file__)), "panic_known_fns.json")


def load_known_fns():
    import json, os

    if not os.path.exists(KNOWN_FNS_FILE):
        return None
    with open(KNOWN_FNS_FILE) as fh:
        return set(json.load(fh))


def with_new_helpers_inlined(facts):
    """functions of nomt_core reachable from the verifier entry points that the reviewed tree did not have (new helpers a
    refactoring extracted) are spliced into their callers, so that their panic sites and loops are judged where the
    guards are (rules/inline.py).  Returns (facts2, {caller: [inlined helpers]})."""
    import inline

    known = load_known_fns()
    if known is None:
        return facts, {}
    reach = reachable_set(facts)
    # a helper that returns a Result raises errors of its own: its guards are error-returning guards in ITS body and it is
    # judged as a function of its own (its call in the verifier is found by the rules that look for guards in helpers)
    new = {fn for fn in reach if norm_fn(fn) not in {norm_fn(k) for k in known} and fn not in ENTRY and facts.bodies[fn].kind != "Closure" and not facts.bodies[fn].derived and not facts.bodies[fn].local_ty(0).startswith("core::result::Result<")}
    if not new:
        return facts, {}
    callers = {fn for fn in reach if any((t.get("callee") or "") in new for _b, t in facts.bodies[fn].calls())}
    # a new helper calling another new helper: the inner one is inlined into the outer first by the transitive rounds
    return inline.inline_into(facts, callers - new or callers, lambda h: h.id in new)


def load_sigs():
    import json, os

    if not os.path.exists(SIGS_FILE):
        return {}
    with open(SIGS_FILE) as fh:
        return json.load(fh)


def run(facts, rep, cfg="default"):
    _FACTS[0] = facts
    _ACC.clear()
    reach, inv = inventory(facts)
    disp = PS.SITES
    seen_keys = set()
    counts = {"guarded": 0, "reviewed": 0, "invariant": 0, "precondition": 0, "finding": 0, "none": 0}
    inv_checked = {}
    # a site whose exact key is unknown may have MOVED (code extracted into a helper, a function split into phases): it is
    # matched with a listed site of the same kind and expression that no longer exists where it was listed.  Machine-checked
    # dispositions (guarded / invariant / precondition) are re-verified at the new location.
    # sites of one function that print alike (`[$1]` #1..#4) are told apart by their dataflow signature rather than by their
    # order in the source: reordering code inside a function does not shuffle their dispositions
    sigs0 = load_sigs()
    groups = {}
    for s in inv:
        groups.setdefault(s["key"].rsplit("|#", 1)[0], []).append(s)
    for gbase, members in groups.items():
        if len(members) < 2:
            continue
        listed = [k for k in disp if k.rsplit("|#", 1)[0] == gbase and k in sigs0]
        if len(listed) < 2:
            continue
        msig = {id(s): site_sig(facts.bodies[s["fn"]], s) for s in members}
        free_keys = list(listed)
        assign = {}
        for norm in (lambda x: x, sig_abs):
            for s in members:
                if id(s) in assign:
                    continue
                hits = [k for k in free_keys if norm(sigs0[k]) == norm(msig[id(s)])]
                if len(hits) >= 1 and not msig[id(s)].startswith(("error", "other")):
                    # several listed sites may share a signature: keep source order among equals
                    assign[id(s)] = hits[0]
                    free_keys.remove(hits[0])
        rest = [s for s in members if id(s) not in assign]
        unused = sorted(set(k for k in disp if k.rsplit("|#", 1)[0] == gbase) - set(assign.values()), key=lambda k: int(k.rsplit("#", 1)[1]))
        for s, k in zip(rest, unused):
            assign[id(s)] = k
        spare_n = len(unused)
        for i, s in enumerate(rest[spare_n:]):
            assign[id(s)] = gbase + "|#%d" % (1000 + i)  # more sites than listed keys: genuinely new ones
        for s in members:
            s["key"] = assign[id(s)]
    exact = {s["key"] for s in inv}
    def base_of(k):
        parts = k.split("|")
        return "|".join(parts[1:-1])

    def loose(base):
        """the expression with `self` treated like any other name (a free function turned into a method)"""
        kind, _sep, expr = base.partition("|")
        names = {}

        def sub(m):
            w = m.group(0)
            if w != "self" and not w.startswith("$"):
                return w
            if w not in names:
                names[w] = "$%d" % (len(names) + 1)
            return names[w]

        return kind + "|" + re.sub(r"\$\d+|\bself\b", sub, expr)

    spare = {}
    for k in disp:
        if k not in exact:
            spare.setdefault(base_of(k), []).append(k)
    moved = {}
    for s in inv:
        if s["key"] not in disp:
            cands = spare.get(base_of(s["key"]), [])
            if cands:
                moved[s["key"]] = cands.pop(0)
    # ... or may have been RE-SPELLED (a sub-expression hoisted into a `let`, a field turned into a local): it is matched with
    # a listed site of the same function family whose recorded dataflow signature (rules/panic_site_sigs.json, generated from
    # the tree the table was reviewed on) equals the signature computed now.
    sigs = load_sigs()
    taken = set(moved.values())
    by_sig = {}
    for k in disp:
        if k not in exact and k not in taken and k in sigs:
            by_sig.setdefault((k.split("|")[1], sigs[k]), []).append(k)
    for s in inv:
        if s["key"] not in disp and s["key"] not in moved:
            sg = site_sig(facts.bodies[s["fn"]], s)
            cands = by_sig.get((s["key"].split("|")[1], sg), [])
            if cands and not sg.startswith(("error", "other")):
                moved[s["key"]] = cands.pop(0)
    spare_loose = {}
    for ks in spare.values():
        for k in ks:
            spare_loose.setdefault(loose(base_of(k)), []).append(k)
    for s in inv:
        if s["key"] not in disp and s["key"] not in moved:
            cands = [k for k in spare_loose.get(loose(base_of(s["key"])), []) if k not in moved.values()]
            # prefer a listed site of the same function
            cands.sort(key=lambda k: (k.split("|")[0] != s["key"].split("|")[0]))
            if cands:
                moved[s["key"]] = cands[0]
    by_abs = {}
    for (kk, sg), ks in by_sig.items():
        for k in ks:
            by_abs.setdefault((kk, sig_abs(sg)), []).append(k)
    for s in inv:
        if s["key"] not in disp and s["key"] not in moved:
            sg = site_sig(facts.bodies[s["fn"]], s)
            cands = [k for k in by_abs.get((s["key"].split("|")[1], sig_abs(sg)), []) if k not in moved.values()]
            if len(cands) >= 1 and not sg.startswith(("error", "other")):
                moved[s["key"]] = cands[0]
    rep.extra["moved_sites"] = [{"site": k, "listed_as": v} for k, v in sorted(moved.items())][:40]
    for s in inv:
        key = s["key"]
        fn = s["fn"]
        fnk = fn.split("::", 1)[1]
        d = disp.get(key)
        if d is None and key in moved:
            d = disp[moved[key]]
            seen_keys.add(moved[key])
        seen_keys.add(key)
        if d is None:
            counts["none"] += 1
            rep.violation("panicfree", fnk, "site|" + key.split("|", 1)[1], "undisposed panic site reachable from the verifier entry points: %s %s `%s` at %s (reached via %s)" % (s["kind"], s["what"], s["snip"], s["ln"], reach.get(fn)), site=s["ln"])
            continue
        kind = d[0]
        counts[kind] += 1
        if kind == "guarded":
            ok, why = is_guarded(facts.bodies[fn], s["bb"], d[1], facts)
            if not ok and key in moved:
                # the site moved into a helper that is called only behind the guard: judged at the call sites (the operand
                # relation cannot be re-checked across the call and is taken over from the listed site)
                known_ = load_known_fns() or set()
                if norm_fn(fn) not in {norm_fn(k_) for k_ in known_}:
                    cs = [c_ for c_ in facts.callers().get(fn, []) if c_[2] == "call" and c_[0] in reach]
                    if cs and all(is_guarded(facts.bodies[c_[0]], c_[1], d[1], facts)[0] for c_ in cs):
                        rep.ok("panicfree", fnk, "guarded-at-call-sites|" + key.split("|", 1)[1], detail="`%s` in the new helper %s: every call site is behind the %s guard" % (s["snip"], fnk, d[1]))
                        continue
            if ok and len(d) > 2 and d[2]:
                ok, why2 = relation_ok(facts.bodies[fn], s, d[1], d[2])
                why = why + "; " + why2
            rep.check(ok, "panicfree", fnk, "guarded|" + key.split("|", 1)[1], "panic site `%s` at %s is no longer behind its guard (%s): %s" % (s["snip"], s["ln"], d[1], why), site=s["ln"], detail="`%s`: %s" % (s["snip"], why))
        elif kind == "invariant":
            name = d[1]
            if name not in inv_checked:
                spec = PS.INVARIANTS[name]
                n, bad = constructors_ok(facts, spec["adt"], spec["constructors"])
                inv_checked[name] = (n, bad)
                for (bfn, ln, how) in bad:
                    rep.violation("panicfree", bfn.split("::", 1)[1] if "::" in bfn else bfn, "invariant=%s|constructor|%s" % (name, how), "%s is constructed at %s in %s (%s), which is not one of the constructors that establish the invariant `%s` that panic sites rely on" % (spec["adt"], ln, bfn, how, spec["text"]), site=ln)
                for c in spec["constructors"]:
                    if c not in facts.bodies:
                        rep.violation("panicfree", c, "invariant=%s|constructor-missing" % name, "listed constructor %s of %s no longer exists" % (c, spec["adt"]))
                # establishing guards inside constructors
                for (cfn, how) in spec.get("establish", []):
                    b = facts.bodies.get(cfn)
                    ok = False
                    why = "constructor missing"
                    if b is not None:
                        aggs = [(bb, st) for bb in range(b.n) for st in b.stmts(bb) if st["k"] == "assign" and st["rv"]["k"] == "agg" and st["rv"].get("name") == spec["adt"]]
                        if how[0] == "guard":
                            ok = bool(aggs) and all(is_guarded(b, a, how[1], facts)[0] for (a, _s) in aggs)
                            why = "every construction dominated by the guard returning Err(%s)" % how[1]
                        elif how[0] == "guard-or-const0":
                            def const0(st):
                                fl = st["rv"].get("fields", [])
                                if how[2] in fl:
                                    o = st["rv"]["ops"][fl.index(how[2])]
                                    return o["k"] == "const" and o.get("int") == "0"
                                return False
                            ok = bool(aggs) and all(const0(st) or is_guarded(b, a, how[1], facts)[0] for (a, st) in aggs)
                            why = "every construction has %s = 0 or is dominated by the guard returning Err(%s)" % (how[2], how[1])
                        elif how[0] == "assert":
                            fails = [bb for bb, t in b.calls() if "t" not in t and "panick" in (t.get("callee") or "")]
                            sw = set()
                            preds = b.preds()
                            for f_ in fails:
                                for p in preds[f_]:
                                    if b.term(p)["k"] == "switch":
                                        sw.add(p)
                            ok = bool(aggs) and all(any(b.dominates(s_, a) for s_ in sw) for (a, _s) in aggs)
                            why = "every construction dominated by an assert!"
                    rep.check(ok, "panicfree", cfn.split("::", 1)[1], "invariant=%s|established" % name, "constructor %s no longer establishes `%s` (%s)" % (cfn, spec["text"], why), detail="%s: %s" % (cfn, why))
                if "field" in spec:
                    for body2 in facts.bodies.values():
                        if body2.crate != "nomt_core":
                            continue
                        for bb in range(body2.n):
                            for st in body2.stmts(bb):
                                if st["k"] == "assign" and st["pl"].get("p"):
                                    pp = st["pl"]["p"]
                                    oo = st["pl"].get("o", [])
                                    for j, e in enumerate(pp):
                                        if e == "." + spec["field"] and j < len(oo) and oo[j] == spec["adt"]:
                                            okm = body2.id in spec.get("mutators", []) or body2.derived
                                            rep.check(okm, "panicfree", body2.id.split("::", 1)[1] if "::" in body2.id else body2.id, "invariant=%s|field-store" % name, "field %s of %s is assigned at %s in %s, which is not a listed mutator: the invariant `%s` that panic sites rely on is no longer protected" % (spec["field"], spec["adt"], st.get("ln"), body2.id, spec["text"]), site=st.get("ln"), detail="store at %s in listed mutator %s" % (st.get("ln"), body2.id))
            rep.ok("panicfree", fnk, "invariant|" + key.split("|", 1)[1], detail="`%s` safe under invariant `%s` (%d constructions checked)" % (s["snip"], PS.INVARIANTS[name]["text"], inv_checked[name][0]))
        elif kind == "reviewed":
            rep.ok("panicfree", fnk, "reviewed|" + key.split("|", 1)[1], detail=None)
        elif kind == "precondition":
            pname = d[1]
            if pname not in inv_checked:
                spec = PS.PRECONDITIONS[pname]
                inv_checked[pname] = True
                for pf in spec["functions"]:
                    b = facts.bodies.get(pf)
                    if b is None:
                        rep.violation("panicfree", pf, "precondition=%s|function-missing" % pname, "function %s that establishes `%s` no longer exists" % (pf, spec["text"]))
                        continue
                    gs = strict_order_guard(b, spec["variant"])
                    if not any(g[3] for g in gs):
                        # the validation may live in a helper of the verifier (`check_ops(..)?`)
                        seen_h, st_h = set(), [c for (_b, c, _t, k) in facts.callees(b) if k == "call"]
                        depth_h = {c: 1 for c in st_h}
                        while st_h:
                            hc = st_h.pop()
                            hb = facts.bodies.get(hc)
                            if hc in seen_h or hb is None or hb.crate != "nomt_core" or hb.kind == "Closure":
                                continue
                            seen_h.add(hc)
                            gs = gs + strict_order_guard(hb, spec["variant"])
                            if depth_h[hc] < 2:
                                for (_b, c2, _t, k2) in facts.callees(hb):
                                    if k2 == "call" and c2 not in depth_h:
                                        depth_h[c2] = depth_h[hc] + 1
                                        st_h.append(c2)
                    ok = any(g[3] for g in gs)
                    rep.check(ok, "panicfree", pf.split("::", 1)[1], "precondition=%s|established" % pname, "%s no longer rejects (Err(%s)) exactly the operation lists that are not strictly ascending: panic sites in the sub-trie builder rely on `%s` (found comparisons: %s)" % (pf, spec["variant"], spec["text"], [(g[1], g[2]) for g in gs]), site=b.span, detail="Err(%s) taken when %s" % (spec["variant"], [(g[1], g[2]) for g in gs if g[3]]))
            rep.ok("panicfree", fnk, "precondition|" + key.split("|", 1)[1], detail=None)
        elif kind == "finding":
            rep.violation("panicfree", fnk, "site|" + key.split("|", 1)[1], "panic site reachable with prover-controlled values and no guard: `%s` at %s - %s" % (s["snip"], s["ln"], d[1]), site=s["ln"])
    stale = [k for k in disp if k not in seen_keys]
    rep.extra["panic_inventory"] = {
        "entry_points": len(ENTRY),
        "reachable_functions": len(reach),
        "sites": len(inv),
        "by_disposition": counts,
        "stale_dispositions": len(stale),
    }
    rep.extra["stale_disposition_keys"] = stale[:20]
    return reach, inv, counts
