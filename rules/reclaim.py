# E9 reclaim — C19, structural part ("storage is reclaimed and utilisation is reported truthfully")
#
# Decided (necessary conditions in the shape of the code; the page arithmetic itself is not decided):
#  U1  occupancy agreement.  `DB::utilization` reports `Shared.occupied_buckets`; that counter is initialised in `DB::open`
#      from `MetaMap::full_count()` taken AFTER the WAL redo (`recover`) can have run; it is otherwise only changed by
#      fetch_add / fetch_sub of the delta of `DB::prepare_sync`; and in `prepare_sync` every `-= 1` of that delta is paired with
#      a `MetaMap::set_tombstone` of the same loop arm and every `+= 1` with a `MetaMap::set_full` (one dominates the other),
#      and vice versa - a bucket that changes state without the counter following (or the reverse) is a violation.
#  U2  freed pages reach the free list of THEIR file.  (a) where `SyncFinisher::finish` is called, the `freed` argument is the
#      `freed_pages` of a stage whose allocator came from the same `Store::start_sync` call as the finisher; (b) `finish` hands
#      its `freed` parameter to `FreeList::commit`; (c) `commit` hands it to `push_and_encode`; (d) each stage collects both the
#      replaced pages (`deleted`) and the tracker's `extra_freed` into `freed_pages`.
#  U3  reuse before growth.  In `SyncAllocator::allocate` a page number computed from the bump is produced only behind a
#      comparison of the allocation index with the clean free list's length.
from core import trace, xtrace, fields_of, CheckBroken

PREPARE = "nomt::bitbox::DB::prepare_sync"
OPEN = "nomt::bitbox::DB::open"
UTIL = "nomt::bitbox::DB::utilization"
RECOVER = "nomt::bitbox::recover"
SET_FULL = "nomt::bitbox::meta_map::MetaMap::set_full"
SET_TOMB = "nomt::bitbox::meta_map::MetaMap::set_tombstone"
FULL_COUNT = "nomt::bitbox::meta_map::MetaMap::full_count"
COUNTER = ("occupied_buckets", "nomt::bitbox::Shared")
FINISH = "nomt::beatree::allocator::SyncFinisher::finish"
START_SYNC = "nomt::beatree::allocator::Store::start_sync"
FL_COMMIT = "nomt::beatree::allocator::free_list::FreeList::commit"
PUSH_ENCODE = "nomt::beatree::allocator::free_list::FreeList::push_and_encode"
ALLOCATE = "nomt::beatree::allocator::SyncAllocator::allocate"


def short(fn):
    return fn.split("::", 1)[1] if "::" in fn else fn


def _on_counter(body, op):
    return any(r.path and r.path[-1] == COUNTER for r in trace(body, op))


def call_origins(body, op, target, depth=0):
    """blocks of calls to `target` that the value derives from (looking through other calls' arguments)"""
    out = set()
    if depth > 4:
        return out
    for r in trace(body, op, deep=True):
        if r.kind == "call":
            if r.what == target:
                out.add(r.bb)
            elif r.obj is not None:
                for a in r.obj.get("args", []):
                    out |= call_origins(body, a, target, depth + 1)
    return out


def loops_of(body):
    import termination

    return termination.natural_loops(body)


def innermost_loop(body, b):
    best = None
    for (h, blk, lat) in loops_of(body):
        if b in blk and (best is None or len(blk) < len(best[1])):
            best = (h, blk, lat)
    return best


def u1(facts, rep):
    n = 0
    # (i) what is reported
    ut = facts.body(UTIL)
    reported = False
    for b in range(ut.n):
        for s in ut.stmts(b):
            if s["k"] == "assign" and s["rv"]["k"] == "agg" and s["rv"].get("name", "").endswith("HashTableUtilization"):
                fl = s["rv"]["fields"]
                if "occupied" in fl:
                    for r in trace(ut, s["rv"]["ops"][fl.index("occupied")]):
                        if r.kind == "call" and str(r.what).endswith("::load") and r.obj is not None and _on_counter(ut, r.obj["args"][0]):
                            reported = True
    n += 1
    rep.check(reported, "U1", short(UTIL), "reports-counter", "DB::utilization no longer reports the occupied-bucket counter", site=ut.span, detail="occupied: self.shared.occupied_buckets.load(..)")
    # (ii) initialisation: full_count() after a possible recover
    op = facts.body(OPEN)
    inits = []
    for b in range(op.n):
        for s in op.stmts(b):
            if s["k"] == "assign" and s["rv"]["k"] == "agg" and s["rv"].get("name") == "nomt::bitbox::Shared":
                fl = s["rv"]["fields"]
                if COUNTER[0] in fl:
                    inits.append((b, s["rv"]["ops"][fl.index(COUNTER[0])], s.get("ln")))
    n += 1
    if rep.check(len(inits) >= 1, "U1", short(OPEN), "initialises-counter", "DB::open no longer initialises the occupied-bucket counter", site=op.span, detail="Shared { occupied_buckets: .. }"):
        rec = [b for b, t in op.calls() if t.get("callee") == RECOVER]
        for (ib, o, ln) in inits:
            fc = sorted(call_origins(op, o, FULL_COUNT))
            n += 1
            if not rep.check(bool(fc), "U1", short(OPEN), "init=full_count", "the occupied-bucket counter is not initialised from MetaMap::full_count()", site=ln, detail="AtomicUsize::new(meta_map.full_count())"):
                continue
            for rb in rec:
                n += 1
                # the count must not be taken on a path on which recover can still run afterwards
                ok = all(rb not in op.reachable(op.succ(f)) for f in fc)
                rep.check(ok, "U1", short(OPEN), "count-after-recover", "MetaMap::full_count() is taken before the WAL redo (recover) can run: buckets set or cleared by recovery are not counted", site=ln, detail="recover at bb%d cannot run after full_count at bb%s" % (rb, fc))
    # (iii) who changes the counter
    for body in facts.bodies.values():
        if body.crate != "nomt" or "::tests::" in body.id:
            continue
        for b, t in body.calls():
            c = t.get("callee") or ""
            if not c.startswith("core::sync::atomic::") or not t["args"] or not _on_counter(body, t["args"][0]):
                continue
            m = c.rsplit("::", 1)[1]
            if m in ("load", "new", "fmt", "into_inner", "as_ptr"):
                continue
            n += 1
            root = body.id.split("::{closure")[0]
            rep.check(root == PREPARE and m in ("fetch_add", "fetch_sub"), "U1", short(body.id), "counter-writer|" + m, "the occupied-bucket counter is modified with `%s` in %s: only DB::prepare_sync may apply its delta (fetch_add / fetch_sub)" % (m, short(body.id)), site=t.get("ln"), detail="fetch_add / fetch_sub of the sync's delta")
    # (iv) pairing inside prepare_sync
    ps = facts.body(PREPARE)
    deltas = {}
    for b in range(ps.n):
        for s in ps.stmts(b):
            if s["k"] == "assign" and s["rv"]["k"] == "bin" and s["rv"]["op"] in ("AddWithOverflow", "SubWithOverflow", "Add", "Sub"):
                a, c_ = s["rv"]["a"], s["rv"]["b"]
                if a["k"] in ("copy", "move") and not a["pl"].get("p") and ps.local_ty(a["pl"]["l"]) == "isize" and c_["k"] == "const" and c_.get("int") == "1":
                    deltas.setdefault(a["pl"]["l"], []).append((b, "inc" if "Add" in s["rv"]["op"] else "dec", s.get("ln")))
    # the delta local is the one that reaches the fetch_add / fetch_sub
    applied = set()
    for b, t in ps.calls():
        c = t.get("callee") or ""
        if c.startswith("core::sync::atomic::") and c.rsplit("::", 1)[1] in ("fetch_add", "fetch_sub") and t["args"] and _on_counter(ps, t["args"][0]):
            applied.add(b)
    n += 1
    rep.check(len(applied) >= 2, "U1", short(PREPARE), "delta-applied", "prepare_sync no longer applies both signs of its occupancy delta to the counter", site=ps.span, detail="fetch_add and fetch_sub sites: %s" % sorted(applied))
    steps = [x for l in deltas for x in deltas[l]]
    muts = {"dec": [(b, t.get("ln")) for b, t in ps.calls() if t.get("callee") == SET_TOMB], "inc": [(b, t.get("ln")) for b, t in ps.calls() if t.get("callee") == SET_FULL]}
    names = {"dec": "set_tombstone", "inc": "set_full"}

    def paired(b1, b2):
        """control-equivalent within one loop iteration: one dominates the other and, from the first, the end of the
        iteration (latch, loop exit, return) cannot be reached on a success path without passing the second"""
        if b1 == b2:
            return True
        l1, l2 = innermost_loop(ps, b1), innermost_loop(ps, b2)
        if (l1 and l1[0]) != (l2 and l2[0]):
            return False
        if ps.dominates(b1, b2):
            first, second = b1, b2
        elif ps.dominates(b2, b1):
            first, second = b2, b1
        else:
            return False
        rem = set(ps.ok_removed()) | {second}
        reach = ps.reachable([x for x in ps.succ(first) if x not in rem], rem)
        if l1:
            (h, blk, lat) = l1
            ends = set(lat) | {x for x in reach if x not in blk} | {h}
        else:
            ends = set(ps.return_blocks())
        return not (reach & ends)

    for kind in ("dec", "inc"):
        st = [(b, ln) for (b, k, ln) in steps if k == kind]
        n += 1
        rep.check(bool(st) and bool(muts[kind]), "U1", short(PREPARE), "%s-present" % names[kind], "prepare_sync has no `%s 1` of the occupancy delta or no MetaMap::%s call" % ("-=" if kind == "dec" else "+=", names[kind]), site=ps.span, detail="%d step(s), %d call(s)" % (len(st), len(muts[kind])))
        for (b, ln) in st:
            n += 1
            rep.check(any(paired(b, mb) for (mb, _l) in muts[kind]), "U1", short(PREPARE), "step-has-%s" % names[kind], "the occupancy delta is changed at %s without a MetaMap::%s in the same arm: the reported occupancy drifts from the buckets actually marked" % (ln, names[kind]), site=ln, detail="paired with %s" % names[kind])
        for (mb, mln) in muts[kind]:
            n += 1
            rep.check(any(paired(b, mb) for (b, _l) in st), "U1", short(PREPARE), "%s-has-step" % names[kind], "MetaMap::%s at %s changes a bucket's state without the occupancy delta following" % (names[kind], mln), site=mln, detail="paired with the delta step")
    return n


def u2(facts, rep):
    n = 0
    # (a) finish call sites
    sites = [(cid, cb) for (cid, cb, k) in facts.callers().get(FINISH, []) if k == "call" and "::tests::" not in cid and "::test" not in cid.split("::")[-1]]
    n += 1
    rep.check(len(sites) >= 2, "U2", short(FINISH), "call-sites", "SyncFinisher::finish is called from %d place(s); both value files must finish their sync with their freed pages" % len(sites), detail="%d call sites" % len(sites))
    for (cid, cb) in sites:
        body = facts.bodies[cid]
        t = body.term(cb)
        if len(t["args"]) < 3:
            continue
        # the start_sync call the finisher comes from
        fin = {r.bb for r in trace(body, t["args"][0]) if r.kind == "call" and r.what == START_SYNC}
        # the stage whose output field `freed_pages` is passed
        stage = [r for r in trace(body, t["args"][2]) if r.kind == "call" and "freed_pages" in r.fields]
        n += 1
        if not rep.check(bool(fin) and bool(stage), "U2", short(cid), "finish(freed_pages)", "the pages handed to SyncFinisher::finish at %s are not the `freed_pages` of an update stage (or the finisher does not come from Store::start_sync)" % t.get("ln"), site=t.get("ln"), detail="finish(.., <stage>.freed_pages)"):
            continue
        ok = False
        for r in stage:
            st = r.obj
            for a in st["args"]:
                if any(x.kind == "call" and x.what == START_SYNC and x.bb in fin for x in trace(body, a)):
                    ok = True
        n += 1
        rep.check(ok, "U2", short(cid), "same-store", "the freed pages given to the finisher at %s come from a stage that allocated from a DIFFERENT store: pages of one value file would be put on the free list of the other" % t.get("ln"), site=t.get("ln"), detail="stage %s used the allocator of the same start_sync call as the finisher" % short(str(stage[0].what)))
    # (b) finish -> FreeList::commit
    fb = facts.body(FINISH)
    cs = [(b, t) for b, t in fb.calls() if t.get("callee") == FL_COMMIT]
    n += 1
    if rep.check(len(cs) == 1, "U2", short(FINISH), "calls-commit", "SyncFinisher::finish no longer calls FreeList::commit exactly once", site=fb.span, detail="free_list.commit(page_pool, freed, ..)"):
        (b, t) = cs[0]
        n += 1
        rep.check(any(r.kind == "param" and r.what == 3 for a in t["args"] for r in trace(fb, a)), "U2", short(FINISH), "commit(freed)", "FreeList::commit at %s is not given the `freed` pages of finish: released pages are never put on the free list" % t.get("ln"), site=t.get("ln"), detail="commit(.., freed, ..)")
    # (c) commit -> push_and_encode
    cm = facts.body(FL_COMMIT)
    ps_ = [(b, t) for b, t in cm.calls() if t.get("callee") == PUSH_ENCODE]
    n += 1
    if rep.check(len(ps_) >= 1, "U2", short(FL_COMMIT), "calls-push_and_encode", "FreeList::commit no longer encodes the pushed pages", site=cm.span, detail="push_and_encode(page_pool, &to_push, new_pages)"):
        for (b, t) in ps_:
            n += 1
            rep.check(any(r.kind == "param" and r.what == 3 for a in t["args"] for r in trace(cm, a)), "U2", short(FL_COMMIT), "push(to_push)", "push_and_encode at %s is not given the `to_push` pages of commit" % t.get("ln"), site=t.get("ln"), detail="push_and_encode(.., &to_push, ..)")
    # (d) each stage fills freed_pages from `deleted` and from `extra_freed`
    for stage_mod, out_ty in (("nomt::beatree::ops::update::leaf_stage::", "LeafStageOutput"), ("nomt::beatree::ops::update::branch_stage::", "BranchStageOutput")):
        srcs = set()
        sites_n = 0
        for body in facts.bodies.values():
            if not body.id.startswith(stage_mod) or "::tests::" in body.id:
                continue
            for b, t in body.calls():
                c = t.get("callee") or ""
                if not t["args"]:
                    continue
                if not any(r.path and r.path[-1][0] == "freed_pages" for r in trace(body, t["args"][0])):
                    # &mut output.freed_pages handed to a helper (overflow::delete)
                    if any(any(r.path and r.path[-1][0] == "freed_pages" for r in trace(body, a)) for a in t["args"][1:]) and (c.startswith("nomt::")):
                        srcs.add("helper:" + c.rsplit("::", 2)[-2] + "::" + c.rsplit("::", 1)[-1])
                        sites_n += 1
                    continue
                m = c.rsplit("::", 1)[-1]
                if m not in ("push", "extend", "append", "extend_from_slice"):
                    continue
                sites_n += 1
                for a in t["args"][1:]:
                    for r in trace(body, a, deep=True):
                        for f in r.fields:
                            if f in ("deleted", "extra_freed"):
                                srcs.add(f)
                        if r.kind == "call" and r.obj is not None:
                            for a2 in r.obj.get("args", []):
                                for r2 in trace(body, a2):
                                    if "extra_freed" in r2.fields:
                                        srcs.add("extra_freed")
                    # `push(prev_pn)` where prev_pn is the payload of `.deleted`
        n += 1
        rep.check("deleted" in srcs, "U2", short(stage_mod.rstrip(":")), "collects-deleted", "the %s no longer adds the replaced (`deleted`) pages to freed_pages: they would never return to the free list" % out_ty, detail="sources found: %s (%d sites)" % (sorted(srcs), sites_n))
        n += 1
        rep.check("extra_freed" in srcs, "U2", short(stage_mod.rstrip(":")), "collects-extra_freed", "the %s no longer adds the tracker's extra_freed pages to freed_pages" % out_ty, detail="sources found: %s" % sorted(srcs))
    return n


def u3(facts, rep):
    body = facts.body(ALLOCATE)
    n = 0
    PN = "nomt::beatree::allocator::PageNumber"
    fresh = []
    for b in range(body.n):
        for s in body.stmts(b):
            if s["k"] == "assign" and s["rv"]["k"] == "agg" and s["rv"].get("name") == PN:
                if any("bump" in r.fields for o in s["rv"]["ops"] for r in trace(body, o, deep=True)) or any(r.kind == "binop" for o in s["rv"]["ops"] for r in trace(body, o)):
                    fresh.append((b, s.get("ln")))
    n += 1
    if not rep.check(bool(fresh), "U3", short(ALLOCATE), "bump-site", "SyncAllocator::allocate no longer computes a fresh page number from the bump", site=body.span, detail="PageNumber(sync.bump.0 + ..)"):
        return n
    import termination

    gates = []
    for sb in range(body.n):
        t = body.term(sb)
        if t["k"] != "switch":
            continue
        # the branch is decided by the free list's length: a comparison with it, `idx.checked_sub(len)`, ...
        if termination.derives_from(body, t["d"], lambda r: r.kind == "call" and str(r.what).endswith("CleanFreeList::len")):
            gates.append(sb)
    for (b, ln) in fresh:
        n += 1
        rep.check(any(g != b and body.dominates(g, b) for g in gates), "U3", short(ALLOCATE), "free-list-first", "a page number is taken from the bump at %s without a preceding branch on the free list's length: freed pages would not be reused" % ln, site=ln, detail="behind a branch decided by CleanFreeList::len at bb%s" % gates)
    return n


def run(facts, rep):
    return u1(facts, rep), u2(facts, rep), u3(facts, rep)
