# E9 reclaim — C19, structural part ("storage is reclaimed and utilisation is reported truthfully")
#
# Decided (necessary conditions in the shape of the code; the page arithmetic itself is not decided):
#  U1  occupancy agreement.  `DB::utilization` reports `Shared.occupied_buckets`; that counter is initialised in `DB::open`
#      from `MetaMap::full_count()` taken AFTER the WAL redo (`recover`) can have run; it is otherwise only changed by
#      fetch_add / fetch_sub of the delta of `DB::prepare_sync`; and in `prepare_sync` every `-= 1` of that delta is paired with
#      a `MetaMap::set_tombstone` of the same loop arm and every `+= 1` with a `MetaMap::set_full` (one dominates the other),
#      and vice versa - a bucket that changes state without the counter following (or the reverse) is a violation.
#  U2  freed pages reach the free list of THEIR file.  (a) where `SyncFinisher::finish` is called, the `freed` argument is the
#      `freed_pages` of a stage whose allocator came from the same `Store::start_sync` call as the finisher; (b) `finish` hands
#      its `freed` parameter to `FreeList::commit`; (c) `commit` hands it to `push_and_encode`; (d) each stage collects both the
#      replaced pages (`deleted`) and the tracker's `extra_freed` into `freed_pages`.
#  U3  reuse before growth.  In `SyncAllocator::allocate` a page number computed from the bump is produced only behind a
#      comparison of the allocation index with the clean free list's length.
#  U4  overflow pages of a replaced or deleted value are released.  (a) in `LeafUpdater::keep_up_to`, once the lookup of the
#      changed key in the base leaf (`BaseLeaf::find_key`) has produced a result, every path to the return examines its
#      `found` flag; with the flag set every path examines the replaced cell (`BaseLeaf::cell`) for overflow, and with overflow
#      set every path invokes the deleted-overflow callback with that cell - an early return in between leaks the pages
#      (defect F12); (b) `LeafUpdater::ingest` hands its own callback to keep_up_to; (c) the callback the leaf stage passes to
#      `ingest` stores the cell in the vector that becomes `LeafWorkerOutput.overflow_deleted`; (d) that field is drained into
#      `overflow::delete` together with the stage's `freed_pages`; (e) `overflow::delete` extends its `freed` parameter.
from core import trace, xtrace, fields_of, CheckBroken

PREPARE = "nomt::bitbox::DB::prepare_sync"
OPEN = "nomt::bitbox::DB::open"
UTIL = "nomt::bitbox::DB::utilization"
RECOVER = "nomt::bitbox::recover"
SET_FULL = "nomt::bitbox::meta_map::MetaMap::set_full"
SET_TOMB = "nomt::bitbox::meta_map::MetaMap::set_tombstone"
FULL_COUNT = "nomt::bitbox::meta_map::MetaMap::full_count"
COUNTER = ("occupied_buckets", "nomt::bitbox::Shared")
FINISH = "nomt::beatree::allocator::SyncFinisher::finish"
START_SYNC = "nomt::beatree::allocator::Store::start_sync"
FL_COMMIT = "nomt::beatree::allocator::free_list::FreeList::commit"
PUSH_ENCODE = "nomt::beatree::allocator::free_list::FreeList::push_and_encode"
ALLOCATE = "nomt::beatree::allocator::SyncAllocator::allocate"
KEEP = "nomt::beatree::ops::update::leaf_updater::LeafUpdater::keep_up_to"  # today's reporter; found by following the callback, not by name
INGEST = "nomt::beatree::ops::update::leaf_updater::LeafUpdater::ingest"
FIND_KEY = "nomt::beatree::ops::update::leaf_updater::BaseLeaf::find_key"
BASE_LEAF = "nomt::beatree::ops::update::leaf_updater::BaseLeaf::"
LEAF_NODE = "nomt::beatree::leaf::node::LeafNode::"
OVF_DELETE = "nomt::beatree::ops::overflow::delete"
WORKER_OUT = "nomt::beatree::ops::update::leaf_stage::LeafWorkerOutput"


def short(fn):
    return fn.split("::", 1)[1] if "::" in fn else fn


_COUNTER = [COUNTER]


def _on_counter(body, op):
    return any(r.path and _COUNTER[0] in r.path for r in trace(body, op))


def call_origins(body, op, target, depth=0):
    """blocks of calls to `target` that the value derives from (looking through other calls' arguments)"""
    out = set()
    if depth > 4:
        return out
    for r in trace(body, op, deep=True):
        if r.kind == "call":
            if r.what == target:
                out.add(r.bb)
            elif r.obj is not None:
                for a in r.obj.get("args", []):
                    out |= call_origins(body, a, target, depth + 1)
        elif r.kind == "agg" and r.obj is not None:
            # a wrapper type around the counter (`OccupancyCounter(AtomicUsize::new(n))`)
            for a in r.obj.get("ops", []):
                out |= call_origins(body, a, target, depth + 1)
    return out


def loops_of(body):
    import termination

    return termination.natural_loops(body)


def innermost_loop(body, b):
    best = None
    for (h, blk, lat) in loops_of(body):
        if b in blk and (best is None or len(blk) < len(best[1])):
            best = (h, blk, lat)
    return best


def _prepare_region(facts):
    import syncorder

    return syncorder.owned_region(facts, PREPARE)


def u1(facts, rep):
    n = 0
    # (i) what is reported
    ut = facts.body(UTIL)
    reported = False
    # the counter is the field of bitbox `Shared` whose atomic load is reported as `occupied` (today: occupied_buckets)
    _COUNTER[0] = COUNTER
    for b in range(ut.n):
        for s in ut.stmts(b):
            if s["k"] == "assign" and s["rv"]["k"] == "agg" and s["rv"].get("name", "").endswith("HashTableUtilization") and "occupied" in s["rv"]["fields"]:
                for r in trace(ut, s["rv"]["ops"][s["rv"]["fields"].index("occupied")]):
                    if r.kind == "call" and str(r.what).endswith("::load") and r.obj is not None:
                        for x in trace(ut, r.obj["args"][0]):
                            hits = [p_ for p_ in (x.path or ()) if p_[1] == COUNTER[1]]
                            if hits:
                                _COUNTER[0] = hits[-1]
    for b in range(ut.n):
        for s in ut.stmts(b):
            if s["k"] == "assign" and s["rv"]["k"] == "agg" and s["rv"].get("name", "").endswith("HashTableUtilization"):
                fl = s["rv"]["fields"]
                if "occupied" in fl:
                    for r in trace(ut, s["rv"]["ops"][fl.index("occupied")]):
                        if r.kind == "call" and str(r.what).endswith("::load") and r.obj is not None and _on_counter(ut, r.obj["args"][0]):
                            reported = True
    n += 1
    rep.check(reported, "U1", short(UTIL), "reports-counter", "DB::utilization no longer reports the occupied-bucket counter", site=ut.span, detail="occupied: self.shared.occupied_buckets.load(..)")
    # (ii) initialisation: full_count() after a possible recover
    op = facts.body(OPEN)
    inits = []
    for b in range(op.n):
        for s in op.stmts(b):
            if s["k"] == "assign" and s["rv"]["k"] == "agg" and s["rv"].get("name") == "nomt::bitbox::Shared":
                fl = s["rv"]["fields"]
                if _COUNTER[0][0] in fl:
                    inits.append((b, s["rv"]["ops"][fl.index(_COUNTER[0][0])], s.get("ln")))
    n += 1
    if rep.check(len(inits) >= 1, "U1", short(OPEN), "initialises-counter", "DB::open no longer initialises the occupied-bucket counter", site=op.span, detail="Shared { occupied_buckets: .. }"):
        rec = [b for b, t in op.calls() if t.get("callee") == RECOVER]
        for (ib, o, ln) in inits:
            fc = sorted(call_origins(op, o, FULL_COUNT))
            n += 1
            if not rep.check(bool(fc), "U1", short(OPEN), "init=full_count", "the occupied-bucket counter is not initialised from MetaMap::full_count()", site=ln, detail="AtomicUsize::new(meta_map.full_count())"):
                continue
            for rb in rec:
                n += 1
                # the count must not be taken on a path on which recover can still run afterwards
                ok = all(rb not in op.reachable(op.succ(f)) for f in fc)
                rep.check(ok, "U1", short(OPEN), "count-after-recover", "MetaMap::full_count() is taken before the WAL redo (recover) can run: buckets set or cleared by recovery are not counted", site=ln, detail="recover at bb%d cannot run after full_count at bb%s" % (rb, fc))
    # (iii) who changes the counter
    for body in facts.bodies.values():
        if body.crate != "nomt" or "::tests::" in body.id:
            continue
        for b, t in body.calls():
            c = t.get("callee") or ""
            if not c.startswith("core::sync::atomic::") or not t["args"] or not _on_counter(body, t["args"][0]):
                continue
            m = c.rsplit("::", 1)[1]
            if m in ("load", "new", "fmt", "into_inner", "as_ptr"):
                continue
            n += 1
            root = body.id.split("::{closure")[0]
            if root != PREPARE and root in _prepare_region(facts):
                root = PREPARE  # a private phase of prepare_sync (`SyncBatch::finish`)
            rep.check(root == PREPARE and m in ("fetch_add", "fetch_sub"), "U1", short(body.id), "counter-writer|" + m, "the occupied-bucket counter is modified with `%s` in %s: only DB::prepare_sync may apply its delta (fetch_add / fetch_sub)" % (m, short(body.id)), site=t.get("ln"), detail="fetch_add / fetch_sub of the sync's delta")
    # (iv) pairing inside prepare_sync
    ps = facts.body(PREPARE)
    deltas = {}
    for b in range(ps.n):
        for s in ps.stmts(b):
            if s["k"] == "assign" and s["rv"]["k"] == "bin" and s["rv"]["op"] in ("AddWithOverflow", "SubWithOverflow", "Add", "Sub"):
                a, c_ = s["rv"]["a"], s["rv"]["b"]
                if a["k"] in ("copy", "move") and ps.op_ty(a) == "isize" and c_["k"] == "const" and c_.get("int") == "1":
                    deltas.setdefault(a["pl"]["l"], []).append((b, "inc" if "Add" in s["rv"]["op"] else "dec", s.get("ln")))
    # the delta local is the one that reaches the fetch_add / fetch_sub
    applied = set()
    for pb in [ps] + [facts.bodies[x] for x in sorted(_prepare_region(facts)) if facts.bodies[x].kind != "Closure"]:
        for b, t in pb.calls():
            c = t.get("callee") or ""
            if c.startswith("core::sync::atomic::") and c.rsplit("::", 1)[1] in ("fetch_add", "fetch_sub") and t["args"] and _on_counter(pb, t["args"][0]):
                applied.add((pb.id, b))
    n += 1
    rep.check(len(applied) >= 2, "U1", short(PREPARE), "delta-applied", "prepare_sync no longer applies both signs of its occupancy delta to the counter", site=ps.span, detail="fetch_add and fetch_sub sites: %s" % sorted(applied))
    steps = [x for l in deltas for x in deltas[l]]
    muts = {"dec": [(b, t.get("ln")) for b, t in ps.calls() if t.get("callee") == SET_TOMB], "inc": [(b, t.get("ln")) for b, t in ps.calls() if t.get("callee") == SET_FULL]}
    names = {"dec": "set_tombstone", "inc": "set_full"}

    def paired(b1, b2):
        """control-equivalent within one loop iteration: one dominates the other and, from the first, the end of the
        iteration (latch, loop exit, return) cannot be reached on a success path without passing the second"""
        if b1 == b2:
            return True
        l1, l2 = innermost_loop(ps, b1), innermost_loop(ps, b2)
        if (l1 and l1[0]) != (l2 and l2[0]):
            return False
        if ps.dominates(b1, b2):
            first, second = b1, b2
        elif ps.dominates(b2, b1):
            first, second = b2, b1
        else:
            return False
        rem = set(ps.ok_removed()) | {second}
        reach = ps.reachable([x for x in ps.succ(first) if x not in rem], rem)
        if l1:
            (h, blk, lat) = l1
            ends = set(lat) | {x for x in reach if x not in blk} | {h}
        else:
            ends = set(ps.return_blocks())
        return not (reach & ends)

    for kind in ("dec", "inc"):
        st = [(b, ln) for (b, k, ln) in steps if k == kind]
        n += 1
        rep.check(bool(st) and bool(muts[kind]), "U1", short(PREPARE), "%s-present" % names[kind], "prepare_sync has no `%s 1` of the occupancy delta or no MetaMap::%s call" % ("-=" if kind == "dec" else "+=", names[kind]), site=ps.span, detail="%d step(s), %d call(s)" % (len(st), len(muts[kind])))
        for (b, ln) in st:
            n += 1
            rep.check(any(paired(b, mb) for (mb, _l) in muts[kind]), "U1", short(PREPARE), "step-has-%s" % names[kind], "the occupancy delta is changed at %s without a MetaMap::%s in the same arm: the reported occupancy drifts from the buckets actually marked" % (ln, names[kind]), site=ln, detail="paired with %s" % names[kind])
        for (mb, mln) in muts[kind]:
            n += 1
            rep.check(any(paired(b, mb) for (b, _l) in st), "U1", short(PREPARE), "%s-has-step" % names[kind], "MetaMap::%s at %s changes a bucket's state without the occupancy delta following" % (names[kind], mln), site=mln, detail="paired with the delta step")
    return n


def u2(facts, rep):
    n = 0
    # (a) finish call sites
    sites = [(cid, cb) for (cid, cb, k) in facts.callers().get(FINISH, []) if k == "call" and "::tests::" not in cid and "::test" not in cid.split("::")[-1]]
    n += 1
    rep.check(len(sites) >= 2, "U2", short(FINISH), "call-sites", "SyncFinisher::finish is called from %d place(s); both value files must finish their sync with their freed pages" % len(sites), detail="%d call sites" % len(sites))
    for (cid, cb) in sites:
        body = facts.bodies[cid]
        t = body.term(cb)
        if len(t["args"]) < 3:
            continue
        # the start_sync call the finisher comes from
        fin = {r.bb for r in trace(body, t["args"][0]) if r.kind == "call" and r.what == START_SYNC}
        # the stage whose output field `freed_pages` is passed
        stage = [r for r in trace(body, t["args"][2]) if r.kind == "call" and "freed_pages" in r.fields]
        n += 1
        if not rep.check(bool(fin) and bool(stage), "U2", short(cid), "finish(freed_pages)", "the pages handed to SyncFinisher::finish at %s are not the `freed_pages` of an update stage (or the finisher does not come from Store::start_sync)" % t.get("ln"), site=t.get("ln"), detail="finish(.., <stage>.freed_pages)"):
            continue
        ok = False
        for r in stage:
            st = r.obj
            for a in st["args"]:
                if any(x.kind == "call" and x.what == START_SYNC and x.bb in fin for x in trace(body, a)):
                    ok = True
        n += 1
        rep.check(ok, "U2", short(cid), "same-store", "the freed pages given to the finisher at %s come from a stage that allocated from a DIFFERENT store: pages of one value file would be put on the free list of the other" % t.get("ln"), site=t.get("ln"), detail="stage %s used the allocator of the same start_sync call as the finisher" % short(str(stage[0].what)))
    # (b) finish -> FreeList::commit
    fb = facts.body(FINISH)
    cs = [(b, t) for b, t in fb.calls() if t.get("callee") == FL_COMMIT]
    n += 1
    if rep.check(len(cs) == 1, "U2", short(FINISH), "calls-commit", "SyncFinisher::finish no longer calls FreeList::commit exactly once", site=fb.span, detail="free_list.commit(page_pool, freed, ..)"):
        (b, t) = cs[0]
        n += 1
        import termination

        rep.check(any(termination.derives_from(fb, a, lambda r: r.kind == "param" and r.what == 3) for a in t["args"]), "U2", short(FINISH), "commit(freed)", "FreeList::commit at %s is not given the `freed` pages of finish: released pages are never put on the free list" % t.get("ln"), site=t.get("ln"), detail="commit(.., freed, ..)")
    # (c) commit -> push_and_encode
    cm = facts.body(FL_COMMIT)
    ps_ = [(b, t) for b, t in cm.calls() if t.get("callee") == PUSH_ENCODE]
    n += 1
    if rep.check(len(ps_) >= 1, "U2", short(FL_COMMIT), "calls-push_and_encode", "FreeList::commit no longer encodes the pushed pages", site=cm.span, detail="push_and_encode(page_pool, &to_push, new_pages)"):
        for (b, t) in ps_:
            n += 1
            import termination

            rep.check(any(termination.derives_from(cm, a, lambda r: r.kind == "param" and r.what == 3) for a in t["args"]), "U2", short(FL_COMMIT), "push(to_push)", "push_and_encode at %s is not given the `to_push` pages of commit" % t.get("ln"), site=t.get("ln"), detail="push_and_encode(.., &to_push, ..)")
    # (d) each stage fills freed_pages from `deleted` and from `extra_freed`
    for stage_mod, out_ty in (("nomt::beatree::ops::update::leaf_stage::", "LeafStageOutput"), ("nomt::beatree::ops::update::branch_stage::", "BranchStageOutput")):
        srcs = set()
        sites_n = 0
        for body in facts.bodies.values():
            if not body.id.startswith(stage_mod) or "::tests::" in body.id:
                continue
            for b, t in body.calls():
                c = t.get("callee") or ""
                if not t["args"]:
                    continue
                if not any(r.path and r.path[-1][0] == "freed_pages" for r in trace(body, t["args"][0])):
                    # &mut output.freed_pages handed to a helper (overflow::delete)
                    if any(any(r.path and r.path[-1][0] == "freed_pages" for r in trace(body, a)) for a in t["args"][1:]) and (c.startswith("nomt::")):
                        srcs.add("helper:" + c.rsplit("::", 2)[-2] + "::" + c.rsplit("::", 1)[-1])
                        sites_n += 1
                    continue
                m = c.rsplit("::", 1)[-1]
                if m not in ("push", "extend", "append", "extend_from_slice"):
                    continue
                sites_n += 1
                for a in t["args"][1:]:
                    for r in trace(body, a, deep=True):
                        for f in r.fields:
                            if f in ("deleted", "extra_freed"):
                                srcs.add(f)
                        if r.kind == "call" and r.obj is not None:
                            for a2 in r.obj.get("args", []):
                                for r2 in trace(body, a2):
                                    if "extra_freed" in r2.fields:
                                        srcs.add("extra_freed")
                    # `push(prev_pn)` where prev_pn is the payload of `.deleted`
        n += 1
        rep.check("deleted" in srcs, "U2", short(stage_mod.rstrip(":")), "collects-deleted", "the %s no longer adds the replaced (`deleted`) pages to freed_pages: they would never return to the free list" % out_ty, detail="sources found: %s (%d sites)" % (sorted(srcs), sites_n))
        n += 1
        rep.check("extra_freed" in srcs, "U2", short(stage_mod.rstrip(":")), "collects-extra_freed", "the %s no longer adds the tracker's extra_freed pages to freed_pages" % out_ty, detail="sources found: %s" % sorted(srcs))
    return n


CLEAN_LEN = "nomt::beatree::allocator::free_list::CleanFreeList::len"


def u3(facts, rep):
    body = facts.body(ALLOCATE)
    n = 0
    PN = "nomt::beatree::allocator::PageNumber"
    fresh = []
    for b in range(body.n):
        for s in body.stmts(b):
            if s["k"] == "assign" and s["rv"]["k"] == "agg" and s["rv"].get("name") == PN:
                if any("bump" in r.fields for o in s["rv"]["ops"] for r in trace(body, o, deep=True)) or any(r.kind == "binop" for o in s["rv"]["ops"] for r in trace(body, o)):
                    fresh.append((b, s.get("ln")))
    n += 1
    if not rep.check(bool(fresh), "U3", short(ALLOCATE), "bump-site", "SyncAllocator::allocate no longer computes a fresh page number from the bump", site=body.span, detail="PageNumber(sync.bump.0 + ..)"):
        return n
    import termination

    gates = []
    for sb in range(body.n):
        t = body.term(sb)
        if t["k"] != "switch":
            continue
        # the branch is decided by the free list's length: a comparison with it, `idx.checked_sub(len)`, ...
        if termination.derives_from(body, t["d"], lambda r: r.kind == "call" and str(r.what) == CLEAN_LEN):
            gates.append(sb)
    for (b, ln) in fresh:
        n += 1
        rep.check(any(g != b and body.dominates(g, b) for g in gates), "U3", short(ALLOCATE), "free-list-first", "a page number is taken from the bump at %s without a preceding branch on the free list's length: freed pages would not be reused" % ln, site=ln, detail="behind a branch decided by CleanFreeList::len at bb%s" % gates)
    return n


def _cb_params(body):
    return [i for i in range(1, body.argc + 1) if "FnMut(&[u8])" in body.local_ty(i) or "Fn(&[u8])" in body.local_ty(i)]


def _invocations(body, params):
    out = []
    for b, t in body.calls():
        c = t.get("callee") or t.get("orig") or ""
        if c.startswith("core::ops::function::Fn") and t["args"] and any(r.kind == "param" and r.what in params for r in trace(body, t["args"][0])):
            out.append((b, t))
    return out


def _derives(body, op, pred, depth=0):
    """termination.derives_from, also looking through the operands of aggregates (the argument tuple of a closure call)"""
    import termination

    if termination.derives_from(body, op, pred):
        return True
    if depth < 3:
        for r in trace(body, op):
            if r.kind == "agg" and r.obj is not None and any(_derives(body, o, pred, depth + 1) for o in r.obj.get("ops", [])):
                return True
    return False


def _must_pass(body, starts, gates):
    """every path from `starts` to a return passes a block of `gates`; returns the offending return block or None"""
    reach = body.reachable([x for x in starts if x not in gates], set(gates))
    for r in body.return_blocks():
        if r in reach:
            return r
    return None


def _true_targets(t):
    """successors of a bool switch taken when the operand is not 0"""
    out = [x for (v, x) in t["vals"] if str(v) != "0"]
    if t.get("else") is not None:
        out.append(t["else"])
    return out


def u4(facts, rep):
    import termination

    n = 0
    # the function that reports: follow the callback of LeafUpdater::ingest through the functions it is handed to until one
    # invokes it (today: ingest -> keep_up_to)
    ing = facts.body(INGEST)
    chain = [INGEST]
    k, params = ing, set(_cb_params(ing))
    passes_ok = bool(params)
    for _hop in range(4):
        inv = _invocations(k, params)
        if inv or not params:
            break
        nxt = None
        for b, t in k.calls():
            c = t.get("callee") or ""
            hb = facts.bodies.get(c)
            if hb is None or hb.crate != "nomt" or k.is_cleanup(b):
                continue
            idx = [i + 1 for i, a in enumerate(t["args"]) if any(r.kind == "param" and r.what in params for r in trace(k, a))]
            if idx:
                nxt = (hb, set(idx), b)
        if nxt is None:
            passes_ok = False
            break
        # ingest (and every function on the way) always reaches the hand-on
        bad = _must_pass(k, [0], {nxt[2]})
        n += 1
        rep.check(bad is None, "U4", short(k.id), "always-keeps-up-to", "%s can return (bb%s) without handing the changed key and the deleted-overflow callback on" % (short(k.id), bad), site=k.span, detail="every path calls %s" % short(nxt[0].id))
        k, params = nxt[0], nxt[1]
        chain.append(k.id)
    ks = "beatree::ops::update::leaf_updater::LeafUpdater::keep_up_to" if k.id == KEEP else short(k.id)
    inv = _invocations(k, params)
    n += 1
    rep.check(passes_ok, "U4", short(INGEST), "passes-callback", "LeafUpdater::ingest does not hand its deleted-overflow callback to a function that invokes it: replaced overflow cells are dropped", site=ing.span, detail="callback handed along %s" % " -> ".join(short(c) for c in chain))
    n += 1
    if not rep.check(bool(params) and bool(inv), "U4", ks, "reports-deleted-overflow", "the deleted-overflow callback of LeafUpdater::ingest is never invoked: the overflow pages of replaced or deleted values are never released", site=k.span, detail="with_deleted_overflow(val) at %s" % [t.get("ln") for (_b, t) in inv]):
        return n
    invb = {b for (b, _t) in inv}
    lookups = [b for b, t in k.calls() if t.get("callee") == FIND_KEY]
    n += 1
    helper_lookup = False
    if not lookups:
        # the lookup sits in a helper whose result the caller branches on before it reports the cell
        # (`if let Some(replaced) = self.keep_up_to(Some(&key)) { let (val, overflow) = base.cell(replaced); if overflow { cb(val) } }`)
        via = [b for b, t in k.calls() if (t.get("callee") or "") in facts.bodies and any(tt.get("callee") == FIND_KEY for _b, tt in facts.bodies[t["callee"]].calls())]
        for sb in range(k.n):
            tt = k.term(sb)
            if tt["k"] == "switch" and any(r.kind == "call" and r.bb in via for r in trace(k, tt["d"])) and any(k.dominates(sb, ib) for ib in invb):
                helper_lookup = True
        if helper_lookup:
            rep.notes.append("U4: %s reports the replaced cell itself, behind a branch on the result of a helper that looks the key up; the path conditions inside the helper (found / nothing kept) are not decided" % ks)
    if not helper_lookup and not rep.check(bool(lookups), "U4", ks, "looks-up-key", "LeafUpdater::keep_up_to no longer looks the changed key up in the base leaf (BaseLeaf::find_key)", site=k.span, detail="base.find_key(up_to)"):
        return n
    if lookups:

        def from_lookup(r, payload):
            if r.kind != "call" or r.what != FIND_KEY:
                return False
            is_discr = bool(r.path) and r.path[-1][0] == "<discr>"
            return (not is_discr) if payload else is_discr

        found_sw, some_starts = [], []
        for b in range(k.n):
            t = k.term(b)
            if t["k"] != "switch":
                continue
            rs = trace(k, t["d"])
            if any(from_lookup(r, True) for r in rs):
                found_sw.append(b)
            elif any(from_lookup(r, False) for r in rs):
                # the arm(s) in which the lookup produced a result
                some_starts += [x for (v, x) in t["vals"] if str(v) != "0"]
        if not some_starts:
            some_starts = [x for lb in lookups for x in k.succ(lb)]
        n += 1
        if rep.check(bool(found_sw), "U4", ks, "tests-found", "LeafUpdater::keep_up_to never tests whether the changed key was found in the base leaf: a replaced cell's overflow pages cannot be released", site=k.span, detail="`if found` at bb%s" % found_sw):
            bad = _must_pass(k, some_starts, set(found_sw) | invb)
            n += 1
            rep.check(bad is None, "U4", ks, "found-examined-on-every-path", "after BaseLeaf::find_key has located the changed key, keep_up_to can return (bb%s) without examining whether the key was found: when nothing is kept in front of it, the replaced cell's overflow pages are never reported and leak" % bad, site=k.term(lookups[0]).get("ln"), detail="every path from the lookup's result to the return passes the `found` test at bb%s" % found_sw)
        # found => the cell is examined for overflow
        ovf_sw = []
        for b in range(k.n):
            t = k.term(b)
            if t["k"] != "switch" or b in found_sw:
                continue
            if termination.derives_from(k, t["d"], lambda r: r.kind == "call" and (str(r.what).startswith(BASE_LEAF) or str(r.what).startswith(LEAF_NODE)) and r.what != FIND_KEY and any(k.dominates(f, r.bb) for f in found_sw)):
                ovf_sw.append(b)
        n += 1
        if rep.check(bool(ovf_sw), "U4", ks, "tests-overflow", "keep_up_to does not examine the found cell for overflow", site=k.span, detail="`if overflow` at bb%s" % ovf_sw):
            for f in found_sw:
                bad = _must_pass(k, _true_targets(k.term(f)), set(ovf_sw) | invb)
                n += 1
                rep.check(bad is None, "U4", ks, "found-cell-examined", "with the changed key found, keep_up_to can return (bb%s) without examining the replaced cell for overflow" % bad, site=k.term(f).get("ln"), detail="found => overflow test at bb%s" % ovf_sw)
            for o in ovf_sw:
                bad = _must_pass(k, _true_targets(k.term(o)), invb)
                n += 1
                rep.check(bad is None, "U4", ks, "overflow-reported", "keep_up_to can return (bb%s) with an overflow cell found and replaced without invoking the deleted-overflow callback" % bad, site=k.term(o).get("ln"), detail="overflow => callback at bb%s" % sorted(invb))
    n += 1
    with_cell = [t.get("ln") for (b, t) in inv if any(_derives(k, a, lambda r: r.kind == "call" and (str(r.what).startswith(BASE_LEAF) or str(r.what).startswith(LEAF_NODE))) for a in t["args"][1:])]
    rep.check(bool(with_cell), "U4", ks, "callback(cell)", "no invocation of the deleted-overflow callback in keep_up_to is given a cell read from the base leaf", site=inv[0][1].get("ln"), detail="with_deleted_overflow(base.cell(to).0) at %s" % with_cell)
    # (c) the stage's callback stores the cell in what becomes LeafWorkerOutput.overflow_deleted
    sites = [(cid, cb) for (cid, cb, kk) in facts.callers().get(INGEST, []) if kk == "call" and "::tests::" not in cid and "::test" not in cid.split("::")[-1] and "::benches" not in cid]
    n += 1
    rep.check(len(sites) >= 1, "U4", short(INGEST), "stage-call-site", "LeafUpdater::ingest is no longer called by the leaf stage", detail="%d call site(s)" % len(sites))
    for (cid, cb) in sites:
        body = facts.bodies[cid]
        t = body.term(cb)
        clos = [r for a in t["args"][1:] for r in trace(body, a) if r.kind == "agg" and r.obj is not None and r.obj.get("ak") == "closure"]
        n += 1
        if not rep.check(bool(clos), "U4", short(cid), "callback-closure", "the deleted-overflow callback given to LeafUpdater::ingest at %s is not a closure of the stage" % t.get("ln"), site=t.get("ln"), detail="|cell| overflow_deleted.push(cell.to_vec())"):
            continue
        stored = False
        for r in clos:
            cbody = facts.bodies.get(r.obj.get("name"))
            if cbody is None:
                continue
            caps = r.obj.get("fields", [])
            for b2, t2 in cbody.calls():
                m = (t2.get("callee") or "").rsplit("::", 1)[-1]
                if m not in ("push", "extend", "extend_from_slice", "push_back", "insert") or len(t2["args"]) < 2:
                    continue
                into = [x for x in trace(cbody, t2["args"][0]) if x.kind == "upvar"]
                val = any(termination.derives_from(cbody, a, lambda x: x.kind == "param" and x.what == 2) for a in t2["args"][1:])
                if not into or not val:
                    continue
                for x in into:
                    cap = x.what
                    if cap not in caps:
                        continue
                    # the captured vector ends up in LeafWorkerOutput.overflow_deleted
                    src = {(y.kind, y.what, y.bb) for y in trace(body, r.obj["ops"][caps.index(cap)])}
                    for b3 in range(body.n):
                        for s3 in body.stmts(b3):
                            if s3["k"] == "assign" and s3["rv"]["k"] == "agg" and s3["rv"].get("name", "").startswith(WORKER_OUT) and "overflow_deleted" in s3["rv"].get("fields", []):
                                o3 = s3["rv"]["ops"][s3["rv"]["fields"].index("overflow_deleted")]
                                if src & {(y.kind, y.what, y.bb) for y in trace(body, o3)}:
                                    stored = True
        n += 1
        rep.check(stored, "U4", short(cid), "callback-stores-cell", "the deleted-overflow callback given to LeafUpdater::ingest at %s does not store the cell in the vector returned as LeafWorkerOutput.overflow_deleted" % t.get("ln"), site=t.get("ln"), detail="closure pushes its argument into the captured vector that becomes LeafWorkerOutput.overflow_deleted")
    # (d) overflow_deleted -> overflow::delete(.., &mut freed_pages)
    dsites = [(cid, cb) for (cid, cb, kk) in facts.callers().get(OVF_DELETE, []) if kk == "call" and "::tests::" not in cid]
    good = 0
    for (cid, cb) in dsites:
        body = facts.bodies[cid]
        t = body.term(cb)
        a_cell = bool(t["args"]) and termination.derives_from(body, t["args"][0], lambda r: "overflow_deleted" in r.fields)
        a_freed = any("freed_pages" in r.fields for a in t["args"][1:] for r in trace(body, a))
        if a_cell and a_freed:
            good += 1
    n += 1
    rep.check(good >= 1, "U4", short(OVF_DELETE), "drains-overflow_deleted", "no call of overflow::delete is given the cells of LeafWorkerOutput.overflow_deleted together with the stage's freed_pages: the pages of deleted overflow values never reach the free list", detail="%d of %d call site(s)" % (good, len(dsites)))
    # (e) overflow::delete extends `freed`
    od = facts.body(OVF_DELETE)
    ext = [b for b, t in od.calls() if (t.get("callee") or "").rsplit("::", 1)[-1] in ("extend", "push", "extend_from_slice") and t["args"] and any(r.kind == "param" and r.what == 3 for r in trace(od, t["args"][0]))]
    n += 1
    rep.check(len(ext) >= 2, "U4", short(OVF_DELETE), "extends-freed", "overflow::delete no longer adds both the cell's page numbers and the page numbers stored in the overflow pages to `freed`", site=od.span, detail="freed.extend(..) at bb%s" % ext)
    return n


FREE_LIST_TY = "nomt::beatree::allocator::free_list::FreeList"


def u5(facts, rep):
    """U5 the free list's own pages are released.  `FreeList.portions` holds one entry per free-list page (its page number and
    the page numbers stored in it).  Whenever an entry is taken out of `portions` (pop / remove / swap_remove), every path to
    the next iteration or the return either puts an entry back (`portions.push`) or hands a page number to
    `released_portions` (which `commit` adds to the pages pushed onto the new list); bulk removals (truncate / clear / drain /
    retain / split_off) are not allowed.  A portion dropped without that leaves its page neither in use nor free."""
    import termination

    n = 0
    seen = 0

    def on_field(body, op, field):
        return any(r.path and r.path[-1] == (field, FREE_LIST_TY) for r in trace(body, op))

    for body in facts.bodies.values():
        if body.crate != "nomt" or "::tests::" in body.id or body.kind == "Closure" and "::tests::" in body.id:
            continue
        calls = list(body.calls())
        removals = []
        for b, t in calls:
            c = t.get("callee") or ""
            if not c.startswith("alloc::vec::Vec") or not t["args"] or body.is_cleanup(b):
                continue
            m = c.rsplit("::", 1)[-1]
            if m in ("pop", "remove", "swap_remove", "truncate", "clear", "drain", "retain", "split_off", "pop_if", "dedup", "dedup_by_key") and on_field(body, t["args"][0], "portions"):
                removals.append((b, t, m))
        if not removals:
            continue
        short_ = short(body.id)
        gates = set()
        for b, t in calls:
            c = t.get("callee") or ""
            m = c.rsplit("::", 1)[-1]
            if c.startswith("alloc::vec::Vec") and m in ("push", "extend", "insert", "extend_from_slice") and t["args"] and (on_field(body, t["args"][0], "released_portions") or on_field(body, t["args"][0], "portions")):
                gates.add(b)
        loops = termination.natural_loops(body)
        for (b, t, m) in removals:
            seen += 1
            n += 1
            if m not in ("pop", "remove", "swap_remove"):
                rep.check(False, "U5", short_, "portions.%s" % m, "`portions.%s(..)` at %s removes free-list pages in bulk without releasing their page numbers: those pages would be neither in use nor on the free list" % (m, t.get("ln")), site=t.get("ln"))
                continue
            # start on the edge on which an entry was actually removed
            starts = list(body.succ(b))
            for sb in range(body.n):
                tt = body.term(sb)
                if tt["k"] == "switch" and any(r.kind in ("call", "via") and r.bb == b and r.path and r.path[-1][0] == "<discr>" for r in trace(body, tt["d"])) and body.dominates(b, sb):
                    some = [x for (v, x) in tt["vals"] if str(v) == "1"]
                    if some:
                        starts = some
            inner = None
            for (h, blk, lat) in loops:
                if b in blk and (inner is None or len(blk) < len(inner[1])):
                    inner = (h, blk)
            targets = set(body.return_blocks()) | ({inner[0]} if inner else set())
            reach = body.reachable([x for x in starts if x not in gates], gates)
            bad = sorted(reach & targets)
            rep.check(not bad, "U5", short_, "portions.%s=>released-or-put-back" % m, "an entry taken out of FreeList.portions at %s can reach %s without its page number being handed to released_portions (or an entry being put back): the free-list page it described is neither in use nor free afterwards" % (t.get("ln"), "the next iteration / the return (bb%s)" % bad), site=t.get("ln"), detail="portions.%s at %s is followed on every path by released_portions.push / portions.push" % (m, t.get("ln")))
    return n if seen else 0


def run(facts, rep):
    return u1(facts, rep), u2(facts, rep), u3(facts, rep), u4(facts, rep), u5(facts, rep)
