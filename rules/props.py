# property -> rule engines
import core
import guardfx


def p_c12(facts, rep, tier):
    rep.explanation = (
        "C12 (structure): in the four commit entry points and Rollback::commit_nonblocking every refusal/"
        "deferral guard (lock acquired, parent marker, previous-root equality) strictly dominates every effect "
        "(rollback-log append, root/marker store, overlay status flip, Store::commit) in the MIR control-flow graph, "
        "and each guard has an edge from which no effect is reachable. Decides the ordering skeleton for all paths, "
        "hence all competing-changeset histories; does not decide what a successful commit writes."
    )
    n_fn, n_eff, n_guard = guardfx.run(facts, rep, "C12")
    rep.floor("C12 guardfx functions", n_fn, 5)
    rep.floor("C12 guardfx effect sites", n_eff, 20)
    rep.floor("C12 guardfx guards", n_guard, 9)
    rep.assume(
        "effects are exactly the calls/stores of the effect table in rules/guardfx.py (rollback log, root, marker, overlay status, store commit)",
        "path feasibility is ignored (every CFG path is considered executable)",
    )
    rep.trust("rustc MIR (nightly, mir-opt-level=0) of the default-feature linux lib build", "rules/guardfx.py effect and guard tables")


def p_c11(facts, rep, tier):
    rep.explanation = (
        "C11 (refusal clause only): Overlay::commit / try_commit_nonblocking are gated by the parent-marker check, the "
        "lock-acquired check and the previous-root check before any effect, in particular before the overlay's status is "
        "flipped to COMMITTED (which is what lets descendants treat the chain as complete). Behavioural equivalence of "
        "overlays with commits is not decided."
    )
    n_fn, n_eff, n_guard = guardfx.run(facts, rep, "C11")
    rep.floor("C11 guardfx functions", n_fn, 2)
    rep.floor("C11 guardfx effect sites", n_eff, 10)
    rep.floor("C11 guardfx guards", n_guard, 5)
    rep.assume("path feasibility is ignored", "effect table as in rules/guardfx.py")
    rep.trust("rustc MIR (nightly, mir-opt-level=0)", "rules/guardfx.py tables")


def p_c09(facts, rep, tier):
    rep.explanation = (
        "C09 (three clauses): (i) Rollback::truncate compares n with the number of logged deltas before any pop / "
        "pending_truncate store and the refusal edge touches nothing; (ii) Nomt::rollback's early exits precede every effect and "
        "the session it runs has record_rollback_delta=false and take_global_guard=false on all paths; (iii) the log is pruned/"
        "truncated only after the meta switch-over (shared with C03/C17 order rules). Restored values are not decided."
    )
    n_fn, n_eff, n_guard = guardfx.run(facts, rep, "C09")
    guardfx.session_params_const_false(facts, rep)
    rep.floor("C09 guardfx functions", n_fn, 2)
    rep.floor("C09 guardfx guards", n_guard, 4)
    rep.assume("path feasibility is ignored", "effect table as in rules/guardfx.py")
    rep.trust("rustc MIR (nightly, mir-opt-level=0)", "rules/guardfx.py tables")


def p_c14(facts, rep, tier):
    import errflow
    import strands

    rep.explanation = (
        "C14 (structure): error discipline over every call site of crate nomt. R1: no I/O-carrying Result "
        "(io::Error, anyhow::Error, BucketExhaustion) is dropped or thrown away by a discarding consumer; R2: every CompleteIo has "
        "its `.result` checked (or is handed on whole) on every success path; R3: every spawned task's channel has a join_task on the "
        "paired receiver; R4: in the five mutating entry points the failure edge of every fallible repo call at or after an effect "
        "passes a poisoning site (or the callee is proved self-poisoning), and Store::commit refuses when poisoned before starting a sync. "
        "On-disk atomicity after a failure and liveness are not decided."
    )
    st = strands.Strands(facts)
    n1 = errflow.r1_no_dropped_results(facts, rep)
    n2 = errflow.r2_completions_checked(facts, rep)
    n3, nj = errflow.r3_tasks_joined(facts, rep, st)
    n4 = errflow.r4_error_exits_poison(facts, rep)
    n_fn, n_eff, n_guard = guardfx.run(facts, rep, "C14")
    rep.floor("R1 fallible call sites", n1, 450)
    rep.floor("R2 CompleteIo values", n2, 12)
    rep.floor("R3 spawn sites", n3, 10)
    rep.floor("R3 join sites", nj, 11)
    rep.floor("R4 fallible calls at/after an effect", n4, 9)
    rep.floor("poisoned-refusal guard", n_guard, 1)
    rep.extra["positive_controls"] = errflow.positive_controls()
    rep.assume(
        "accepted consumption idioms: `?`, unwrap/expect, match/if-let on the discriminant, return, move into a call/aggregate/field (responsibility transfers)",
        "discarding consumers are exactly rules/errflow.py DISCARDERS",
        "path feasibility is ignored; unwind (cleanup) paths are not analysed",
    )
    rep.trust("rustc MIR (nightly, mir-opt-level=0)", "rules/errflow.py idiom tables", "rules/strands.py channel identity")


PROPS = {
    "C09": p_c09,
    "C11": p_c11,
    "C12": p_c12,
    "C14": p_c14,
}


def run_property(prop, tier, seed):
    rep = core.Report(prop, tier, seed)
    d = core.ensure_facts("default")
    facts = core.Facts(d)
    facts.check_floors()
    PROPS[prop](facts, rep, tier)
    return core.finish(rep)
