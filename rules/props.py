# property -> rule engines
import core
import guardfx


def p_c12(facts, rep, tier):
    rep.explanation = (
        "C12 (structure): in the four commit entry points and Rollback::commit_nonblocking every refusal/"
        "deferral guard (lock acquired, parent marker, previous-root equality) strictly dominates every effect "
        "(rollback-log append, root/marker store, overlay status flip, Store::commit) in the MIR control-flow graph, "
        "and each guard has an edge from which no effect is reachable. Decides the ordering skeleton for all paths, "
        "hence all competing-changeset histories; does not decide what a successful commit writes. H1: in the functions that hand the "
        "changeset back (`self` by value, returning Result<Option<Self>>) no field of `self` is moved out, assigned or mutably borrowed on "
        "a path to a hand-back point unless the moved-out value is put back from the call that consumed it. G2: before the refusal guards the database "
        "handle (the &Nomt parameter and everything obtained through it) is only locked, read, or passed to functions that are pure by summary; no store "
        "goes through a reference obtained from it - whatever the effect table does not list cannot happen before a refusal either."
    )
    n_fn, n_eff, n_guard = guardfx.run(facts, rep, "C12")
    rep.floor("C12 guardfx functions", n_fn, 3)
    rep.floor("C12 guardfx effect sites", n_eff, 12)
    rep.floor("C12 guardfx guards", n_guard, 5)
    import handback

    import preguard

    ng2 = preguard.run(facts, rep, "C12")
    rep.floor("G2 operations on the handle before the guards", ng2, 12)
    n_hf, n_hp = handback.h1(facts, rep)
    rep.floor("H1 hand-back functions", n_hf, 2)
    rep.floor("H1 hand-back points", n_hp, 3)
    if tier != "control":
        import witness

        nw = witness.run(rep, ["c12"])
        rep.floor("C12 witness doctests", nw, 6)
    rep.assume(
        "effects AFTER the last guard of a function are exactly the calls/stores of the effect table in rules/guardfx.py (rollback log, root, marker, overlay status, store commit); before the guards G2 admits only locks, reads and pure functions",
        "path feasibility is ignored (every CFG path is considered executable)",
    )
    rep.trust("rustc MIR (nightly, mir-opt-level=0) of the default-feature linux lib build", "rules/guardfx.py effect and guard tables")


def p_c11(facts, rep, tier):
    rep.explanation = (
        "C11 (refusal clause only): Overlay::commit / try_commit_nonblocking are gated by the parent-marker check, the "
        "lock-acquired check and the previous-root check before any effect, in particular before the overlay's status is "
        "flipped to COMMITTED (which is what lets descendants treat the chain as complete). P1: the chain-completeness guard of "
        "LiveOverlay::new, evaluated over the three-value status domain (the MIR of the predicate, its closure and helpers is interpreted for "
        "LIVE, DROPPED and COMMITTED), refuses exactly the non-COMMITTED parents; P2: the status word is written only by commit (COMMITTED) and "
        "drop (compare_exchange LIVE -> DROPPED). S1: where LiveOverlay::value is consulted, the store is read only on the None edge of a branch "
        "taken directly on the lookup's result (an overlay delete is final). S2: in SeekRequest::continue_leaves_fetch (reconstruction of an elided "
        "subtree under an overlay chain) every stored leaf is copied into the merged result or superseded by an overlay entry - a forward dataflow "
        "tracks the frontier of handled leaves through the slice copies and cursor steps and requires it to be END on every path to reconstruct_pages. "
        "S12: the read methods of LiveOverlay only measure or index `ancestor_data` (an ancestor is picked by the position the index's sequence number gives). "
        "S10: UpdatedPages::into_frozen_iter hands on every updated page (element-preserving iterator adapters only). "
        "S9: in SeekRequest::continue_leaf_fetch every path from the beatree iterator's next() to the completed LeafData passes a call that receives both "
        "the request's overlay_deletions and the item and whose result can send the loop back for the next item (inline and overflow items alike). "
        "Behavioural equivalence of overlays with commits is not decided."
    )
    n_fn, n_eff, n_guard = guardfx.run(facts, rep, "C11")
    import preguard

    preguard.run(facts, rep, "C11")
    rep.floor("C11 guardfx functions", n_fn, 2)
    rep.floor("C11 guardfx effect sites", n_eff, 6)
    rep.floor("C11 guardfx guards", n_guard, 3)
    import statusdom

    np1, np2 = statusdom.run(facts, rep)
    rep.floor("C11 P1 obligations (status guard + truth table)", np1, 1)
    rep.floor("C11 P2 writers of the status word", np2, 2)
    import shadow

    nu, ns = shadow.run(facts, rep)
    rep.floor("S1 functions consulting LiveOverlay::value with a store fall-back", nu, 2)
    shadow.s8(facts, rep)
    shadow.s10(facts, rep)
    shadow.s12(facts, rep)
    shadow.s9(facts, rep)  # undecided shapes are recorded as a note (like S2), the anchor itself is required
    import mergefront

    mergefront.run(facts, rep)
    rep.assume("path feasibility is ignored", "effect table as in rules/guardfx.py")
    rep.trust("rustc MIR (nightly, mir-opt-level=0)", "rules/guardfx.py tables")


def p_c09(facts, rep, tier):
    rep.explanation = (
        "C09 (three clauses): (i) Rollback::truncate compares n with the number of logged deltas before any pop / "
        "pending_truncate store and the refusal edge touches nothing; (ii) Nomt::rollback's early exits precede every effect and "
        "the session it runs has record_rollback_delta=false and take_global_guard=false on all paths; (iii) the log is pruned/"
        "truncated only after the meta switch-over (shared with C03/C17 order rules); (v) S1: the reverse-delta worker (and Session::read) fall back to the store only when the overlay chain has NO entry for the key - an overlay delete is a final answer; "
        "(iv) M1: the in-memory image of the log (InMemory.log) is "
        "mutated only by InMemory's own one-record push_back / pop_back / pop_front, reached only from commit + replay, Rollback::truncate and "
        "writeout_start respectively. (viii) K2: Session::finish hands on a reverse delta whenever the session has a delta builder (variant-preserving Option plumbing only: one delta per commit, also for a commit that wrote nothing); (vii) K1: in Nomt::rollback every success path from Rollback::truncate to the return passes the rollback's own FinishedSession::commit (no Ok short-cut after the truncation); (vi) E1/E2: Delta::encode inspects the variant of every prior (or at least feeds no variant-forgetting combinator into the output) and Delta::decode can build both None and Some priors - the persistent form keeps `absent` and `empty value` apart. Restored values are not decided."
    )
    n_fn, n_eff, n_guard = guardfx.run(facts, rep, "C09")
    import sessionsem

    _n, decided = sessionsem.run(facts, rep, parts=("params",))
    if not decided:
        # the parameters' value could not be evaluated: fall back to the field-level rule
        guardfx.session_params_const_false(facts, rep)
    import syncorder

    ctx = sync_ctx(facts)
    n3 = 0
    before = len(rep.violations)
    n3 = syncorder.o3(ctx, rep)
    syncorder.pending_truncate_consumers(ctx, rep)
    rep.floor("C09 O3 post-meta events", n3, 4)
    import logowner

    nm = logowner.run(facts, rep)
    rep.floor("C09 M1 log-ownership obligations", nm, 6)
    import shadow

    nu, ns = shadow.run(facts, rep)
    rep.floor("S1 functions consulting LiveOverlay::value with a store fall-back", nu, 2)
    import codec

    codec.run(facts, rep)
    guardfx.rollback_commits_after_truncate(facts, rep)
    guardfx.one_delta_per_commit(facts, rep)
    rep.floor("C09 guardfx functions", n_fn, 2)
    rep.floor("C09 guardfx guards", n_guard, 2)
    rep.assume("path feasibility is ignored", "effect table as in rules/guardfx.py")
    rep.trust("rustc MIR (nightly, mir-opt-level=0)", "rules/guardfx.py tables")


def p_c14(facts, rep, tier):
    import errflow
    import strands

    rep.explanation = (
        "C14 (structure): error discipline over every call site of crate nomt. R1: no I/O-carrying Result "
        "(io::Error, anyhow::Error, BucketExhaustion) is dropped or thrown away by a discarding consumer; R2: every CompleteIo has "
        "its `.result` checked (or is handed on whole) on every success path; R3: every spawned task's channel has a join_task on the "
        "paired receiver; R4: in the five mutating entry points the failure edge of every fallible repo call at or after an effect "
        "passes a poisoning site (or the callee is proved self-poisoning), and Store::commit refuses when poisoned before starting a sync; R5: no wait/join is reachable without its request/spawn; R6: the I/O back-end builds an Ok completion only on the arm where the syscall result was classified as success, and the classifier says success only under `res == <expected length>` (enumeration); composed with the back-end, a negative io_uring completion is classified Err (or Retry only on EINTR), never Ok and never Retry unconditionally; R7: every loop on the bucket-allocation path (allocate_bucket and what it calls) is iterator- or counter-driven with an exit on the counter, so running out of buckets ends in the error return; R8: the byte count of every partial write / read is looked at; R9: a libc call that returns the error number (posix_*, pthread_*) is tested against 0 / from_raw_os_error, never judged by the -1 convention of cvt_r. "
        "On-disk atomicity after a failure and liveness are not decided."
    )
    st = strands.Strands(facts)
    n1 = errflow.r1_no_dropped_results(facts, rep)
    n2 = errflow.r2_completions_checked(facts, rep)
    n3, nj = errflow.r3_tasks_joined(facts, rep, st)
    n4 = errflow.r4_error_exits_poison(facts, rep)
    n6 = errflow.r6_completion_source(facts, rep) + errflow.r6b_classifier(facts, rep)
    rep.floor("R6 obligations", n6, 4)
    n6s, n6c = errflow.r6c_backend_feeds_classifier(facts, rep)
    errflow.r8_partial_io_counts(facts, rep)
    errflow.r9_errno_convention(facts, rep)
    import syncorder

    syncorder.o15(sync_ctx(facts), rep)
    rep.floor("R6 back-end call sites of the classifier fed by io_uring", n6s, 1)
    import termination

    n7f, n7 = termination.bounded_region(facts, rep, ["nomt::bitbox::allocate_bucket"], "R7")
    rep.floor("R7 functions on the bucket-allocation path", n7f, 4)
    rep.floor("R7 loops on the bucket-allocation path", n7, 2)
    n_fn, n_eff, n_guard = guardfx.run(facts, rep, "C14")
    import syncorder

    n5 = syncorder.r5(sync_ctx(facts), rep)
    rep.floor("R5 wait/join sites decided", n5, 4)
    rep.floor("R1 fallible call sites", n1, 270)
    rep.floor("R2 CompleteIo values", n2, 7)
    rep.floor("R3 spawn sites", n3, 6)
    rep.floor("R3 join sites", nj, 6)
    rep.floor("R4 fallible calls at/after an effect", n4, 5)
    rep.floor("poisoned-refusal guard", n_guard, 1)
    rep.assume(
        "accepted consumption idioms: `?`, unwrap/expect, match/if-let on the discriminant, return, move into a call/aggregate/field (responsibility transfers)",
        "discarding consumers are exactly rules/errflow.py DISCARDERS",
        "path feasibility is ignored; unwind (cleanup) paths are not analysed",
    )
    rep.trust("rustc MIR (nightly, mir-opt-level=0)", "rules/errflow.py idiom tables", "rules/strands.py channel identity")


def p_c18(facts, rep, tier):
    import panicfree

    rep.explanation = (
        "C18 (site inventory): every MIR panic site (bounds/overflow/div asserts, unwrap/expect, Index impls incl. BitSlice, "
        "diverging calls) in the functions reachable inside nomt_core from the 11 verifier entry points has a disposition: guarded "
        "(machine-checked: dominated by the pass edge of a branch whose other edge returns the named error), invariant (safe under an "
        "invariant of a private-field type whose constructors / field stores are enumerated and checked), or reviewed (frozen reason). "
        "Any new or edited site is a violation. Hasher implementations are opaque and assumed total. Termination (structure): every loop of those functions is "
        "driven by next() on a loop-invariant iterator of finite type whose None arm leaves the loop, or is a listed loop with a frozen argument (T1); "
        "the only recursive cycle (verify_range) passes a strictly larger start_depth on each call under a dominating error-returning bound (T2); "
        "no Iterator method is driven on an iterator of infinite type (T3). The adequacy of guards and reviewed reasons rests on reading."
    )
    facts, inlined = panicfree.with_new_helpers_inlined(facts)
    if inlined:
        rep.extra["inlined_new_helpers"] = {k.split("::", 1)[1]: sorted({x.split("::", 1)[1] for x in v}) for k, v in sorted(inlined.items())}
        rep.notes.append("functions the reviewed tree did not have were spliced into their callers: %s" % rep.extra["inlined_new_helpers"])
    reach, inv, counts = panicfree.run(facts, rep)
    import termination

    n_loops, n_iter, n_rec, n_it = termination.run(facts, rep)
    rep.floor("T1 loops in reachable functions", n_loops, 7)
    rep.floor("T1 iterator-driven loops (machine-checked)", n_iter, 5)
    rep.floor("T2 recursion obligations", n_rec, 5)
    rep.floor("T3 Iterator method calls inspected", n_it, 12)
    rep.floor("verifier entry points", len(panicfree.ENTRY), 11)
    rep.floor("reachable functions", len(reach), 36)
    rep.floor("panic sites", len(inv), 57)
    rep.assume(
        "H: NodeHasher implementations are total and collision resistant (two reviewed sites rest on domain separation of node kinds)",
        "overflow assertions are live in shipped builds (the workspace sets debug-assertions = true in release)",
        "reviewed sites rest on the written reason in rules/panic_sites.py; they are frozen by key (function, kind, expression)",
        "std iterator adapters and collection methods terminate on finite iterators; the reviewed loops rest on the reasons in rules/termination.py",
    )
    rep.trust("rustc MIR (nightly, mir-opt-level=0)", "rules/panic_sites.py dispositions", "may-panic API table in rules/panicfree.py")


def p_c19(facts, rep, tier):
    import reclaim

    rep.explanation = (
        "C19 (structure only): U1 occupancy agreement - DB::utilization reports Shared.occupied_buckets; the counter is initialised in DB::open from "
        "MetaMap::full_count() taken after the WAL redo can have run, is otherwise changed only by fetch_add / fetch_sub of DB::prepare_sync's delta, and in "
        "prepare_sync every -= 1 of the delta is paired with a MetaMap::set_tombstone of the same loop arm and every += 1 with a MetaMap::set_full, and vice versa. "
        "U2 freed pages reach the free list of their own file: SyncFinisher::finish is given the freed_pages of the stage that allocated from the same "
        "Store::start_sync call, hands them to FreeList::commit, which hands them to push_and_encode; each stage collects the replaced (`deleted`) pages and the "
        "tracker's extra_freed. U3 SyncAllocator::allocate takes a page from the bump only behind a comparison of the allocation index with the clean free "
        "list's length. U4 overflow pages of replaced values are released: in LeafUpdater::keep_up_to every path from the lookup of the changed key to the return "
        "examines the `found` flag, with it the replaced cell's overflow flag, and with that invokes the deleted-overflow callback; LeafUpdater::ingest passes the "
        "callback on; the leaf stage's callback stores the cell in LeafWorkerOutput.overflow_deleted, which is drained into overflow::delete with the stage's "
        "freed_pages. U5 the free list's own pages: every entry taken out of FreeList.portions is followed on every path by a push to released_portions or by "
        "putting an entry back; no bulk removal. The page arithmetic (every page below the frontier in use or free, frontier not growing over fill/empty cycles, the count being right) is not decided."
    )
    n1, n2, n3, n4, n5 = reclaim.run(facts, rep)
    rep.floor("U5 removals from FreeList.portions", n5, 1)
    rep.floor("U1 occupancy obligations", n1, 8)
    rep.floor("U2 freed-page flow obligations", n2, 8)
    rep.floor("U3 obligations", n3, 2)
    if not any(v["rule"] == "U4" for v in rep.violations):
        # a broken link of the chain is reported as a violation (and cuts the chain short), never as a floor failure
        rep.floor("U4 overflow-release obligations", n4, 8)
    rep.assume("path feasibility is ignored", "MetaMap::set_full / set_tombstone / full_count do what their names say (bitbox/meta_map.rs is not analysed beyond its call sites)")
    rep.trust("rustc MIR (nightly, mir-opt-level=0)", "rules/reclaim.py anchors")


def p_c20(facts, rep, tier):
    import dirlock

    rep.explanation = (
        "C20 (structure): in Store::open every file-touching call (open/create of meta, ln, bbn, ht, wal; Meta::read/write; component "
        "opens; rollback read) and the Ok return are reachable only through a result-checked Flock::lock or through create, whose own "
        "lock call dominates all its file creations (D1); Flock::lock yields a Flock only on the Ok arm of try_lock_exclusive, which calls "
        "flock with constant flags LOCK_EX|LOCK_NB and is called from nowhere else (D2); the Flock flows into store::Shared.flock and "
        "Drop for Shared joins the I/O pool before releasing it (D3); LOCK_UN only from <Flock as Drop>::drop (D4); Flock is not Clone and "
        "its descriptor is never duplicated (D5); no raw libc call creates a descriptor without O_CLOEXEC (D6: a descriptor inherited by a child would keep the directory locked after the owner died); every task a sync spawns is joined on every path to every return of Sync::sync, error exits included (D7: a failed commit must not hand back control with a writer alive). Kernel flock semantics and the documented creation TOCTOU are not decided."
    )
    ctx = sync_ctx(facts)
    n = dirlock.run(facts, rep, ctx.events, ctx.model)
    n += dirlock.d7_no_writer_outlives_sync(rep, ctx)
    rep.floor("dirlock obligations", n, 18)
    rep.assume("flock(2) with LOCK_EX|LOCK_NB excludes other open file descriptions, across processes", "thread pools other than the io pool are not joined on drop: D7 shows that no task is pending when a sync returns, a panic inside a sync is not covered")
    rep.trust("rustc MIR (nightly, mir-opt-level=0)", "rules/fileclass.py", "libc constant values LOCK_EX=2, LOCK_NB=4, LOCK_UN=8 (linux)")


def p_c08(facts, rep, tier):
    import vguard

    rep.explanation = (
        "C08 (thin, structural): S1 - VerifiedPathProof / VerifiedMultiProof are constructed only inside PathProof::verify / "
        "multi_proof::verify (besides derive(Clone)), behind the `equal` edge of the comparison between the recomputed root (hash_path / "
        "verify_range result) and the `root` parameter; S2 - every Ok returned by the six confirm_* functions is either behind a branch "
        "whose other edge returns KeyOutOfScope or derives from / is dominated by in_scope / find_index_for, and those predicates compare "
        "the key's prefix with the proven path; S3 - every variant of the five error types has a raising site on the corresponding "
        "verifier's path (one frozen exception); S4 - the loops that raise OpOutOfScope / OpsOutOfOrder / PathsOutOfOrder are driven by an iterator over the "
        "whole input collection (no sub-slicing, skip, take, step_by, chunks.. in its provenance; index loops over 0..len or 1..len); S5 - every confirm_value* compares the whole expected leaf (key path and value hash) with the proven terminal; S6 - the root recomputed in PathProof::verify derives from the queried key path; S7 - in both verify_update functions a branch raising OpOutOfScope is decided by an equality / starts_with comparison of the key's leading bits with the proven path (not only by ordering). S11: at every hash_path call the sibling count and the length of the hashed bit range are the same quantity (value-leaf equality). Plus compile-fail witnesses (thorough tier) that a client cannot build a Verified* object. "
        "This decides that acceptance passes through the checks; it does not decide that the comparisons are the right ones nor hashing."
    )
    n1 = vguard.s1(facts, rep)
    n2 = vguard.s2(facts, rep)
    n3 = vguard.s3(facts, rep)
    n4 = vguard.s4(facts, rep)
    rep.floor("S4 guard loops", n4, 4)
    n5 = vguard.s5(facts, rep)
    rep.floor("S5 value confirmations", n5, 3)
    vguard.s7(facts, rep)
    vguard.s11(facts, rep)
    rep.floor("S1 obligations", n1, 4)
    rep.floor("S2 obligations", n2, 8)
    rep.floor("S3 error variants", n3, 9)
    if tier != "control":
        import witness

        nw = witness.run(rep, ["c08"])
        rep.floor("C08 witness doctests", nw, 4)
    rep.assume("collision resistance and domain separation of the hasher", "the comparisons themselves (`<` vs `<=`, which bits) are not validated")
    rep.trust("rustc MIR (nightly, mir-opt-level=0)", "rules/vguard.py tables")


def p_c15(facts, rep, tier):
    import lockgraph
    import strands
    import witness

    rep.explanation = (
        "C15 (structure): L1 - lock classes are the lock-typed fields of crate nomt (aliases through Arc clones unified) plus the pseudo-lock "
        "RT (read transactions: shared = a live ReadTransactionInner, exclusive = block_until_zero); guards are tracked through locals, moves, "
        "holder structs (Session, SharedSyncController, SyncAllocator, PageLoader, rw-pass guards ...) and parameters; the held->acquired "
        "relation, closed over sync calls, sync closures and joined tasks, has no cycle in which every acquisition conflicts with the next "
        "hold, and no same-class nesting outside the reviewed table; L2 - Store::commit and Rollback::{commit,commit_nonblocking,truncate} are "
        "called only with the access write guard held; L3 - take_global_guard=false only in Nomt::rollback under the write guard and "
        "FinishedSession.take_global_guard = access_guard.is_some(); L5 - root check and root store each under Nomt.shared and both under one "
        "access write-guard acquisition; L6 - begin_session takes the access read guard (iff take_global_guard), stores it in the Session and "
        "takes it before anything that opens a read transaction; L7 - block_until_zero precedes take_staged_changeset/update, add_one precedes "
        "the snapshot; L8 - Nomt::read looks the value up under an access guard taken blockingly (or by a try whose refusal leaves before the lookup). Observed values, channel/condvar liveness and fairness are not decided."
    )
    st = strands.Strands(facts)
    lockgraph.resolve_shared_class(facts)
    M, n1, npairs = lockgraph.run(facts, rep, st)
    n2 = lockgraph.l2(facts, rep, M)
    n3 = lockgraph.l3(facts, rep, M)
    n5 = lockgraph.l5(facts, rep, M)
    n6 = lockgraph.l6(facts, rep, M)
    n7 = lockgraph.l7(facts, rep, M)
    lockgraph.l8(facts, rep, M)
    nw = witness.run(rep, ["c15"]) if tier != "control" else 99
    rep.floor("lock classes", len(rep.extra["lock_classes"]), 14)
    rep.floor("acquisition sites", rep.extra["acquisition_sites"], 39)
    rep.floor("held->acquired pairs", npairs, 36)
    rep.floor("L2 mutator call sites", n2, 5)
    rep.floor("L3 obligations", n3, 2)
    rep.floor("L5 obligations", n5, 7)
    rep.floor("L6 obligations", n6, 1)
    rep.floor("L7 obligations", n7, 3)
    rep.floor("C15 witness doctests", nw, 5)
    rep.assume(
        "a lock is identified by the field that stores it (fields initialised from one another are unified); locks in containers are one class",
        "guard lifetimes follow MIR moves/drops; guards reached only through references are attributed to the owner",
        "path feasibility is ignored: a held->acquired pair on an infeasible path can only make the check stricter",
        "tasks spawned while a lock is held run under nothing but what they acquire themselves, unless they are joined under that lock",
    )
    rep.trust("rustc MIR (nightly, mir-opt-level=0)", "rules/lockgraph.py SAME_CLASS_OK / ROLLBACK_COND tables", "parking_lot lock semantics")


_CTX = {}


def sync_ctx(facts):
    import syncorder

    if id(facts) not in _CTX:
        _CTX[id(facts)] = syncorder.Ctx(facts)
    return _CTX[id(facts)]


def _sync_common(rep, ctx):
    rep.extra["file_events"] = len(ctx.events)
    rep.extra["strands"] = {"spawn_sites": len(ctx.st.spawns), "join_sites": len(ctx.st.joins)}
    rep.floor("file events classified", len(ctx.events), 33)
    rep.floor("spawn sites", len(ctx.st.spawns), 6)
    if ctx.unclassified:
        for (fn, prim, ln) in ctx.unclassified:
            rep.violation("fileclass", fn.split("::", 1)[1], "unclassified|%s" % prim, "a file primitive (%s) at %s acts on a descriptor whose file class cannot be derived (fail closed)" % (prim, ln), site=ln)
    rep.assume(
        "a single-page pwrite of the meta page is atomic; sync_all/sync_data make preceding completed writes of that descriptor durable",
        "A-count: where a producer loop is paired with a consumer loop (worker spawns/joins, page-write submissions/drain loops) the trip counts are assumed equal: "
        + "; ".join(ctx.model.assumed_counts),
        "closures passed to non-spawn functions are invoked before the callee returns",
        "path feasibility is ignored except for Ok/Err pruning and constant-only boolean flags (one-bit path sensitivity)",
        "file-class identity of descriptors follows the static provenance (rules/fileclass.py)",
    )
    rep.trust("rustc MIR (nightly, mir-opt-level=0)", "rules/fileclass.py FILE_FIELDS table", "rules/syncmodel.py happens-before model", "unsafe/FFI primitives do what their names say")


def p_c03(facts, rep, tier):
    import syncorder

    rep.explanation = (
        "C03 (ordering skeleton): over the MIR call/spawn structure of Sync::sync, every write/resize of wal, ln and bbn that can start "
        "before Meta::write is complete (synchronous, or its task joined / its page writes drained with results checked) when Meta::write "
        "starts (O1); hash-table writes, WAL truncation, rollback-log unlink/truncation and the index swap can start only after Meta::write "
        "returned Ok (O3); Meta::write is one page write at offset 0 followed by a checked fsync, called only from Sync::sync and create (O4); "
        "WAL redo in recover is confined to the branch where the WAL's sequence number equals the meta page's, which derives from Meta::read (O7); "
        "the WAL is tagged with the very value stored in the meta page and the in-memory counter advances only after the swap (O8); in the sync writer and in the WAL redo every mutation of the occupancy map is followed on every path by queueing that map page for writeout (O12); every change the post-meta hash-table writeout will make is first recorded in this sync's WAL blob: set_tombstone is paired with a Clear entry and set_full / a queued data page with an Update entry for the same bucket, between reset(sync_seqn) and finalize() (O13); the redo loop of recover dispatches on the entry kind and no arm reaches the next iteration without re-applying its entry - Clear through set_tombstone, Update through a write of the hash-table file (O14); in the post-meta phase the WAL is truncated only after the result of the hash-table writeout has been checked (O15); the condition for re-marking a bucket in the redo looks at the page identity (O16); every field of the Update entry is applied to the page buffer on every path to the page write (O18). "
        "Decides the before/after-the-barrier structure for all histories and crash points; data-level recovery correctness is not decided."
    )
    ctx = sync_ctx(facts)
    n1 = syncorder.o1_o2(ctx, rep, "O1")
    n3 = syncorder.o3(ctx, rep)
    syncorder.o4(ctx, rep)
    n7 = syncorder.o7(ctx, rep)
    syncorder.o8(ctx, rep)
    syncorder.o12(ctx, rep)
    syncorder.o13(ctx, rep)
    syncorder.o14(ctx, rep)
    syncorder.o15(ctx, rep)
    syncorder.o16(ctx, rep)
    syncorder.o18(ctx, rep)
    # the old state survives a crash before the switch-over only if no page it references is rewritten: the copy-on-write
    # rules of C17 that are about WHICH pages are written are part of C03 as well
    syncorder.w2(ctx, rep)
    syncorder.w2_freelist(ctx, rep)
    syncorder.w5(ctx, rep)
    rep.floor("O1 pre-meta write/resize events", n1, 4)
    rep.floor("O3 post-meta events", n3, 4)
    _sync_common(rep, ctx)


def p_c04(facts, rep, tier):
    import syncorder

    rep.explanation = (
        "C04 (fsync obligations): for wal, ln and bbn every write/resize that can precede Meta::write is complete before a result-checked fsync of "
        "that file starts, and that fsync lies on every success path to Meta::write (O2); Meta::write syncs the meta page (O4) and everything destructive (hash-table writeout, WAL truncation, rollback-log pruning) starts only after it returned Ok (O3); hash-table page "
        "writes are drained and the file fsynced before the WAL is truncated, in post_meta (O5) and in recovery (O6); a rollback record is "
        "written and fsynced, and a newly created segment followed by a directory fsync, before commit returns Ok (O9); pruning orders unlink -> "
        "dir fsync -> head truncation -> fsync (O10); store creation syncs every file and the directory (O11); a WAL blob is only written into an empty WAL file - a truncation to 0 dominates the write, or post_meta and the redo always leave the file empty (O17); ln / bbn / free-list page writers take page numbers from the allocator only and the allocator from the old free list or beyond the old bump (W2, W6: no page of the previous state is rewritten before the switch-over). Removing any of these fsyncs makes "
        "an obligation underivable. Device semantics and drain-count arithmetic are assumed."
    )
    ctx = sync_ctx(facts)
    n2 = syncorder.o1_o2(ctx, rep, "O2")
    syncorder.o4(ctx, rep)
    n56 = syncorder.o5_o6(ctx, rep)
    n9 = syncorder.o9(ctx, rep)
    n10 = syncorder.o10(ctx, rep)
    n11 = syncorder.o11(ctx, rep)
    # "nothing the old state depends on is discarded before the switch-over is durable": the destructive post-meta operations
    # (hash-table writeout, WAL truncation, rollback-log unlink / truncation) start only after Meta::write - which fsyncs
    # (O4) - has returned Ok
    syncorder.o3(ctx, rep)
    rep.floor("O2 pre-meta writes", n2, 4)
    rep.floor("O5/O6 truncate_wal barriers examined", n56, 3)
    rep.floor("O17 WAL writes examined", syncorder.o17(ctx, rep), 1)
    # "nothing the old state depends on is modified before the switch-over is durable": the copy-on-write half (shared with C17)
    syncorder.w2(ctx, rep)
    syncorder.w2_freelist(ctx, rep)
    syncorder.w6(ctx, rep)
    rep.floor("O9 rollback append obligations", n9, 3)
    rep.floor("O11 create obligations", n11, 4)
    _sync_common(rep, ctx)


def p_c17(facts, rep, tier):
    import syncorder

    rep.explanation = (
        "C17 (write discipline): every mutating file primitive (write, resize, unlink, create, open with create/truncate) sits in a function "
        "allowed for its file class (W1); inside the ln/bbn page writers a page number can only originate from SyncAllocator::allocate - no "
        "page-number reads from parameters/captures, constructions, casts or other repo calls returning page numbers (W2); free-list mutators are "
        "callable only from SyncFinisher::finish and allocate uses the clean free list only (W3); rollback segments are opened append-only (W4); the value files are resized at one site only, the growth helper (W5); "
        "hash-table writes, WAL truncation and log pruning start only post-meta (O3), and the meta write itself is followed by its fsync before it returns (O4: post-meta means post-durable). W6: SyncAllocator::allocate hands out only results of CleanFreeList::get_nth_pop or page numbers computed from the previous bump. That get_nth_pop's numbers are free in the previous image "
        "(free-list arithmetic) is not decided."
    )
    ctx = sync_ctx(facts)
    n1 = syncorder.w1(ctx, rep)
    n2 = syncorder.w2(ctx, rep)
    n2 += syncorder.w2_freelist(ctx, rep)
    n3 = syncorder.w3(ctx, rep)
    rep.floor("W6 sources of allocated page numbers", syncorder.w6(ctx, rep), 2)
    n4 = syncorder.w4(ctx, rep)
    syncorder.w5(ctx, rep)
    n5 = syncorder.o3(ctx, rep)
    syncorder.o4(ctx, rep)
    rep.floor("W1 mutating primitive sites", n1, 21)
    rep.floor("O3 post-meta events", n5, 4)
    _sync_common(rep, ctx)


PROPS = {
    "C03": p_c03,
    "C04": p_c04,
    "C08": p_c08,
    "C09": p_c09,
    "C11": p_c11,
    "C12": p_c12,
    "C14": p_c14,
    "C15": p_c15,
    "C17": p_c17,
    "C18": p_c18,
    "C19": p_c19,
    "C20": p_c20,
}


def run_property(prop, tier, seed):
    import controls

    rep = core.Report(prop, tier, seed)
    d = core.ensure_facts("default")
    facts = core.Facts(d)
    facts.check_floors()
    if facts.alias_map:
        rep.extra["anchor_aliases"] = facts.alias_map
        for kind in ("types", "functions"):
            for new, canon in sorted(facts.alias_map.get(kind, {}).items()):
                print("note: %s is analysed as the renamed / moved %s (rules/aliases.py)" % (new, canon))
    if getattr(facts, "inlined", None):
        rep.extra["inlined_new_helpers"] = {k: sorted(set(v)) for k, v in sorted(facts.inlined.items())}
        print("note: functions the reviewed tree did not have were spliced into their callers (rules/inline.py): %s" % ", ".join(sorted({x for v in facts.inlined.values() for x in v})))
    PROPS[prop](facts, rep, tier)

    def runner(f2, r2, t2):
        r2.is_control = True
        PROPS[prop](f2, r2, "control")

    if rep.violations:
        # the tree itself is in violation: the controls (which mutate today's facts and expect the rule to
        # start firing) are not meaningful and must not turn a violation report into a broken check
        rep.extra["positive_controls"] = {"status": "not run: the tree already violates the property"}
    else:
        rep.extra["positive_controls"] = controls.run_for(prop, facts, runner)
    cfgs = ["default"]
    if tier == "thorough":
        import thorough

        cfgs += thorough.run(prop, rep, seed)
    return core.finish(rep, cfgs)
