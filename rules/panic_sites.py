# Dispositions of the MIR panic sites reachable from the verifier entry points (C18).
# key = "<function>|<kind>:<what>|<normalised source snippet>|#<ordinal among identical>"  (no line numbers)
#   ("guarded", V[, rel]) machine-checked on every run: the site is dominated by the pass edge of a branch
#                     whose other edge returns Err(..::V); with rel, that branch must moreover compare the
#                     very operands the site can panic on: "end"/"start"/"idx" = the slice's end / start bound
#                     or the index against the LENGTH OF THE INDEXED CONTAINER, "sub" = the two operands of the
#                     subtraction against each other (arithmetic, casts and min/max are looked through).
#   ("invariant", I)  safe under invariant I of a private-field type; who-may-construct is machine-checked.
#   ("precondition", P, why) like reviewed, but the reason rests on precondition P (PRECONDITIONS), which is a guard
#                     in every caller and is machine-checked there (variant + relation).
#   ("reviewed", why) frozen reason.  Editing the expression changes the key and forces re-triage.
# A reachable site that is not listed is a VIOLATION.

MP = "proof::multi_proof::"
PP = "proof::path_proof::"

INVARIANTS = {
    "vmp_depth": {
        "adt": "nomt_core::proof::multi_proof::VerifiedMultiPath",
        "text": "VerifiedMultiPath.depth <= terminal.path().len() (<= 256)",
        "constructors": ["nomt_core::proof::multi_proof::verify_range"],
        "establish": [("nomt_core::proof::multi_proof::verify_range", ("guard-or-const0", "MalformedProof", "depth"))],
    },
    "vmp_consistent": {
        "adt": "nomt_core::proof::multi_proof::VerifiedMultiProof",
        "text": "inner / bisections / sibling ranges of a VerifiedMultiProof were produced together by verify_range over the same sibling vector, which was consumed exactly (TooManySiblings)",
        "constructors": ["nomt_core::proof::multi_proof::verify"],
        "establish": [("nomt_core::proof::multi_proof::verify", ("guard", "TooManySiblings"))],
    },
    "vpp_keylen": {
        "adt": "nomt_core::proof::path_proof::VerifiedPathProof",
        "text": "VerifiedPathProof.key_path.len() == siblings.len() <= 256",
        "constructors": ["nomt_core::proof::path_proof::PathProof::verify"],
        "establish": [("nomt_core::proof::path_proof::PathProof::verify", ("guard", "TooManySiblings"))],
    },
    "triepos_depth": {
        "adt": "nomt_core::trie_pos::TriePosition",
        "text": "TriePosition.depth <= 256",
        "constructors": ["nomt_core::trie_pos::TriePosition::new", "nomt_core::trie_pos::TriePosition::from_path_and_depth"],
        "establish": [("nomt_core::trie_pos::TriePosition::from_path_and_depth", ("assert",))],
        # functions allowed to store into the field (each asserts or only decreases)
        "field": "depth",
        "mutators": ["nomt_core::trie_pos::TriePosition::down", "nomt_core::trie_pos::TriePosition::up"],  # down asserts depth != 256 before incrementing; up only decreases
    },
}

# preconditions that reviewed sites of a callee rest on and that ARE a guard in every caller: machine-checked
PRECONDITIONS = {
    "ops_strictly_ascending": {
        "text": "the operation list handed to leaf_ops_spliced / build_trie is strictly ascending by key (no duplicates)",
        "variant": "OpsOutOfOrder",
        "functions": ["nomt_core::proof::path_proof::verify_update", "nomt_core::proof::multi_proof::verify_update"],
        "relation": "strict-order",
    },
}

BOUNDED_SIB = "sibling offsets are bounded by the number of siblings held in memory (a Vec length), far below usize::MAX"
VMPC = "vmp_consistent"

SITES = {
    'proof::multi_proof::CommonSiblings::advance|call:index|[self]|#1': ('invariant', 'vmp_consistent'),
    'proof::multi_proof::CommonSiblings::advance|call:index|[self]|#2': ('invariant', 'vmp_consistent'),
    'proof::multi_proof::CommonSiblings::advance|assert:Overflow:Add|self += 1|#1': ('reviewed', 'counts bisections of the proof'),
    'proof::multi_proof::CommonSiblings::advance|diverge:assert_failed|assert_eq!($1, self)|#1': ('invariant', 'vmp_consistent'),
    'proof::multi_proof::CommonSiblings::advance|assert:Overflow:Add|$1 + 1|#1': ('reviewed', 'start_depth <= 256'),
    'proof::multi_proof::CommonSiblings::advance|assert:Overflow:Sub|$1 - $1|#1': ('invariant', 'vmp_consistent'),
    'proof::multi_proof::CommonSiblings::advance|assert:Overflow:Sub|$1 - $2|#1': ('invariant', 'vmp_consistent'),
    'proof::multi_proof::CommonSiblings::advance|assert:Overflow:Add|$1 - $2 + 1|#1': ('reviewed', 'depth <= 256'),
    'proof::multi_proof::CommonSiblings::advance|assert:Overflow:Add|self += 1|#2': ('reviewed', 'counts terminals of the proof'),
    'proof::multi_proof::CommonSiblings::extend|call:index|[self..$1]|#1': ('invariant', 'vmp_consistent'),
    'proof::multi_proof::CommonSiblings::extend|assert:Overflow:Add|$1 + $2|#1': ('reviewed', 'depth + sibling count, both small'),
    'proof::multi_proof::VerifiedMultiProof::confirm_nonexistence_inner|call:index|[$1]|#1': ('reviewed', 'private; reached with an index returned by find_index_for (a binary-search hit) or after the bounds-checked access of the *_with_index caller'),
    'proof::multi_proof::VerifiedMultiProof::confirm_nonexistence_with_index|call:index|[$1]|#1': ('reviewed', 'documented caller contract (`# Panics`): the index is chosen by the verifying application (normally the result of find_index_for), never by the prover'),
    'proof::multi_proof::VerifiedMultiProof::confirm_nonexistence_with_index|call:index|[..$1]|#1': ('invariant', 'vmp_depth'),
    'proof::multi_proof::VerifiedMultiProof::confirm_nonexistence_with_index|call:index|[..$1]|#2': ('invariant', 'vmp_depth'),
    'proof::multi_proof::VerifiedMultiProof::confirm_value_inner|call:index|[$1]|#1': ('reviewed', 'private; reached with an index returned by find_index_for or after the bounds-checked access of the *_with_index caller'),
    'proof::multi_proof::VerifiedMultiProof::confirm_value_with_index|call:index|[$1]|#1': ('reviewed', 'documented caller contract (`# Panics`): the index is chosen by the verifying application, never by the prover'),
    'proof::multi_proof::VerifiedMultiProof::confirm_value_with_index|call:index|[..$1]|#1': ('invariant', 'vmp_depth'),
    'proof::multi_proof::VerifiedMultiProof::confirm_value_with_index|call:index|[..$1]|#2': ('invariant', 'vmp_depth'),
    'proof::multi_proof::VerifiedMultiProof::find_index_for::{closure}|call:index|[..$1]|#1': ('invariant', 'vmp_depth'),
    'proof::multi_proof::VerifiedMultiProof::find_index_for::{closure}|call:index|[..$1]|#2': ('invariant', 'vmp_depth'),
    'proof::multi_proof::hash_and_compact_terminal|assert:Overflow:Add|($1 + 1)|#1': ('reviewed', 'n <= 256'),
    'proof::multi_proof::hash_and_compact_terminal|assert:Overflow:Sub|$1 - ($2 + 1)|#1': ('guarded', 'PathPrefixOfAnother', 'sub'),
    'proof::multi_proof::hash_and_compact_terminal|assert:Overflow:Sub|$1 - $2|#1': ('reviewed', 'up_layers is skip or skip - (n + 1)'),
    'proof::multi_proof::hash_and_compact_terminal|call:index|[..$1]|#1': ('invariant', 'vmp_depth'),
    'proof::multi_proof::hash_and_compact_terminal|call:unwrap|$1.pop().unwrap()|#1': ('reviewed', '`last()` was just observed to be Some'),
    'proof::multi_proof::hash_and_compact_terminal|call:unwrap|$1.$2($3).unwrap()|#1': ('invariant', 'vmp_consistent'),
    'proof::multi_proof::hash_and_compact_terminal|assert:Overflow:Sub|$1 -= 1|#1': ('reviewed', 'the loop runs at most up_layers <= skip = initial cur_layer times'),
    'proof::multi_proof::terminal_contains|call:index|[..$1]|#1': ('invariant', 'vmp_depth'),
    'proof::multi_proof::terminal_contains|call:index|[..$1]|#2': ('invariant', 'vmp_depth'),
    'proof::multi_proof::verify|call:with_capacity|$1::$2($3.len())|#1': ('reviewed', 'the capacity is the length of the proof\'s own `paths` Vec, which is already in memory: no larger than the input'),
    'proof::multi_proof::verify|call:index|[$1]|#1': ('reviewed', 'i ranges over 0..multi_proof.paths.len()'),
    'proof::multi_proof::verify|assert:Overflow:Sub|$1 - 1|#1': ('reviewed', 'under `if i > 0`'),
    'proof::multi_proof::verify|call:index|[$1 - 1]|#1': ('reviewed', 'under `if i > 0`, i < len'),
    'proof::multi_proof::verify_range|assert:BoundsCheck|$1[0]|#1': ('reviewed', 'inside `if paths.len() == 1`'),
    'proof::multi_proof::verify_range|assert:Overflow:Sub|$1 - $2|#1': ('guarded', 'MalformedProof', 'sub'),
    'proof::multi_proof::verify_range|call:index|[$1..$2]|#1': ('guarded', 'MalformedProof', 'range'),
    'proof::multi_proof::verify_range|call:index|[..$1]|#1': ('guarded', 'MalformedProof', 'end'),
    'proof::multi_proof::verify_range|assert:Overflow:Add|$1 + $2|#1': ('reviewed', 'sibling offsets are bounded by the number of siblings held in memory (a Vec length), far below usize::MAX'),
    'proof::multi_proof::verify_range|assert:BoundsCheck|$1[0]|#2': ('reviewed', 'paths is non-empty here: the empty range returned above'),
    'proof::multi_proof::verify_range|assert:Overflow:Sub|$1.len() - 1|#1': ('reviewed', 'paths is non-empty here'),
    'proof::multi_proof::verify_range|assert:BoundsCheck|$1[$1.len() - 1]|#1': ('reviewed', 'paths is non-empty here'),
    'proof::multi_proof::verify_range|call:index|[$1..]|#1': ('guarded', 'MalformedProof', 'start'),
    'proof::multi_proof::verify_range|call:index|[$1..]|#2': ('guarded', 'MalformedProof', 'start'),
    'proof::multi_proof::verify_range|assert:Overflow:Add|$1 + $2|#2': ('reviewed', 'common_bits <= path length - start_depth <= 256'),
    'proof::multi_proof::verify_range|assert:Overflow:Add|$1 + 1|#1': ('reviewed', 'common_len <= 256'),
    'proof::multi_proof::verify_range|call:unwrap_err|$1.unwrap_err()|#1': ('reviewed', 'the comparator never returns Ordering::Equal'),
    'proof::multi_proof::verify_range|assert:Overflow:Add|$1 + $2|#3': ('reviewed', 'sibling offsets are bounded by the number of siblings held in memory (a Vec length), far below usize::MAX'),
    'proof::multi_proof::verify_range|call:index|[..$1]|#2': ('reviewed', 'the Err index of binary_search is <= len'),
    'proof::multi_proof::verify_range|call:index|[$1..]|#3': ('guarded', 'MalformedProof', 'start'),
    'proof::multi_proof::verify_range|assert:Overflow:Add|$1 + $2|#4': ('reviewed', 'sibling offsets are bounded by the number of siblings held in memory (a Vec length), far below usize::MAX'),
    'proof::multi_proof::verify_range|call:index|[$1..]|#4': ('reviewed', 'the Err index of binary_search is <= len'),
    'proof::multi_proof::verify_range|assert:Overflow:Add|$1 + $2|#5': ('reviewed', 'sibling offsets are bounded by the number of siblings held in memory (a Vec length), far below usize::MAX'),
    'proof::multi_proof::verify_range|call:index|[$1 + $2..]|#1': ('reviewed', 'a call returns at most the length of the sibling slice it was given (single path: unique_len <= siblings.len() by the MalformedProof guard; bisection: common + left + right, each bounded by the slice it received), so common_bits + left_siblings_used <= siblings.len()'),
    'proof::multi_proof::verify_range|assert:Overflow:Add|$1 + $2|#6': ('reviewed', 'sibling offsets are bounded by the number of siblings held in memory (a Vec length), far below usize::MAX'),
    'proof::multi_proof::verify_range|assert:Overflow:Add|$1 + $2 + $3|#1': ('reviewed', 'sibling offsets are bounded by the number of siblings held in memory (a Vec length), far below usize::MAX'),
    'proof::multi_proof::verify_range|assert:Overflow:Add|$1 + $2|#7': ('reviewed', 'sibling offsets are bounded by the number of siblings held in memory (a Vec length), far below usize::MAX'),
    'proof::multi_proof::verify_range|assert:Overflow:Add|$1 + $2 + $3|#2': ('reviewed', 'sibling offsets are bounded by the number of siblings held in memory (a Vec length), far below usize::MAX'),
    'proof::multi_proof::verify_range|call:index|[$1..$2]|#2': ('guarded', 'MalformedProof', 'start'),
    'proof::multi_proof::verify_range|call:index|[..$1]|#3': ('guarded', 'MalformedProof', 'end'),
    'proof::multi_proof::verify_range::{closure}|assert:Overflow:Sub|$1 - 1|#1': ('reviewed', 'uncommon_start_len = common_len + 1 >= 1'),
    'proof::multi_proof::verify_range::{closure}|call:index|[$1 - 1]|#1': ('guarded', 'MalformedProof'),
    'proof::multi_proof::verify_update|assert:Overflow:Sub|$1.len() - 1|#1': ('reviewed', 'inside `for terminal_index in start..proof.inner.len()`: len >= 1'),
    'proof::multi_proof::verify_update|assert:Overflow:Add|$1 + 1|#1': ('reviewed', 'terminal_index < len'),
    'proof::multi_proof::verify_update|call:index|[$1]|#1': ('reviewed', 'terminal_index ranges over start..proof.inner.len()'),
    'proof::multi_proof::verify_update|call:index|[..]|#1': ('reviewed', 'RangeFull never panics'),
    'proof::multi_proof::verify_update|call:index|[$1]|#2': ('guarded', 'OpOutOfScope', 'idx'),
    'proof::multi_proof::verify_update|assert:Overflow:Add|$1 += 1|#1': ('reviewed', 'bounded by proof.inner.len() (checked right after)'),
    'proof::multi_proof::verify_update|call:unwrap|$1.unwrap()|#1': ('reviewed', 'the `map_or(true, ..)` branch above `continue`d when it was None'),
    'proof::multi_proof::verify_update|call:index|[$1]|#3': ('reviewed', 'terminal_index < updated_index, an index that passed the OpOutOfScope bound check'),
    'proof::multi_proof::verify_update|assert:Overflow:Add|$1 + 1|#2': ('reviewed', 'terminal_index < updated_index < len'),
    'proof::multi_proof::verify_update|call:index|[$1 + 1]|#1': ('reviewed', 'terminal_index + 1 <= updated_index < len'),
    'proof::multi_proof::verify_update|call:index|[$1]|#4': ('reviewed', 'updated_index was a last_terminal_index, which passed the OpOutOfScope bound check'),
    'proof::multi_proof::verify_update|assert:Overflow:Add|$1 + 1|#3': ('reviewed', 'updated_index < len'),
    'proof::multi_proof::verify_update|assert:Overflow:Add|$1 + 1|#4': ('reviewed', 'updated_index < len'),
    'proof::multi_proof::verify_update::{closure}|call:index|[$1]|#1': ('reviewed', 'n = terminal_index + 1 only when terminal_index != len - 1'),
    'proof::path_proof::PathProof::verify|call:index|[..self.len()]|#1': ('guarded', 'TooManySiblings', 'end'),
    'proof::path_proof::VerifiedPathProof::in_scope|call:index|[..self.len()]|#1': ('invariant', 'vpp_keylen'),
    'proof::path_proof::VerifiedPathProof::path|call:index|[..]|#1': ('reviewed', 'RangeFull never panics'),
    'proof::path_proof::verify_update|assert:Overflow:Sub|$1 - 1|#1': ('reviewed', 'short-circuit `i != 0 &&`'),
    'proof::path_proof::verify_update|assert:BoundsCheck|$1[$2 - 1]|#1': ('reviewed', 'short-circuit `i != 0 &&`, i < len'),
    'proof::path_proof::verify_update|assert:Overflow:Sub|$1 - 1|#2': ('reviewed', 'short-circuit `j != 0 &&`'),
    'proof::path_proof::verify_update|call:index|[$1 - 1]|#1': ('reviewed', 'short-circuit `j != 0 &&`, j < len'),
    'proof::path_proof::verify_update|assert:Overflow:Add|$1 + 1|#1': ('reviewed', 'i < paths.len()'),
    'proof::path_proof::verify_update|assert:Overflow:Add|($1 + 1)|#1': ('reviewed', 'n <= 256'),
    'proof::path_proof::verify_update|assert:Overflow:Sub|$1 - ($2 + 1)|#1': ('reviewed', 'cryptographic: n == skip needs two paths verified against one root where one terminal lies below the other, i.e. a collision between an internal-node hash and a leaf/terminator (domain-separated by the MSB); paths are checked to be strictly ascending'),
    'proof::path_proof::verify_update|assert:Overflow:Sub|$1 - $2|#1': ('reviewed', 'up_layers is skip or skip - (n + 1)'),
    'proof::path_proof::verify_update|call:unwrap|$1.pop().unwrap()|#1': ('reviewed', '`last()` was just observed to be Some'),
    'proof::path_proof::verify_update|assert:Overflow:Sub|$1 -= 1|#1': ('reviewed', 'the loop runs at most up_layers <= skip times'),
    'proof::path_proof::verify_update|call:unwrap|$1.pop().map(|$2| $2).unwrap()|#1': ('reviewed', 'paths is non-empty (early return above) and every iteration pushes'),
    'trie_pos::TriePosition::path|call:index|[..self as usize]|#1': ('invariant', 'triepos_depth'),
    'update::build_trie|assert:Overflow:Add|$1 + 1|#1': ('reviewed', 'n <= 256'),
    'update::build_trie|assert:Overflow:Add|$1 + 1|#2': ('reviewed', 'n <= 256'),
    'update::build_trie|assert:Overflow:Add|$1 + 1|#3': ('reviewed', 'n <= 256'),
    'update::build_trie|assert:Overflow:Add|$1::$2::$3($4, $5) + 1|#1': ('reviewed', 'n <= 256'),
    'update::build_trie|assert:Overflow:Add|$1 + $2.$3(0)|#1': ('reviewed', 'skip, n <= 256'),
    'update::build_trie|assert:Overflow:Add|$1 + $2|#1': ('reviewed', 'skip, leaf_depth <= 257'),
    'update::build_trie|call:index|[$1..$2]|#1': ('precondition', 'ops_strictly_ascending', 'keys are strictly ascending (OpsOutOfOrder guards in both update verifiers) hence distinct, so two neighbours share at most 255 - skip bits after the prefix: leaf_end_bit = skip + max(n) + 1 <= 256; down_start = skip + n1 <= leaf_end_bit'),
    'update::build_trie|call:index|[$1..$2]|#2': ('precondition', 'ops_strictly_ascending', 'leaf_end_bit <= 256 as above, skip <= leaf_end_bit'),
    'update::build_trie|assert:Overflow:Sub|$1 -= 1|#1': ('reviewed', 'hash_up_layers <= leaf_depth = initial layer'),
    'update::build_trie|call:unwrap|$1.pop().unwrap()|#1': ('reviewed', '`last()` was just observed to be Some'),
    'update::build_trie::{closure}|call:index|[$1..]|#1': ('reviewed', 'skip is the depth of a verified terminal (<= 256, invariants vpp_keylen / vmp_depth); a key has 256 bits'),
    'update::build_trie::{closure}|call:index|[$1..]|#2': ('reviewed', 'skip <= 256'),
    'update::build_trie::{closure}|assert:Overflow:Add|$1 + 1|#1': ('reviewed', 'layer <= 256'),
    'update::leaf_ops_spliced|call:index|[..$1]|#1': ('reviewed', 'splice_index is the Err index of binary_search (<= len) or 0'),
    'update::leaf_ops_spliced|call:index|[$1..]|#1': ('reviewed', 'splice_index is the Err index of binary_search (<= len) or 0'),
}
