# Dispositions of the MIR panic sites reachable from the verifier entry points (C18).
# key = "<function>|<kind>:<what>|<normalised source snippet>|#<ordinal among identical>"  (no line numbers)
#   ("guarded", V[, rel]) machine-checked on every run: the site is dominated by the pass edge of a branch
#                     whose other edge returns Err(..::V); with rel, that branch must moreover compare the
#                     very operands the site can panic on: "end"/"start"/"idx" = the slice's end / start bound
#                     or the index against the LENGTH OF THE INDEXED CONTAINER, "sub" = the two operands of the
#                     subtraction against each other (arithmetic, casts and min/max are looked through).
#   ("invariant", I)  safe under invariant I of a private-field type; who-may-construct is machine-checked.
#   ("precondition", P, why) like reviewed, but the reason rests on precondition P (PRECONDITIONS), which is a guard
#                     in every caller and is machine-checked there (variant + relation).
#   ("reviewed", why) frozen reason.  Editing the expression changes the key and forces re-triage.
# A reachable site that is not listed is a VIOLATION.

MP = "proof::multi_proof::"
PP = "proof::path_proof::"

INVARIANTS = {
    "vmp_depth": {
        "adt": "nomt_core::proof::multi_proof::VerifiedMultiPath",
        "text": "VerifiedMultiPath.depth <= terminal.path().len() (<= 256)",
        "constructors": ["nomt_core::proof::multi_proof::verify_range"],
        "establish": [("nomt_core::proof::multi_proof::verify_range", ("guard-or-const0", "MalformedProof", "depth"))],
    },
    "vmp_consistent": {
        "adt": "nomt_core::proof::multi_proof::VerifiedMultiProof",
        "text": "inner / bisections / sibling ranges of a VerifiedMultiProof were produced together by verify_range over the same sibling vector, which was consumed exactly (TooManySiblings)",
        "constructors": ["nomt_core::proof::multi_proof::verify"],
        "establish": [("nomt_core::proof::multi_proof::verify", ("guard", "TooManySiblings"))],
    },
    "vpp_keylen": {
        "adt": "nomt_core::proof::path_proof::VerifiedPathProof",
        "text": "VerifiedPathProof.key_path.len() == siblings.len() <= 256",
        "constructors": ["nomt_core::proof::path_proof::PathProof::verify"],
        "establish": [("nomt_core::proof::path_proof::PathProof::verify", ("guard", "TooManySiblings"))],
    },
    "triepos_depth": {
        "adt": "nomt_core::trie_pos::TriePosition",
        "text": "TriePosition.depth <= 256",
        "constructors": ["nomt_core::trie_pos::TriePosition::new", "nomt_core::trie_pos::TriePosition::from_path_and_depth"],
        "establish": [("nomt_core::trie_pos::TriePosition::from_path_and_depth", ("assert",))],
        # functions allowed to store into the field (each asserts or only decreases)
        "field": "depth",
        "mutators": ["nomt_core::trie_pos::TriePosition::down", "nomt_core::trie_pos::TriePosition::up"],  # down asserts depth != 256 before incrementing; up only decreases
    },
}

# preconditions that reviewed sites of a callee rest on and that ARE a guard in every caller: machine-checked
PRECONDITIONS = {
    "ops_strictly_ascending": {
        "text": "the operation list handed to leaf_ops_spliced / build_trie is strictly ascending by key (no duplicates)",
        "variant": "OpsOutOfOrder",
        "functions": ["nomt_core::proof::path_proof::verify_update", "nomt_core::proof::multi_proof::verify_update"],
        "relation": "strict-order",
    },
}

BOUNDED_SIB = "sibling offsets are bounded by the number of siblings held in memory (a Vec length), far below usize::MAX"
VMPC = "vmp_consistent"

SITES = {
    # ---------------- multi_proof::verify ------------------------------------------------------
    MP + "verify|call:index|[i]|#1": ("reviewed", "i ranges over 0..multi_proof.paths.len()"),
    MP + "verify|assert:Overflow:Sub|i - 1|#1": ("reviewed", "under `if i > 0`"),
    MP + "verify|call:index|[i - 1]|#1": ("reviewed", "under `if i > 0`, i < len"),
    # ---------------- multi_proof::verify_range ------------------------------------------------
    MP + "verify_range|assert:BoundsCheck|paths[0]|#1": ("reviewed", "inside `if paths.len() == 1`"),
    MP + "verify_range|assert:Overflow:Sub|terminal_path.depth - start_depth|#1": ("guarded", "MalformedProof", "sub"),
    MP + "verify_range|call:index|[start_depth..terminal_path.depth]|#1": ("guarded", "MalformedProof", "end"),
    MP + "verify_range|call:index|[..unique_len]|#1": ("guarded", "MalformedProof", "end"),
    MP + "verify_range|assert:Overflow:Add|sibling_offset + unique_len|#1": ("reviewed", BOUNDED_SIB),
    MP + "verify_range|assert:BoundsCheck|paths[0]|#2": ("reviewed", "paths is non-empty here: the empty range returned above"),
    MP + "verify_range|assert:Overflow:Sub|paths.len() - 1|#1": ("reviewed", "paths is non-empty here"),
    MP + "verify_range|assert:BoundsCheck|paths[paths.len() - 1]|#1": ("reviewed", "paths is non-empty here"),
    MP + "verify_range|call:index|[start_depth..]|#1": ("guarded", "MalformedProof", "start"),
    MP + "verify_range|call:index|[start_depth..]|#2": ("guarded", "MalformedProof", "start"),
    MP + "verify_range|assert:Overflow:Add|start_depth + common_bits|#1": ("reviewed", "common_bits <= path length - start_depth <= 256"),
    MP + "verify_range|assert:Overflow:Add|common_len + 1|#1": ("reviewed", "common_len <= 256"),
    MP + "verify_range|call:unwrap_err|search_result.unwrap_err()|#1": ("reviewed", "the comparator never returns Ordering::Equal"),
    MP + "verify_range|assert:Overflow:Add|sibling_offset + common_bits|#1": ("reviewed", BOUNDED_SIB),
    MP + "verify_range|assert:Overflow:Add|sibling_offset + common_bits|#2": ("reviewed", BOUNDED_SIB),
    MP + "verify_range|assert:Overflow:Add|sibling_offset + common_bits|#3": ("reviewed", BOUNDED_SIB),
    MP + "verify_range|assert:Overflow:Add|sibling_offset + common_bits + left_siblings_used|#1": ("reviewed", BOUNDED_SIB),
    MP + "verify_range|call:index|[..bisect_idx]|#1": ("reviewed", "the Err index of binary_search is <= len"),
    MP + "verify_range|call:index|[bisect_idx..]|#1": ("reviewed", "the Err index of binary_search is <= len"),
    MP + "verify_range|call:index|[common_bits..]|#1": ("guarded", "MalformedProof", "start"),
    MP + "verify_range|assert:Overflow:Add|common_bits + left_siblings_used|#1": ("reviewed", BOUNDED_SIB),
    MP + "verify_range|assert:Overflow:Add|common_bits + left_siblings_used|#2": ("reviewed", BOUNDED_SIB),
    MP + "verify_range|assert:Overflow:Add|common_bits + left_siblings_used + right_siblings_used|#1": ("reviewed", BOUNDED_SIB),
    MP + "verify_range|call:index|[common_bits + left_siblings_used..]|#1": ("reviewed", "a call returns at most the length of the sibling slice it was given (single path: unique_len <= siblings.len() by the MalformedProof guard; bisection: common + left + right, each bounded by the slice it received), so common_bits + left_siblings_used <= siblings.len()"),
    MP + "verify_range|call:index|[start_depth..common_len]|#1": ("guarded", "MalformedProof", "start"),
    MP + "verify_range|call:index|[..common_bits]|#1": ("guarded", "MalformedProof", "end"),
    MP + "verify_range::{closure}|assert:Overflow:Sub|uncommon_start_len - 1|#1": ("reviewed", "uncommon_start_len = common_len + 1 >= 1"),
    MP + "verify_range::{closure}|call:index|[uncommon_start_len - 1]|#1": ("guarded", "MalformedProof"),
    # ---------------- VerifiedMultiProof queries -----------------------------------------------
    MP + "VerifiedMultiProof::find_index_for::{closure}|call:index|[..v.depth]|#1": ("invariant", "vmp_depth"),
    MP + "VerifiedMultiProof::find_index_for::{closure}|call:index|[..v.depth]|#2": ("invariant", "vmp_depth"),
    MP + "VerifiedMultiProof::confirm_nonexistence_with_index|call:index|[index]|#1": ("reviewed", "documented caller contract (`# Panics`): the index is chosen by the verifying application (normally the result of find_index_for), never by the prover"),
    MP + "VerifiedMultiProof::confirm_value_with_index|call:index|[index]|#1": ("reviewed", "documented caller contract (`# Panics`): the index is chosen by the verifying application, never by the prover"),
    MP + "VerifiedMultiProof::confirm_nonexistence_with_index|call:index|[..depth]|#1": ("invariant", "vmp_depth"),
    MP + "VerifiedMultiProof::confirm_nonexistence_with_index|call:index|[..depth]|#2": ("invariant", "vmp_depth"),
    MP + "VerifiedMultiProof::confirm_value_with_index|call:index|[..depth]|#1": ("invariant", "vmp_depth"),
    MP + "VerifiedMultiProof::confirm_value_with_index|call:index|[..depth]|#2": ("invariant", "vmp_depth"),
    MP + "VerifiedMultiProof::confirm_nonexistence_inner|call:index|[index]|#1": ("reviewed", "private; reached with an index returned by find_index_for (a binary-search hit) or after the bounds-checked access of the *_with_index caller"),
    MP + "VerifiedMultiProof::confirm_value_inner|call:index|[index]|#1": ("reviewed", "private; reached with an index returned by find_index_for or after the bounds-checked access of the *_with_index caller"),
    MP + "terminal_contains|call:index|[..terminal.depth]|#1": ("invariant", "vmp_depth"),
    MP + "terminal_contains|call:index|[..terminal.depth]|#2": ("invariant", "vmp_depth"),
    # ---------------- multi_proof::verify_update and helpers -----------------------------------
    MP + "CommonSiblings::advance|call:index|[self.terminal_index]|#1": ("invariant", VMPC),
    MP + "CommonSiblings::advance|call:index|[self.bisection_index]|#1": ("invariant", VMPC),
    MP + "CommonSiblings::advance|assert:Overflow:Add|self.bisection_index += 1|#1": ("reviewed", "counts bisections of the proof"),
    MP + "CommonSiblings::advance|diverge:assert_failed|assert_eq!(next_bisection.common_siblings.start, self.taken_siblings)|#1": ("invariant", VMPC),
    MP + "CommonSiblings::advance|assert:Overflow:Add|next_bisection.start_depth + 1|#1": ("reviewed", "start_depth <= 256"),
    MP + "CommonSiblings::advance|assert:Overflow:Sub|next_terminal.unique_siblings.end - next_terminal.unique_siblings.start|#1": ("invariant", VMPC),
    MP + "CommonSiblings::advance|assert:Overflow:Sub|next_terminal.depth - terminal_n|#1": ("invariant", VMPC),
    MP + "CommonSiblings::advance|assert:Overflow:Add|next_terminal.depth - terminal_n + 1|#1": ("reviewed", "depth <= 256"),
    MP + "CommonSiblings::advance|assert:Overflow:Add|self.terminal_index += 1|#1": ("reviewed", "counts terminals of the proof"),
    MP + "CommonSiblings::extend|call:index|[self.taken_siblings..end]|#1": ("invariant", VMPC),
    MP + "CommonSiblings::extend|assert:Overflow:Add|start_depth + i|#1": ("reviewed", "depth + sibling count, both small"),
    MP + "hash_and_compact_terminal|assert:Overflow:Add|(n + 1)|#1": ("reviewed", "n <= 256"),
    MP + "hash_and_compact_terminal|assert:Overflow:Sub|skip - (n + 1)|#1": ("guarded", "PathPrefixOfAnother", "sub"),
    MP + "hash_and_compact_terminal|assert:Overflow:Sub|skip - up_layers|#1": ("reviewed", "up_layers is skip or skip - (n + 1)"),
    MP + "hash_and_compact_terminal|call:index|[..terminal.depth]|#1": ("invariant", "vmp_depth"),
    MP + "hash_and_compact_terminal|call:unwrap|pending_siblings.pop().unwrap()|#1": ("reviewed", "`last()` was just observed to be Some"),
    MP + "hash_and_compact_terminal|call:unwrap|common_siblings.pop_if_at_depth(cur_layer).unwrap()|#1": ("invariant", VMPC),
    MP + "hash_and_compact_terminal|assert:Overflow:Sub|cur_layer -= 1|#1": ("reviewed", "the loop runs at most up_layers <= skip = initial cur_layer times"),
    MP + "verify_update|assert:Overflow:Sub|proof.inner.len() - 1|#1": ("reviewed", "inside `for terminal_index in start..proof.inner.len()`: len >= 1"),
    MP + "verify_update|assert:Overflow:Add|terminal_index + 1|#1": ("reviewed", "terminal_index < len"),
    MP + "verify_update|call:index|[terminal_index]|#1": ("reviewed", "terminal_index ranges over start..proof.inner.len()"),
    MP + "verify_update|call:index|[..]|#1": ("reviewed", "RangeFull never panics"),
    MP + "verify_update::{closure}|call:index|[n]|#1": ("reviewed", "n = terminal_index + 1 only when terminal_index != len - 1"),
    MP + "verify_update|call:index|[next_terminal_index]|#1": ("guarded", "OpOutOfScope", "idx"),
    MP + "verify_update|assert:Overflow:Add|next_terminal_index += 1|#1": ("reviewed", "bounded by proof.inner.len() (checked right after)"),
    MP + "verify_update|call:unwrap|last_terminal_index.unwrap()|#1": ("reviewed", "the `map_or(true, ..)` branch above `continue`d when it was None"),
    MP + "verify_update|call:index|[terminal_index]|#2": ("reviewed", "terminal_index < updated_index, an index that passed the OpOutOfScope bound check"),
    MP + "verify_update|assert:Overflow:Add|terminal_index + 1|#2": ("reviewed", "terminal_index < updated_index < len"),
    MP + "verify_update|call:index|[terminal_index + 1]|#1": ("reviewed", "terminal_index + 1 <= updated_index < len"),
    MP + "verify_update|call:index|[updated_index]|#1": ("reviewed", "updated_index was a last_terminal_index, which passed the OpOutOfScope bound check"),
    MP + "verify_update|assert:Overflow:Add|updated_index + 1|#1": ("reviewed", "updated_index < len"),
    MP + "verify_update|assert:Overflow:Add|updated_index + 1|#2": ("reviewed", "updated_index < len"),
    # ---------------- path_proof ---------------------------------------------------------------
    PP + "PathProof::verify|call:index|[..self.siblings.len()]|#1": ("guarded", "TooManySiblings", "end"),
    PP + "VerifiedPathProof::in_scope|call:index|[..self.key_path.len()]|#1": ("invariant", "vpp_keylen"),
    PP + "VerifiedPathProof::path|call:index|[..]|#1": ("reviewed", "RangeFull never panics"),
    PP + "verify_update|assert:Overflow:Sub|i - 1|#1": ("reviewed", "short-circuit `i != 0 &&`"),
    PP + "verify_update|assert:BoundsCheck|paths[i - 1]|#1": ("reviewed", "short-circuit `i != 0 &&`, i < len"),
    PP + "verify_update|assert:Overflow:Sub|j - 1|#1": ("reviewed", "short-circuit `j != 0 &&`"),
    PP + "verify_update|call:index|[j - 1]|#1": ("reviewed", "short-circuit `j != 0 &&`, j < len"),
    PP + "verify_update|assert:Overflow:Add|i + 1|#1": ("reviewed", "i < paths.len()"),
    PP + "verify_update|assert:Overflow:Add|(n + 1)|#1": ("reviewed", "n <= 256"),
    PP + "verify_update|assert:Overflow:Sub|skip - (n + 1)|#1": ("reviewed", "cryptographic: n == skip needs two paths verified against one root where one terminal lies below the other, i.e. a collision between an internal-node hash and a leaf/terminator (domain-separated by the MSB); paths are checked to be strictly ascending"),
    PP + "verify_update|assert:Overflow:Sub|skip - up_layers|#1": ("reviewed", "up_layers is skip or skip - (n + 1)"),
    PP + "verify_update|call:unwrap|pending_siblings.pop().unwrap()|#1": ("reviewed", "`last()` was just observed to be Some"),
    PP + "verify_update|assert:Overflow:Sub|cur_layer -= 1|#1": ("reviewed", "the loop runs at most up_layers <= skip times"),
    PP + "verify_update|call:unwrap|pending_siblings.pop().map(|n| n.0).unwrap()|#1": ("reviewed", "paths is non-empty (early return above) and every iteration pushes"),
    "trie_pos::TriePosition::path|call:index|[..self.depth as usize]|#1": ("invariant", "triepos_depth"),
    # ---------------- update.rs (sub-trie builder used by both update verifiers) -----------------
    "update::leaf_ops_spliced|call:index|[..splice_index]|#1": ("reviewed", "splice_index is the Err index of binary_search (<= len) or 0"),
    "update::leaf_ops_spliced|call:index|[splice_index..]|#1": ("reviewed", "splice_index is the Err index of binary_search (<= len) or 0"),
    "update::build_trie::{closure}|call:index|[skip..]|#1": ("reviewed", "skip is the depth of a verified terminal (<= 256, invariants vpp_keylen / vmp_depth); a key has 256 bits"),
    "update::build_trie::{closure}|call:index|[skip..]|#2": ("reviewed", "skip <= 256"),
    "update::build_trie|assert:Overflow:Add|n1 + 1|#1": ("reviewed", "n <= 256"),
    "update::build_trie|assert:Overflow:Add|n1 + 1|#2": ("reviewed", "n <= 256"),
    "update::build_trie|assert:Overflow:Add|n2 + 1|#1": ("reviewed", "n <= 256"),
    "update::build_trie|assert:Overflow:Add|core::cmp::max(n1, n2) + 1|#1": ("reviewed", "n <= 256"),
    "update::build_trie|assert:Overflow:Add|skip + n1.unwrap_or(0)|#1": ("reviewed", "skip, n <= 256"),
    "update::build_trie|assert:Overflow:Add|skip + leaf_depth|#1": ("reviewed", "skip, leaf_depth <= 257"),
    "update::build_trie|call:index|[down_start..leaf_end_bit]|#1": ("precondition", "ops_strictly_ascending", "keys are strictly ascending (OpsOutOfOrder guards in both update verifiers) hence distinct, so two neighbours share at most 255 - skip bits after the prefix: leaf_end_bit = skip + max(n) + 1 <= 256; down_start = skip + n1 <= leaf_end_bit"),
    "update::build_trie|call:index|[skip..leaf_end_bit]|#1": ("precondition", "ops_strictly_ascending", "leaf_end_bit <= 256 as above, skip <= leaf_end_bit"),
    "update::build_trie|assert:Overflow:Sub|layer -= 1|#1": ("reviewed", "hash_up_layers <= leaf_depth = initial layer"),
    "update::build_trie|call:unwrap|pending_siblings.pop().unwrap()|#1": ("reviewed", "`last()` was just observed to be Some"),
    "update::build_trie::{closure}|assert:Overflow:Add|layer + 1|#1": ("reviewed", "layer <= 256"),
}
