# Table behind MANIFEST.json (bin/mkmanifest).  Only properties whose engine exists in
# rules/props.py are emitted as checks; the others are listed under not_applicable until built.

_NOTE = (
    "Sound static check of the stated structural rule under the listed assumptions: the rustc nightly MIR "
    "(mir-opt-level=0) of the linux default-feature lib build of nomt/nomt-core is trusted; path feasibility is ignored "
    "(every CFG path counts); repo-specific slot fillers (entry points, effect/guard/file/lock tables) are frozen in rules/*.py "
    "with reasons and fail closed (exit 2) when an anchor disappears or a floor is not met. The behaviour itself "
    "(values, roots, proofs) is not decided."
)

CLAIMED = {
    "C03": {
        "engine": "E1 syncorder",
        "technique": "static analysis: MIR must-complete-before / cannot-start-before ordering over the sync protocol (dominance in the Ok-pruned CFG + spawn/join strand model); provenance of written page numbers (copy-on-write); must-pass rules over the redo arms (each entry re-applied, every field of an Update entry applied to the page buffer)",
        "text": "Decides the commit-protocol ordering skeleton for every path: every pre-meta write (wal, ln, bbn) is complete and result-checked before Meta::write; hash-table writes, WAL truncation and rollback-log pruning start only after it; WAL redo is gated by sequence-number equality and the WAL carries the same sequence number as the meta page; every bucket change and data page of the post-meta writeout has a WAL entry for the same bucket between reset and finalize; ln/bbn/free-list page writers obtain page numbers only from the allocator (no page of the previous committed state is overwritten before the switch-over) and the value files are resized at one site. That is the part of crash atomicity visible in the shape of the code; data-level recovery correctness is not decided.",
        "design_ref": "DESIGN.md 4 (E1), 5 (C03)",
        "note": _NOTE,
    },
    "C04": {
        "engine": "E1 syncorder",
        "technique": "static analysis: per-file-class write -> fsync -> barrier obligations over MIR (dominance + strand joins), result-checked; post-meta ordering of destructive events; truncation-dominates-write rule for the WAL; provenance of written page numbers (copy-on-write, shared with C17)",
        "text": "Decides the fsync obligations: for every file class each write is followed by a completed, result-checked fsync of that file before the barrier that depends on it (meta switch-over, WAL truncation, append return, create return). Removing any fsync makes an obligation underivable; a WAL blob is only written into an empty WAL file; value-file page writers take page numbers from the allocator and the allocator from the old free list or beyond the old bump. Device semantics and drain-count arithmetic are assumed.",
        "design_ref": "DESIGN.md 4 (E1), 5 (C04)",
        "note": _NOTE,
    },
    "C08": {
        "engine": "E6 vguard + E8 witness",
        "technique": "static analysis: who-may-construct + dominance of acceptance by the root comparison and dependence of the recomputed root on the queried key; scope-predicate dependence of confirm_*; error-variant raise-site inventory; iterator-provenance of the loops that raise scope/order errors (whole input collection); whole-leaf comparison in confirm_value*; value-leaf equality of sibling count and bit-range length at every hash_path call; compile-fail witnesses",
        "text": "Thin structural claim: Verified* objects are constructible only behind the root-equality check, every confirm_* result depends on a scope predicate, every documented rejection reason has a raising site on the verifier's path, the loops raising scope/order errors iterate the whole input collection (no skip/take/chunks), and confirm_value* compares the whole leaf (key path and value hash). Does not decide that the comparisons are the right ones nor hashing correctness.",
        "design_ref": "DESIGN.md 4 (E6, E8), 5 (C08)",
        "note": _NOTE,
    },
    "C09": {
        "engine": "E3 guardfx (+E1 order)",
        "technique": "static analysis: guard-dominates-effect over MIR CFG, constant-store dataflow on SessionParams, post-meta ordering of log pruning, set/consume pairing of the pending truncation, who-may-mutate ownership of the in-memory log, overlay-hit-is-final branch rule, variant-inspection rule for the delta codec (encode inspects / decode can build both variants), must-pass rule for the rollback's own commit after the truncation, variant-preserving plumbing of the reverse delta in Session::finish (one delta per commit)",
        "text": "Three clauses: an unservable rollback returns before any mutation; the rollback's own commit never records a delta nor takes the global guard; log pruning/truncation happens only after the meta switch-over and the pending truncation is consumed where it is applied; the in-memory log is mutated only by one-record push/pop operations of its owner type, each reachable only from its listed owners. Restored values are not decided.",
        "design_ref": "DESIGN.md 4 (E3), 5 (C09)",
        "note": _NOTE,
    },
    "C11": {
        "engine": "E3 guardfx (+ statusdom, shadow, mergefront)",
        "technique": "static analysis: guard-dominates-effect over MIR CFG of the overlay commit entry points; finite-domain evaluation (MIR interpretation over the three status values) of the chain-completeness predicate; who-may-store on the status word; overlay-hit-is-final branch rule; must-pass-a-filter path rule for stored items of the leaf fetch (every next() -> LeafData path passes a call on the overlay deletions and the item); element-preserving-adapter rule for the updated page set; measured-or-indexed-only rule for the ancestor data of the overlay read path; forward frontier dataflow (value numbering over MIR) for the completeness of the stored-leaves/overlay merge",
        "text": "Refusal clause and three structural clauses of the read path: committing an overlay is gated by the parent-marker, lock and previous-root checks before any effect, including the committed-status flip that descendants consult; LiveOverlay::new refuses a chain exactly when the oldest supplied ancestor's parent is not COMMITTED (decided by enumerating the status domain); the status word only moves LIVE->DROPPED or ->COMMITTED; where the overlay chain is consulted a hit (including a delete) is final; the elided-subtree reconstruction copies or supersedes every stored leaf on every path. Overlay/commit behavioural equivalence is not decided.",
        "design_ref": "DESIGN.md 4 (E3), 5 (C11)",
        "note": _NOTE,
    },
    "C12": {
        "engine": "E3 guardfx (+E8 witness)",
        "technique": "static analysis: guard-dominates-effect (dominance + refusal-edge reachability) over MIR CFG of the commit entry points; forward field-state dataflow for hand-back integrity",
        "text": "In all four commit entry points and Rollback::commit_nonblocking every refusal/deferral guard dominates every effect and no effect is reachable from a refusal edge; holds for all paths, hence all competing-changeset histories and schedules; a changeset handed back by a deferred non-blocking commit has had no field moved out, assigned or mutably borrowed (unless restored). What a successful commit writes is not decided.",
        "design_ref": "DESIGN.md 4 (E3), 5 (C12)",
        "note": _NOTE,
    },
    "C14": {
        "engine": "E2 errflow",
        "technique": "static analysis: error-discipline dataflow over MIR (no dropped I/O Result or CompleteIo.result, tasks joined and propagated, error exits after an effect poison); enumeration of the completion classifier over all I/O kinds; bounded-region termination for bucket probing; forward use analysis of partial-I/O byte counts; error-convention agreement for libc calls that return the error number (interprocedural use analysis through closure returns)",
        "text": "Error discipline for every call site: no I/O-carrying Result/CompleteIo is dropped; every task result is joined and propagated; every error exit after an effect poisons; Store::commit refuses when poisoned; a failed completion can never be classified as success or retried for ever; bucket allocation is bounded; the byte count of every partial write/read is looked at; a libc call that returns the error number is never judged by the -1 test. On-disk atomicity after a failure is not decided.",
        "design_ref": "DESIGN.md 4 (E2), 5 (C14)",
        "note": _NOTE,
    },
    "C15": {
        "engine": "E4 lockgraph (+E8 witness)",
        "technique": "static analysis: lock-order graph over MIR (guard live ranges, holder structs, call-graph closure; the read-transaction counter as a shared/exclusive barrier) + who-may-call / dominance rules for the access lock; session switches decided by conditional constant propagation",
        "text": "Lock discipline: the held->acquired relation over all lock classes (incl. escaping guards and the read-transaction barrier) is acyclic; store/rollback mutation happens only under the access write guard; root check-and-set inside one write-guard acquisition; only Nomt::rollback creates a guard-less session; the direct read API looks values up under a blockingly acquired access guard. Observed values and channel liveness are not decided.",
        "design_ref": "DESIGN.md 4 (E4), 5 (C15)",
        "note": _NOTE,
    },
    "C17": {
        "engine": "E1 syncorder (W rules)",
        "technique": "static analysis: who-may-write-which-file table over MIR + provenance scoping of page numbers (writers take them from the allocator; the allocator takes them from the old free list or beyond the old bump) + post-meta ordering",
        "text": "Write discipline: every write/resize/unlink/create site sits in the function allowed for its file class; ln/bbn page writers can only obtain page numbers from the allocator, which hands out only pages of the previous free list or beyond the previous bump; HT/segment destructive operations start only post-meta; free-list mutators callable only from the finisher; segment files opened append-only. Free-list arithmetic is not decided.",
        "design_ref": "DESIGN.md 4 (E1 W-rules), 5 (C17)",
        "note": _NOTE,
    },
    "C18": {
        "engine": "E5 panicfree",
        "technique": "static analysis: MIR panic-site inventory of the verifier call graph with machine-checked dominating guards and who-may-construct invariants; loop / recursion termination by iterator-type finiteness, counter / pop structure and a recursion measure",
        "text": "Every MIR panic site reachable from the verifier entry points is discharged by a machine-checked dominating error-returning guard, an invariant of a private-field type whose constructors are enumerated, a frozen reviewed reason, or is a listed known finding; any new site is a violation. Termination (structure): every loop of those functions is driven by next() on a loop-invariant iterator of finite type, or is a listed counter / pop / caller-iterator loop whose structural part is machine-checked; the one recursive cycle carries a strictly increasing, bounded measure; no Iterator method runs on an infinite iterator type.",
        "design_ref": "DESIGN.md 4 (E5), 5 (C18)",
        "note": _NOTE,
    },
    "C19": {
        "engine": "E9 reclaim",
        "technique": "static analysis: counter/state-change pairing by dominance inside the sync loop, who-may-write on the occupancy counter, initialisation order w.r.t. recovery, dataflow of freed page lists from the update stages to the free list of the same store, reuse-before-growth dominance, must-pass-through chain for the release of replaced overflow cells, release-or-put-back pairing for entries taken out of the free list's own page table",
        "text": "Structure only: the reported hash-table occupancy is a counter that follows every bucket state change of a sync (set_full / set_tombstone paired with +1 / -1), is initialised from the occupancy map after recovery and is written nowhere else; the pages each update stage frees (replaced pages and the tracker's extra_freed) are handed to the finisher of the same value file, to FreeList::commit and to the free-list encoder; the allocator consults the free list before growing; a replaced or deleted overflow value is reported on every path of LeafUpdater::keep_up_to and flows through the leaf stage into overflow::delete and freed_pages; every free-list page taken out of FreeList.portions is released or put back. Whether every page is accounted for and the count is right is not decided.",
        "design_ref": "DESIGN.md 10.2 (U1-U5)",
        "note": _NOTE,
    },
    "C20": {
        "engine": "E7 dirlock",
        "technique": "static analysis: must-pass-through dominance of file-touching calls by Flock::lock in open/create, constant flock flags, lock lifetime flow into Shared, drop order; who-may-call + constant-flag rule for raw descriptor-creating libc calls (O_CLOEXEC); must-join-on-every-exit of spawned tasks in Sync::sync over the happens-before model (one-bit path sensitivity incl. Option variants)",
        "text": "No path of Store::open/create touches a database file before holding the exclusive non-blocking directory lock; the lock lives exactly as long as the handle; the io pool is drained before release; single unlock site; no descriptor is created without close-on-exec (a child process cannot inherit the lock); every task a sync spawns is joined on every path to every return of Sync::sync, error exits included, so a failed commit cannot hand back control with a writer alive. Kernel flock semantics are assumed; a panic inside a sync is not covered.",
        "design_ref": "DESIGN.md 4 (E7), 5 (C20)",
        "note": _NOTE,
    },
}

NOT_APPLICABLE = {
    "C01": "value equality with the sequential model over all histories is B-tree arithmetic on runtime contents; no structural necessary condition beyond those owned by C03/C04/C14/C17 (DESIGN.md 5, C01)",
    "C02": "root equality with the reference trie is a numerical result over the runtime key set; nothing in the shape of the code decides it (DESIGN.md 5, C02)",
    "C05": "proof completeness/truthfulness depends on runtime trie contents, hash-table probing and elision; the only shape-level candidate would be a frozen-fragment proxy (DESIGN.md 5, C05)",
    "C06": "witness/replay equality against the new root is behavioural over all batches (DESIGN.md 5, C06)",
    "C07": "equivalence of two algorithms (multi-proof vs path proofs) over all trie shapes; no structural clause (DESIGN.md 5, C07)",
    "C10": "state equality across close/open over all histories; the one structural candidate is already settled by existing reopen tests (DESIGN.md 5, C10)",
    "C13": "result independence from configurations and schedules is behavioural; data-race freedom is rustc's guarantee and lock-order deadlocks are covered under C15 (DESIGN.md 5, C13)",
    "C16": "a property of file contents after histories; one layout-agreement clause was considered and deliberately not claimed because it covers one of a dozen layouts (DESIGN.md 5, C16)",
}

ENGINES = [
    {"name": "driver", "path": "driver/", "serves_properties": sorted(CLAIMED), "kind_free_text": "rustc_private fact extractor: MIR-lite JSON (resolved callees, places with field names, ADT/impl tables) for crates nomt and nomt_core"},
    {"name": "E1 syncorder", "path": "rules/syncorder.py", "serves_properties": ["C03", "C04", "C17", "C09"], "kind_free_text": "ordering/durability/write-discipline rules over the sync protocol (dominance in Ok-pruned CFG, strand model)"},
    {"name": "E2 errflow", "path": "rules/errflow.py", "serves_properties": ["C14"], "kind_free_text": "error-discipline dataflow"},
    {"name": "E3 guardfx", "path": "rules/guardfx.py", "serves_properties": ["C09", "C11", "C12", "C14"], "kind_free_text": "guard-dominates-effect"},
    {"name": "E3b handback / logowner / statusdom", "path": "rules/handback.py", "serves_properties": ["C12", "C09", "C11"], "kind_free_text": "hand-back integrity dataflow (handback.py), ownership of the in-memory rollback log (logowner.py), finite-domain evaluation of overlay status predicates (statusdom.py)"},
    {"name": "E4 lockgraph", "path": "rules/lockgraph.py", "serves_properties": ["C15"], "kind_free_text": "lock-order graph and access-lock rules"},
    {"name": "E5 panicfree", "path": "rules/panicfree.py", "serves_properties": ["C18"], "kind_free_text": "panic-site inventory with guard/invariant discharge"},
    {"name": "E5-T termination", "path": "rules/termination.py", "serves_properties": ["C18"], "kind_free_text": "loop classification (finite iterator types, counter / pop structure), recursion measure"},
    {"name": "E9 reclaim", "path": "rules/reclaim.py", "serves_properties": ["C19"], "kind_free_text": "occupancy counter pairing / ownership, freed-page flow to the free list, reuse before growth, overflow-cell release chain"},
    {"name": "E10 mergefront / shadow", "path": "rules/mergefront.py", "serves_properties": ["C11", "C09"], "kind_free_text": "frontier dataflow for the stored-leaves/overlay merge of the elided-subtree reconstruction (mergefront.py); overlay hit is final, stale index entries skipped, stored items filtered by overlay deletions (shadow.py); delta codec variant rule (codec.py)"},
    {"name": "E6 vguard", "path": "rules/vguard.py", "serves_properties": ["C08"], "kind_free_text": "acceptance gated by checks"},
    {"name": "E7 dirlock", "path": "rules/dirlock.py", "serves_properties": ["C20"], "kind_free_text": "lock-before-touch dominance, flag constants, lifetime"},
    {"name": "E8 witness", "path": "witness/", "serves_properties": ["C08", "C12", "C15"], "kind_free_text": "compile_fail doctests with compiling twins (cargo +nightly test --doc)"},
]

NOTES = (
    "Technique family: static analysis only. No check runs the database. All claimed checks are level 'other': a sound static "
    "decision of a named structural necessary condition of the property (see DESIGN.md 2). Exit 2 = check broken (anchor/floor/compile). "
    "known_findings.json lists genuine defects recorded rather than repaired (exact keys) and the fix: commits made in /repo."
)
