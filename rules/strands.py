# Strand model shared by E1 (syncorder) and E2 (errflow): asynchronous activities with a completion
# handle.  (i) task: spawn_task(pool, closure, tx) / join_task(&rx); identity = the channel creation
# site of tx/rx (both halves of one crossbeam bounded()/unbounded() call);
# (ii) fsyncer: Fsyncer::fsync(&f) / Fsyncer::wait(&f); identity = the (owner, field) holding it;
# (iii) io write: IoHandle::send(Write*) / drain loop (IoHandle::recv with .result checked).
from core import roots, xtrace, trace, CheckBroken

SPAWN = "nomt::task::spawn_task"
JOIN = "nomt::task::join_task"
CHAN_CTORS = ("crossbeam_channel::channel::bounded", "crossbeam_channel::channel::unbounded")


class Strands:
    def __init__(self, facts):
        self.facts = facts
        self._field_chan = None
        self.spawns = []  # dict(body, bb, term, chan: set((fn,bb)), task: closure id or None)
        self.joins = []  # dict(body, bb, term, chan)
        self._scan()

    # ---- channel identity ----------------------------------------------------------------
    def field_chan(self):
        """(owner ADT, field) -> set of ((fn, bb), half)   from every ADT aggregate whose operand
        traces to one half of a channel constructor call."""
        if self._field_chan is None:
            m = {}
            for body in self.facts.bodies.values():
                if body.crate != "nomt":
                    continue
                for b in range(body.n):
                    for s in body.stmts(b):
                        if s["k"] != "assign" or s["rv"]["k"] != "agg" or s["rv"].get("ak") != "adt":
                            continue
                        rv = s["rv"]
                        if rv.get("name") in ("core::option::Option", "core::result::Result"):
                            continue
                        for fname, op in zip(rv.get("fields", []), rv["ops"]):
                            for r in xtrace(self.facts, body, op, depth=4):
                                if r.kind == "call" and r.what in CHAN_CTORS and r.fields[:1] in (("0",), ("1",)):
                                    m.setdefault((rv["name"], fname), set()).add(((r.body, r.bb), r.fields[0]))
            # stores through a guard / reference: `*guard = Some(rx)` where guard derefs to a field
            for body in self.facts.bodies.values():
                if body.crate != "nomt":
                    continue
                for b in range(body.n):
                    for s in body.stmts(b):
                        if s["k"] != "assign" or s["pl"].get("p") != ["*"]:
                            continue
                        dest_paths = [r.path for r in roots(body, {"l": s["pl"]["l"]}) if r.path and r.path[-1][1]]
                        if not dest_paths:
                            continue
                        srcs = set()
                        rv = s["rv"]
                        ops = rv.get("ops", []) + ([rv["op"]] if "op" in rv else [])
                        for op in ops:
                            for r in xtrace(self.facts, body, op, depth=4):
                                if r.kind == "call" and r.what in CHAN_CTORS and r.fields[:1] in (("0",), ("1",)):
                                    srcs.add(((r.body, r.bb), r.fields[0]))
                        for dp in dest_paths:
                            f, o = dp[-1]
                            if srcs:
                                m.setdefault((o, f), set()).update(srcs)
            self._field_chan = m
        return self._field_chan

    def chan_identity(self, body, op):
        """set of ((fn, bb), half) channel-creation identities an operand may denote"""
        ids = set()
        fc = self.field_chan()
        for r in xtrace(self.facts, body, op, depth=5):
            if r.kind == "call" and r.what in CHAN_CTORS and r.fields[:1] in (("0",), ("1",)):
                ids.add(((r.body, r.bb), r.fields[0]))
            # a field path: look for the last (owner, field) that is a known channel field
            for (f, o) in reversed(r.path):
                if (o, f) in fc:
                    ids |= fc[(o, f)]
                    break
        return ids

    def _scan(self):
        for body in self.facts.bodies.values():
            if body.crate != "nomt":
                continue
            for b, t in body.calls():
                c = t.get("callee")
                if c == SPAWN:
                    chan = {site for (site, half) in self.chan_identity(body, t["args"][2])}
                    task = None
                    for r in roots(body, t["args"][1]):
                        if r.kind == "agg" and r.obj and r.obj.get("ak") == "closure":
                            task = r.obj["name"]
                        elif r.kind == "const" and r.obj and r.obj.get("def"):
                            task = r.obj["def"]
                    self.spawns.append({"body": body, "bb": b, "term": t, "chan": chan, "task": task})
                elif c == JOIN:
                    chan = {site for (site, half) in self.chan_identity(body, t["args"][0])}
                    self.joins.append({"body": body, "bb": b, "term": t, "chan": chan})

    def joins_of(self, chan):
        return [j for j in self.joins if j["chan"] & chan]
