# S1 overlay shadowing (C11: a session on a chain of overlays reads as if the chain had been committed; C09: the reverse delta
# of an overlay commit records the prior the chain implies)
#
# `LiveOverlay::value(key)` answers with `Some(change)` when an ancestor overlay wrote OR DELETED the key, and `None` when the
# chain says nothing about it.  A hit is final - in particular a delete must read as "absent", not fall through to the value
# still on disk.  Rule: in every function that consults `LiveOverlay::value`, each fall-back read of the store
# (`Store::load_value`, `beatree::ReadTransaction::lookup*`) is reachable only through the None edge of a branch taken
# DIRECTLY on that lookup's result; the fall-back must not be reachable from the edge on which the overlay had an entry.
from core import trace, CheckBroken

LOOKUP = "nomt::overlay::LiveOverlay::value"
STORE_READS = ("nomt::store::Store::load_value", "nomt::beatree::ReadTransaction::lookup", "nomt::beatree::ReadTransaction::lookup_async", "nomt::beatree::ReadTransaction::lookup_blocking")


def run(facts, rep):
    n = 0
    users = 0
    for body in facts.bodies.values():
        if body.crate != "nomt" or "::tests::" in body.id:
            continue
        looks = [b for b, t in body.calls() if t.get("callee") == LOOKUP and not body.is_cleanup(b)]
        if not looks:
            continue
        reads = [(b, t) for b, t in body.calls() if (t.get("callee") or "") in STORE_READS and not body.is_cleanup(b)]
        if not reads:
            continue
        users += 1
        short = body.id.split("::", 1)[1]
        cleanup = {b for b in range(body.n) if body.is_cleanup(b)}
        for vb in looks:
            # branches taken directly on the lookup's result
            direct = []
            for sb in range(body.n):
                t = body.term(sb)
                if t["k"] != "switch" or body.is_cleanup(sb):
                    continue
                if any(r.kind == "call" and r.bb == vb and r.fields == ("<discr>",) for r in trace(body, t["d"])):
                    direct.append(sb)
            for (rb, rt) in reads:
                if rb not in body.reachable(body.succ(vb), cleanup):
                    continue
                n += 1
                ok = False
                why = "no branch is taken directly on the result of LiveOverlay::value before the store is read"
                for sb in direct:
                    t = body.term(sb)
                    some_t = [tb for (v, tb) in t["vals"] if v == "1"]
                    none_t = [tb for (v, tb) in t["vals"] if v == "0"]
                    if not some_t and none_t:
                        some_t = [t["else"]]
                    elif not none_t and some_t:
                        none_t = [t["else"]]
                    if not some_t or not none_t:
                        continue
                    if body.dominates(sb, rb) and rb not in body.reachable(some_t, cleanup) and rb in body.reachable(none_t, cleanup):
                        ok = True
                        why = "store read at %s only on the None edge of the branch at bb%d" % (rt.get("ln"), sb)
                    else:
                        why = "the store read at %s is reachable from the edge on which the overlay HAD an entry (bb%d)" % (rt.get("ln"), sb)
                rep.check(ok, "S1", short, "fallback=%s" % rt["callee"].rsplit("::", 1)[1], "an overlay hit is not final in %s: %s - a key deleted (or written) in an uncommitted ancestor would be answered from the store" % (short, why), site=rt.get("ln"), detail=why)
    return users, n
