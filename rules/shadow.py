# S1 overlay shadowing (C11: a session on a chain of overlays reads as if the chain had been committed; C09: the reverse delta
# of an overlay commit records the prior the chain implies)
#
# `LiveOverlay::value(key)` answers with `Some(change)` when an ancestor overlay wrote OR DELETED the key, and `None` when the
# chain says nothing about it.  A hit is final - in particular a delete must read as "absent", not fall through to the value
# still on disk.  Rule: in every function that consults `LiveOverlay::value`, each fall-back read of the store
# (`Store::load_value`, `beatree::ReadTransaction::lookup*`) is reachable only through the None edge of a branch taken
# DIRECTLY on that lookup's result; the fall-back must not be reachable from the edge on which the overlay had an entry.
import re
from core import trace, CheckBroken

LOOKUP = "nomt::overlay::LiveOverlay::value"
STORE_READS = ("nomt::store::Store::load_value", "nomt::beatree::ReadTransaction::lookup", "nomt::beatree::ReadTransaction::lookup_async", "nomt::beatree::ReadTransaction::lookup_blocking")


def lookups(facts):
    """LiveOverlay::value and the Option-returning methods of LiveOverlay that hand its answer on (`read_value(key)` =
    `self.value(key).map(..)`): None still means "the chain says nothing about the key" """
    out = {LOOKUP}
    for i, b in facts.bodies.items():
        if not i.startswith("nomt::overlay::LiveOverlay::") or b.kind == "Closure" or i == LOOKUP or not b.local_ty(0).startswith("core::option::Option<"):
            continue
        if not any(t.get("callee") == LOOKUP for _bb, t in b.calls()):
            continue
        # the returned Option is the lookup's, through variant-preserving plumbing
        work, seen, ok = [{"k": "copy", "pl": {"l": 0}}], 0, False
        while work and seen < 8 and not ok:
            cur = work.pop()
            seen += 1
            for r in trace(b, cur):
                if r.kind in ("call", "via") and str(r.what) == LOOKUP:
                    ok = True
                elif r.kind in ("call", "via") and r.obj is not None and r.obj.get("args") and str(r.what).startswith("core::option::Option") and str(r.what).rsplit("::", 1)[-1] in ("map", "cloned", "copied", "as_ref", "as_deref", "inspect"):
                    work.append(r.obj["args"][0])
        if ok:
            out.add(i)
    return out


def run(facts, rep):
    n = 0
    users = 0
    LOOKS = lookups(facts)
    for body in facts.bodies.values():
        if body.crate != "nomt" or "::tests::" in body.id or body.id in LOOKS:
            continue
        looks = [b for b, t in body.calls() if t.get("callee") in LOOKS and not body.is_cleanup(b)]
        if not looks:
            continue
        reads = [(b, t) for b, t in body.calls() if (t.get("callee") or "") in STORE_READS and not body.is_cleanup(b)]
        if not reads:
            continue
        users += 1
        short = body.id.split("::", 1)[1]
        cleanup = {b for b in range(body.n) if body.is_cleanup(b)}
        for vb in looks:
            # branches taken directly on the lookup's result
            direct = []
            for sb in range(body.n):
                t = body.term(sb)
                if t["k"] != "switch" or body.is_cleanup(sb):
                    continue
                if any(r.kind == "call" and r.bb == vb and r.fields == ("<discr>",) for r in trace(body, t["d"])):
                    direct.append(sb)
            for (rb, rt) in reads:
                if rb not in body.reachable(body.succ(vb), cleanup):
                    continue
                n += 1
                ok = False
                why = "no branch is taken directly on the result of LiveOverlay::value before the store is read"
                for sb in direct:
                    t = body.term(sb)
                    some_t = [tb for (v, tb) in t["vals"] if v == "1"]
                    none_t = [tb for (v, tb) in t["vals"] if v == "0"]
                    if not some_t and none_t:
                        some_t = [t["else"]]
                    elif not none_t and some_t:
                        none_t = [t["else"]]
                    if not some_t or not none_t:
                        continue
                    if body.dominates(sb, rb) and rb not in body.reachable(some_t, cleanup) and rb in body.reachable(none_t, cleanup):
                        ok = True
                        why = "store read at %s only on the None edge of the branch at bb%d" % (rt.get("ln"), sb)
                    else:
                        why = "the store read at %s is reachable from the edge on which the overlay HAD an entry (bb%d)" % (rt.get("ln"), sb)
                rep.check(ok, "S1", short, "fallback=%s" % rt["callee"].rsplit("::", 1)[1], "an overlay hit is not final in %s: %s - a key deleted (or written) in an uncommitted ancestor would be answered from the store" % (short, why), site=rt.get("ln"), detail=why)
    return users, n


# ---- S8: stale index entries are skipped, they do not end the view -----------------------------------
# The overlay index keeps, per key, the sequence number of the overlay that last wrote it; entries of ancestors that have been
# committed in the meantime (`seqn < min_seqn`) are STALE and must be skipped.  Iteration over the index ends only at the
# range bound.  Rule: in the methods of LiveOverlay, a closure handed to an adapter that ENDS the iteration (take_while,
# map_while, scan, skip_while's dual ..) does not consult `min_seqn`; the staleness test belongs in a skipping adapter
# (filter / filter_map).  A fused `map_while(|..| { ..checked_sub(min_seqn)?.. })` stops at the first stale entry and hides
# every live change that sorts after it.
ENDING_ADAPTERS = ("take_while", "map_while", "scan", "try_for_each", "try_fold", "find_map", "position")


def s8(facts, rep):
    n = 0
    seen = 0
    for body in facts.bodies.values():
        if body.crate != "nomt" or not body.id.startswith("nomt::overlay::LiveOverlay::") or "::tests::" in body.id:
            continue
        for b, t in body.calls():
            c = t.get("callee") or ""
            m = c.rsplit("::", 1)[-1]
            if "iter" not in c.lower() or m not in ENDING_ADAPTERS:
                continue
            for a in t["args"][1:]:
                for r in trace(body, a):
                    if r.kind == "agg" and r.obj is not None and r.obj.get("ak") == "closure" and r.obj.get("name") in facts.bodies:
                        cb = facts.bodies[r.obj["name"]]
                        seen += 1
                        n += 1
                        reads = False
                        for bb in range(cb.n):
                            for s_ in cb.stmts(bb):
                                if s_["k"] == "assign" and "min_seqn" in repr(s_["rv"]):
                                    reads = True
                            tt = cb.term(bb)
                            if tt["k"] == "call" and any("min_seqn" in repr(x) for x in tt["args"]):
                                reads = True
                        short = body.id.split("::", 1)[1]
                        rep.check(not reads, "S8", short, "ending-adapter|%s" % m, "the closure handed to `%s` at %s consults min_seqn: a stale index entry (an ancestor committed in the meantime) ends the iteration instead of being skipped, hiding every live overlay change that sorts after it" % (m, t.get("ln")), site=t.get("ln"), detail="`%s` ends the iteration on the range bound only" % m)
    n += 1
    rep.ok("S8", "overlay::LiveOverlay", "ending-adapters", detail="%d closure(s) handed to iteration-ending adapters inspected" % seen)
    return n


# ---- S9: a stored leaf is the completed leaf only after the overlay's deletions were consulted ------
# `SeekRequest::continue_leaf_fetch` looks for the stored leaf that terminates a seek.  The items come from the beatree
# iterator (the state ON DISK); keys deleted by an uncommitted ancestor are carried in the request's `overlay_deletions` and
# must be skipped - whatever the item's kind (inline value or overflow value).  Rule: on every path from the iterator's
# `next()` to the construction of the completed `LeafData`, a call receives BOTH the deletions and the item (the filter:
# `manage_deletions(&overlay_deletions, idx, &key)`, a binary search, a direct comparison ..), its result decides a branch, and
# one edge of that branch goes back for the next item without completing.
S9_FN = "nomt::merkle::seek::SeekRequest::continue_leaf_fetch"
S9_NEXT = "nomt::beatree::iterator::BeatreeIterator::next"
S9_LEAF = "nomt_core::trie::LeafData"
S9_FIELD = "overlay_deletions"


def _deep_roots(body, op, depth=0, seen=None):
    """roots of every value `op` is computed from: through aggregates, call arguments and binops"""
    if seen is None:
        seen = set()
    out = []
    if depth > 6:
        return out
    for r in trace(body, op, deep=True):
        if r.key() in seen:
            continue
        seen.add(r.key())
        out.append(r)
        if r.kind in ("call", "via") and r.obj is not None:
            for a in r.obj.get("args", []):
                out += _deep_roots(body, a, depth + 1, seen)
        elif r.kind == "binop" and r.obj is not None:
            for kk in ("a", "b"):
                if kk in r.obj:
                    out += _deep_roots(body, r.obj[kk], depth + 1, seen)
    return out


def s9(facts, rep):
    body = facts.bodies.get(S9_FN)
    if body is None:
        raise CheckBroken("anchor missing: %s" % S9_FN)
    short = body.id.split("::", 1)[1]
    cleanup = {b for b in range(body.n) if body.is_cleanup(b)}
    nexts = [b for b, t in body.calls() if t.get("callee") == S9_NEXT and b not in cleanup]
    targets = []
    for b in range(body.n):
        if b in cleanup:
            continue
        for s_ in body.stmts(b):
            if s_["k"] == "assign" and s_["rv"]["k"] == "agg" and s_["rv"].get("name") == S9_LEAF:
                if any(r.kind == "call" and str(r.what) == S9_NEXT for o in s_["rv"]["ops"] for r in _deep_roots(body, o)):
                    targets.append(b)
    uses_field = S9_FIELD in repr([body.stmts(b) for b in range(body.n) if b not in cleanup])
    if not nexts or not targets or not uses_field:
        rep.notes.append("S9: %s no longer has the shape `item = beatree_iterator.next(); .. LeafData{key_path: item.key}` over a request carrying `overlay_deletions` (next calls: %d, completions: %d, deletions referenced: %s): not decided" % (short, len(nexts), len(targets), uses_field))
        return 0

    def is_del(r):
        return r.kind in ("param", "upvar") and S9_FIELD in r.fields

    def is_item(r):
        return r.kind == "call" and str(r.what) == S9_NEXT

    filters = []
    for b, t in body.calls():
        if b in cleanup or b in nexts or not t.get("args"):
            continue
        roots = [r for a in t["args"] for r in _deep_roots(body, a)]
        if not (any(is_del(r) for r in roots) and any(is_item(r) for r in roots)):
            continue
        # the result decides a branch with an edge that goes back for the next item without completing
        decided = False
        for sb in range(body.n):
            st = body.term(sb)
            if st["k"] != "switch" or sb in cleanup or not body.dominates(b, sb):
                continue
            if not any(r.kind == "call" and r.bb == b for r in _deep_roots(body, st["d"])):
                continue
            for e in body.succ(sb):
                if e in cleanup:
                    continue
                reach = body.reachable_flags([e], cleanup | set(nexts))
                if not any(tb in reach for tb in targets) and any(nb in body.reachable([e], cleanup) for nb in nexts):
                    decided = True
        if decided:
            filters.append(b)
    # the guard of a filter written inline (`while idx < deletions.len() { match key.cmp(&deletions[idx]) .. }`): a branch on
    # the deletions alone, one edge of which leads to a filter call - when no deletion is left there is nothing to compare
    guards = []
    for sb in range(body.n):
        st = body.term(sb)
        if st["k"] != "switch" or sb in cleanup:
            continue
        roots = _deep_roots(body, st["d"])
        if not any(is_del(r) for r in roots) or any(is_item(r) for r in roots):
            continue
        if any(set(filters) & body.reachable([e], cleanup | set(nexts) | set(targets)) for e in body.succ(sb) if e not in cleanup):
            guards.append(sb)
    filters_and_guards = set(filters) | set(guards)
    n = 0
    for nb in nexts:
        reach = body.reachable(body.succ(nb), cleanup | filters_and_guards | set(nexts))
        for tb in targets:
            n += 1
            bad = tb in reach
            path = ""
            if bad:
                # name the item kinds whose arm reaches the completion unfiltered
                kinds = set()
                for b in sorted(reach):
                    if tb in body.reachable([b], cleanup | filters_and_guards | set(nexts)):
                        kinds |= set(re.findall(r"@(\w*Item)\b", repr(body.stmts(b))))
                if kinds:
                    path = " (item kind: %s)" % ", ".join(sorted(kinds))
            rep.check(not bad, "S9", short, "item-filtered-by-overlay-deletions", "in %s a stored item returned by the beatree iterator at %s can become the completed leaf without being checked against the overlay's deletions%s: a key deleted in an uncommitted ancestor is proved / hashed as if it still existed" % (short, body.term(nb).get("ln"), path), site=body.term(nb).get("ln"), detail="every path next() -> LeafData passes one of the %d filter call(s) at bb%s whose result can send the loop back for the next item (or the filter's own guard on the deletions at bb%s)" % (len(filters), filters, guards))
    return n


# ---- S10: every updated merkle page is handed on ------------------------------------------------------
# A session's merkle update produces the set of changed pages (`UpdatedPages`); committing it directly and parking it in an
# overlay that is committed later must give the store the same pages - including the CLEARED ones, whose bucket is only known
# (and released) at commit time.  Rule: `UpdatedPages::into_frozen_iter` and the page arguments the commit entry points hand
# to `Store::commit` / the overlay are built with element-preserving adapters only; an adapter that can drop an element
# (filter, filter_map, skip, take, take_while, map_while, step_by, zip ..) is a violation.
S10_FN = "nomt::merkle::UpdatedPages::into_frozen_iter"
DROPPING_ADAPTERS = ("filter", "filter_map", "skip", "skip_while", "take", "take_while", "map_while", "step_by", "zip", "scan", "flat_map", "dedup", "dedup_by", "dedup_by_key", "retain", "truncate", "drain", "nth", "last")


def s10(facts, rep):
    body = facts.bodies.get(S10_FN)
    if body is None:
        raise CheckBroken("anchor missing: %s" % S10_FN)
    short = body.id.split("::", 1)[1]
    n = 0
    fam = [body] + [b for i, b in facts.bodies.items() if i.startswith(S10_FN + "::{closure")]
    loops = any(body.dominates(s_, b_) for b_ in range(body.n) for s_ in body.succ(b_) if not body.is_cleanup(b_))
    if loops:
        rep.notes.append("S10: %s is no longer a chain of iterator adapters (it has a loop): not decided" % short)
        return 0
    bad = []
    seen = []
    for bd in fam[:1]:
        for b, t in bd.calls():
            c = t.get("callee") or ""
            if bd.is_cleanup(b):
                continue
            m = c.rsplit("::", 1)[-1]
            if "iter" in c.lower() or c.startswith(("alloc::vec::Vec", "core::slice")):
                seen.append(m)
                if m in DROPPING_ADAPTERS:
                    bad.append((m, t.get("ln")))
    n += 1
    rep.check(not bad, "S10", short, "element-preserving-adapters", "%s builds the pages handed to the store / the overlay with `%s` (at %s), which can drop an updated page: a page cleared in an overlay whose bucket is not known yet would never be released at commit, so the chain's commit differs from direct commits" % (short, ", ".join(m for m, _l in bad), ", ".join(str(l) for _m, l in bad)), site=body.span, detail="adapters used: %s" % ", ".join(seen))
    return n


# ---- S12: an ancestor's data is picked by the position the index gives ---------------------------------
# The overlay index maps each key to the sequence number of the overlay that LAST wrote it; the read methods of LiveOverlay
# turn that number into a position in `ancestor_data` (most recent first).  Any other way of picking an ancestor - `last()`,
# `first()`, iterating and taking the first hit, a constant position - can return the version of an OLDER ancestor although a
# younger one rewrote or deleted the key.  Rule: in the read methods of LiveOverlay (everything but `new` and `finish`) the
# vector `ancestor_data` is only measured (`len`, `is_empty`) or indexed (`[i]`, `get(i)` with a computed `i`).
S12_ALLOWED = ("len", "is_empty", "index", "deref", "as_slice", "as_ref", "borrow", "clone")


def s12(facts, rep):
    n = 0
    seen = 0
    for body in facts.bodies.values():
        if body.crate != "nomt" or not body.id.startswith("nomt::overlay::LiveOverlay::") or "::tests::" in body.id:
            continue
        base = body.id.split("::{closure")[0]
        if base.endswith(("::new", "::finish")):
            continue
        short = body.id.split("::", 1)[1]
        for b, t in body.calls():
            if body.is_cleanup(b) or not t.get("args"):
                continue
            rs = trace(body, t["args"][0])
            if not any("ancestor_data" in r.fields and r.kind in ("param", "upvar") for r in rs):
                # through deref plumbing: `(*self.ancestor_data).last()` goes through Vec::deref first
                if not any(r.kind in ("call", "via") and r.obj is not None and r.obj.get("args") and str(r.what).rsplit("::", 1)[-1] in ("deref", "as_slice") and any("ancestor_data" in x.fields and x.kind in ("param", "upvar") for x in trace(body, r.obj["args"][0])) for r in rs):
                    continue
            m = (t.get("callee") or "").rsplit("::", 1)[-1]
            seen += 1
            if m in S12_ALLOWED:
                if m in ("index",) and len(t["args"]) > 1 and t["args"][1].get("k") == "const":
                    pass
                else:
                    continue
            if m == "get" and len(t["args"]) > 1 and t["args"][1].get("k") != "const":
                continue
            n += 1
            rep.violation("S12", short, "ancestor-picked-by=%s" % m, "%s picks an ancestor's data with `%s` at %s instead of the position computed from the index's sequence number: the version of an older ancestor can be returned although a younger ancestor rewrote or deleted the key" % (short, m, t.get("ln")), site=t.get("ln"))
    n += 1
    rep.ok("S12", "overlay::LiveOverlay", "ancestor-data-by-position", detail="%d use(s) of ancestor_data in the read methods inspected: measured or indexed only" % seen)
    return n
