# S1 overlay shadowing (C11: a session on a chain of overlays reads as if the chain had been committed; C09: the reverse delta
# of an overlay commit records the prior the chain implies)
#
# `LiveOverlay::value(key)` answers with `Some(change)` when an ancestor overlay wrote OR DELETED the key, and `None` when the
# chain says nothing about it.  A hit is final - in particular a delete must read as "absent", not fall through to the value
# still on disk.  Rule: in every function that consults `LiveOverlay::value`, each fall-back read of the store
# (`Store::load_value`, `beatree::ReadTransaction::lookup*`) is reachable only through the None edge of a branch taken
# DIRECTLY on that lookup's result; the fall-back must not be reachable from the edge on which the overlay had an entry.
from core import trace, CheckBroken

LOOKUP = "nomt::overlay::LiveOverlay::value"
STORE_READS = ("nomt::store::Store::load_value", "nomt::beatree::ReadTransaction::lookup", "nomt::beatree::ReadTransaction::lookup_async", "nomt::beatree::ReadTransaction::lookup_blocking")


def run(facts, rep):
    n = 0
    users = 0
    for body in facts.bodies.values():
        if body.crate != "nomt" or "::tests::" in body.id:
            continue
        looks = [b for b, t in body.calls() if t.get("callee") == LOOKUP and not body.is_cleanup(b)]
        if not looks:
            continue
        reads = [(b, t) for b, t in body.calls() if (t.get("callee") or "") in STORE_READS and not body.is_cleanup(b)]
        if not reads:
            continue
        users += 1
        short = body.id.split("::", 1)[1]
        cleanup = {b for b in range(body.n) if body.is_cleanup(b)}
        for vb in looks:
            # branches taken directly on the lookup's result
            direct = []
            for sb in range(body.n):
                t = body.term(sb)
                if t["k"] != "switch" or body.is_cleanup(sb):
                    continue
                if any(r.kind == "call" and r.bb == vb and r.fields == ("<discr>",) for r in trace(body, t["d"])):
                    direct.append(sb)
            for (rb, rt) in reads:
                if rb not in body.reachable(body.succ(vb), cleanup):
                    continue
                n += 1
                ok = False
                why = "no branch is taken directly on the result of LiveOverlay::value before the store is read"
                for sb in direct:
                    t = body.term(sb)
                    some_t = [tb for (v, tb) in t["vals"] if v == "1"]
                    none_t = [tb for (v, tb) in t["vals"] if v == "0"]
                    if not some_t and none_t:
                        some_t = [t["else"]]
                    elif not none_t and some_t:
                        none_t = [t["else"]]
                    if not some_t or not none_t:
                        continue
                    if body.dominates(sb, rb) and rb not in body.reachable(some_t, cleanup) and rb in body.reachable(none_t, cleanup):
                        ok = True
                        why = "store read at %s only on the None edge of the branch at bb%d" % (rt.get("ln"), sb)
                    else:
                        why = "the store read at %s is reachable from the edge on which the overlay HAD an entry (bb%d)" % (rt.get("ln"), sb)
                rep.check(ok, "S1", short, "fallback=%s" % rt["callee"].rsplit("::", 1)[1], "an overlay hit is not final in %s: %s - a key deleted (or written) in an uncommitted ancestor would be answered from the store" % (short, why), site=rt.get("ln"), detail=why)
    return users, n


# ---- S8: stale index entries are skipped, they do not end the view -----------------------------------
# The overlay index keeps, per key, the sequence number of the overlay that last wrote it; entries of ancestors that have been
# committed in the meantime (`seqn < min_seqn`) are STALE and must be skipped.  Iteration over the index ends only at the
# range bound.  Rule: in the methods of LiveOverlay, a closure handed to an adapter that ENDS the iteration (take_while,
# map_while, scan, skip_while's dual ..) does not consult `min_seqn`; the staleness test belongs in a skipping adapter
# (filter / filter_map).  A fused `map_while(|..| { ..checked_sub(min_seqn)?.. })` stops at the first stale entry and hides
# every live change that sorts after it.
ENDING_ADAPTERS = ("take_while", "map_while", "scan", "try_for_each", "try_fold", "find_map", "position")


def s8(facts, rep):
    n = 0
    seen = 0
    for body in facts.bodies.values():
        if body.crate != "nomt" or not body.id.startswith("nomt::overlay::LiveOverlay::") or "::tests::" in body.id:
            continue
        for b, t in body.calls():
            c = t.get("callee") or ""
            m = c.rsplit("::", 1)[-1]
            if "iter" not in c.lower() or m not in ENDING_ADAPTERS:
                continue
            for a in t["args"][1:]:
                for r in trace(body, a):
                    if r.kind == "agg" and r.obj is not None and r.obj.get("ak") == "closure" and r.obj.get("name") in facts.bodies:
                        cb = facts.bodies[r.obj["name"]]
                        seen += 1
                        n += 1
                        reads = False
                        for bb in range(cb.n):
                            for s_ in cb.stmts(bb):
                                if s_["k"] == "assign" and "min_seqn" in repr(s_["rv"]):
                                    reads = True
                            tt = cb.term(bb)
                            if tt["k"] == "call" and any("min_seqn" in repr(x) for x in tt["args"]):
                                reads = True
                        short = body.id.split("::", 1)[1]
                        rep.check(not reads, "S8", short, "ending-adapter|%s" % m, "the closure handed to `%s` at %s consults min_seqn: a stale index entry (an ancestor committed in the meantime) ends the iteration instead of being skipped, hiding every live overlay change that sorts after it" % (m, t.get("ln")), site=t.get("ln"), detail="`%s` ends the iteration on the range bound only" % m)
    n += 1
    rep.ok("S8", "overlay::LiveOverlay", "ending-adapters", detail="%d closure(s) handed to iteration-ending adapters inspected" % seen)
    return n
