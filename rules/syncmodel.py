# Happens-before model over the call/spawn structure (shared by the O-rules of syncorder.py).
#
# items_at(F, P): for every file event that may have STARTED when control reaches point P of function
# F on a success path (P = a block, or 'ret' = F's Ok returns), the set of things that are still
# PENDING at P for that event to be complete:
#     ('task', chan)            a spawned task not (provably) joined before P
#     ('fsync', owner, field)   a background fsync requested but not waited for
#     ('io', event-id)          an asynchronous page write not drained
#     ('unchecked', F, G)       a fallible callee whose result is not checked, so its internal joins
#                               cannot be relied on
#     ('detached', closure)     a closure handed to a thread pool without completion handle
# A pending p of an item that entered F at site c is discharged at P iff some discharging site d of p
# in F lies on EVERY success path from c to P (must-pass-through: deleting d's gate block makes P
# unreachable from c in the Ok-pruned CFG).  For a discharger inside a loop that does not contain c
# the gate is the loop header (which executes even for zero iterations) and the loop must have the
# shape "every iteration passes d; exits only from blocks dominating d"; that the trip counts of the
# paired loops agree is ASSUMED (class A-count) and listed in evidence.
from core import xtrace, roots, trace, CheckBroken
import strands as strands_mod
from errflow import UseIndex

FSYNC_REQ = "nomt::io::fsyncer::Fsyncer::fsync"
FSYNC_WAIT = "nomt::io::fsyncer::Fsyncer::wait"
IO_SEND = "nomt::io::IoHandle::send"
IO_RECV = ("nomt::io::IoHandle::recv", "nomt::io::IoHandle::try_recv")
DETACH = ("threadpool::ThreadPool::execute", "std::thread::Builder::spawn", "std::thread::spawn", "std::thread::Builder::spawn_unchecked")


class Item:
    __slots__ = ("event", "pend", "chain", "needed")

    def __init__(self, event, pend, chain, needed=False):
        self.event = event
        self.pend = frozenset(pend)
        self.chain = tuple(chain)
        self.needed = needed or bool(pend)


class Edge:
    __slots__ = ("kind", "bb", "target", "sid", "ln")

    def __init__(self, kind, bb, target, sid, ln):
        self.kind = kind
        self.bb = bb
        self.target = target
        self.sid = sid
        self.ln = ln


class SyncModel:
    def __init__(self, facts, st, events):
        self.facts = facts
        self.st = st
        self.events = events
        self.ev_by_body = {}
        for e in events:
            self.ev_by_body.setdefault(e.body.id, []).append(e)
        self._edges = {}
        self._summary = {}
        self._inprog = set()
        self._done = {}
        self._loops = {}
        self._ui = {}
        self._family = {}
        self.assumed_counts = []  # A-count pairings used
        self.spawn_at = {(s["body"].id, s["bb"]): s for s in st.spawns}
        self.join_at = {(j["body"].id, j["bb"]): j for j in st.joins}

    # ---- helpers -------------------------------------------------------------------------
    def ui(self, body):
        if body.id not in self._ui:
            self._ui[body.id] = UseIndex(body)
        return self._ui[body.id]

    def fallible(self, ty):
        return ty.startswith("core::result::Result<")

    def ok_implied(self, body, bb):
        """F continuing normally past the call at bb implies the callee returned Ok"""
        t = body.term(bb)
        d = t["dest"]
        ty = body.place_ty(d)
        if not self.fallible(ty):
            return True
        if d["l"] == 0 and not d.get("p"):
            return True
        if d.get("p"):
            return False
        return self._checked_local(body, d["l"], set())

    def _checked_local(self, body, l, seen):
        if l in seen:
            return False
        seen.add(l)
        for (kind, b, i, pl, dest, obj) in self.ui(body).of(l):
            if kind == "arg":
                c = obj.get("callee") or ""
                if c.endswith("Try>::branch") or c.endswith("::unwrap") or c.endswith("::expect"):
                    return True
                if c.endswith("::map_err") or c.endswith("::context") or c.endswith("::with_context") or c.endswith("::map") or c.endswith("From>::from") or c.endswith("::into"):
                    dd = obj["dest"]
                    if dd["l"] == 0 and not dd.get("p"):
                        return True
                    if not dd.get("p") and self._checked_local(body, dd["l"], seen):
                        return True
            elif kind == "assign" and dest is not None:
                if dest["l"] == 0 and not dest.get("p"):
                    return True
                if not dest.get("p") and self._checked_local(body, dest["l"], seen):
                    return True
            elif kind == "discr":
                # match: the Err arm must not continue to the success path: accepted when the Err arm
                # is an error block (returns Err) -- approximated by: some err block is reachable only
                # through this switch.  Conservative: accept if function has an Err-constructing block
                # whose value derives from this local.
                for eb in body.err_blocks():
                    for s in body.stmts(eb):
                        if s["k"] == "assign" and s["pl"]["l"] == 0 and s["rv"]["k"] == "agg":
                            for o in s["rv"]["ops"]:
                                if any(r.kind in ("call", "via", "param") and self._same_local(body, r, l) for r in trace(body, o)):
                                    return True
        return False

    def check_sites(self, body, bb, strict=False):
        """blocks in which the Result produced by the call at bb is checked (`?`, unwrap, expect) ; None
        when the callee is infallible ; [] when it is never checked ; ['ret'] when it is returned as is"""
        t = body.term(bb)
        d = t["dest"]
        if not self.fallible(body.place_ty(d)):
            return None
        if d["l"] == 0 and not d.get("p"):
            return ["ret"]
        if d.get("p"):
            return []
        out = []
        seen = set()

        def go(l):
            if l in seen:
                return
            seen.add(l)
            for (kind, b, i, pl, dest, obj) in self.ui(body).of(l):
                if kind == "arg":
                    c = obj.get("callee") or ""
                    if c.endswith("Try>::branch") or c.endswith("::unwrap") or c.endswith("::expect"):
                        out.append(b)
                    elif c.endswith(("::map_err", "::context", "::with_context", "::map", "From>::from", "::into")):
                        dd = obj["dest"]
                        if dd["l"] == 0 and not dd.get("p"):
                            out.append("ret")
                        elif not dd.get("p"):
                            go(dd["l"])
                elif kind == "assign" and dest is not None:
                    if dest["l"] == 0 and not dest.get("p"):
                        out.append("ret")
                    elif not dest.get("p"):
                        go(dest["l"])
                elif kind == "discr" and not strict:
                    out.append(b)

        go(d["l"])
        return out

    def checked_before(self, body, bb, P, strict=False):
        """the result of the call at bb is checked on every success path from bb to P (strict: only by `?` / unwrap /
        expect, where the error cannot continue; a `match` on the result does not count)"""
        cs = self.check_sites(body, bb, strict)
        if cs is None:
            return True
        for c in cs:
            if c == "ret":
                if P == "ret":
                    return True
                continue
            if c == bb:
                return True
            if self.must_pass(body, bb, c, P):
                return True
        return False

    def _same_local(self, body, root, l):
        # the root is the call that defined local l
        for (b, i, kind, obj) in body.defs().get(l, []):
            if kind == "call" and root.bb == b:
                return True
        return False

    def loops(self, body):
        """natural loops: list of (header, blocks set, latches)"""
        if body.id in self._loops:
            return self._loops[body.id]
        doms = body.dominators()
        res = {}
        for b in doms:
            for s in body.succ(b):
                if s in doms.get(b, ()):  # back edge b -> s
                    # loop body: nodes that reach b without passing s
                    blk = {s, b}
                    st = [b]
                    preds = body.preds()
                    while st:
                        x = st.pop()
                        if x == s:
                            continue
                        for p in preds[x]:
                            if p not in blk and p in doms:
                                blk.add(p)
                                st.append(p)
                    if s in res:
                        res[s][0].update(blk)
                        res[s][1].add(b)
                    else:
                        res[s] = [blk, {b}]
        out = [(h, v[0], v[1]) for h, v in res.items()]
        self._loops[body.id] = out
        return out

    def gate(self, body, d, c):
        """gate block for discharger site d relative to entry site c; None if loop shape is not accepted"""
        ls = [(h, blk, lat) for (h, blk, lat) in self.loops(body) if d in blk and (c is None or c not in blk)]
        if not ls:
            return d, None
        # outermost such loop = the one with most blocks
        h, blk, lat = max(ls, key=lambda x: len(x[1]))
        doms = body.dominators()
        if not all(d in doms.get(t, ()) for t in lat):
            return None, "not every iteration of the loop at bb%d passes the join/drain at bb%d" % (h, d)
        rem = body.ok_removed()
        for u in blk:
            for v in body.succ(u):
                if v not in blk and v not in rem:
                    if not (u in doms.get(d, ()) or u == d and False):
                        return None, "loop at bb%d can be left from bb%d, after the join/drain" % (h, u)
        return h, "loop"

    def must_pass(self, body, c, gate, P, stmt_event=False):
        rem = set(body.ok_removed())
        if P == "ret":
            targets = set(body.return_blocks())
        else:
            targets = {P}
        if c is None:
            starts = [0]
        elif stmt_event:
            starts = [c]
        else:
            starts = body.succ(c)
        if gate in starts and not stmt_event:
            pass
        reach_all = body.reachable(starts, rem)
        if not (reach_all & targets):
            return True  # vacuous: P is not reachable on a success path from c
        if stmt_event and gate == c:
            return True
        reach = body.reachable([s for s in starts if s != gate], rem | {gate})
        return not (reach & targets)

    def reaches(self, body, c, P):
        rem = body.ok_removed()
        targets = set(body.return_blocks()) if P == "ret" else {P}
        if c in targets and P != "ret":
            return False
        r = body.reachable(body.succ(c) if body.term(c)["k"] != "return" else [c], rem)
        return bool(r & targets) or (P == "ret" and c in targets)

    # ---- edges ---------------------------------------------------------------------------
    def edges(self, body):
        if body.id in self._edges:
            return self._edges[body.id]
        out = []
        spawned_closures = set()
        detached = set()
        for b, t in body.calls():
            if body.is_cleanup(b):
                continue
            c = t.get("callee") or ""
            if c == strands_mod.SPAWN:
                sp = self.spawn_at.get((body.id, b))
                if sp and sp["task"]:
                    out.append(Edge("spawn", b, sp["task"], ("task", frozenset(sp["chan"])), t.get("ln")))
                    spawned_closures.add(sp["task"])
                continue
            if c in DETACH:
                for a in t["args"]:
                    for r in roots(body, a):
                        if r.kind == "agg" and r.obj and r.obj.get("ak") == "closure":
                            out.append(Edge("detached", b, r.obj["name"], ("detached", r.obj["name"]), t.get("ln")))
                            detached.add(r.obj["name"])
                continue
            if c == FSYNC_REQ:
                out.append(Edge("fsync", b, None, self.fsync_id(body, t["args"][0]), t.get("ln")))
                continue
            if c in (strands_mod.JOIN, FSYNC_WAIT) or c in IO_RECV:
                continue
            if t.get("res") or c in self.facts.bodies:
                if c in self.facts.bodies and self.facts.bodies[c].crate == "nomt":
                    out.append(Edge("sync", b, c, None, t.get("ln")))
            else:
                for cc in self.facts.trait_impl_candidates(t.get("orig", c)):
                    if cc in self.facts.bodies:
                        out.append(Edge("sync", b, cc, None, t.get("ln")))
        for b in range(body.n):
            if body.is_cleanup(b):
                continue
            for s in body.stmts(b):
                if s["k"] == "assign" and s["rv"]["k"] == "agg" and s["rv"].get("ak") == "closure":
                    nm = s["rv"]["name"]
                    if nm in spawned_closures or nm in detached:
                        continue
                    if nm in self.facts.bodies:
                        out.append(Edge("closure", b, nm, None, s.get("ln")))
        self._edges[body.id] = out
        return out

    def fsync_id(self, body, op):
        """identity of a background fsyncer: the field that holds it (the innermost named field on the way to the receiver;
        `sync.bbn_fsync`, or `sync.fsyncers.bbn` when the two are grouped in a struct)"""
        best = None
        for r in xtrace(self.facts, body, op, depth=4):
            named = [(f, o) for (f, o) in r.path if f and not f.isdigit() and not f.startswith("<") and o and (o.startswith("nomt::") or o.startswith("<nomt::"))]
            if named:
                (f, o) = named[-1]
                cand = ("fsync", o, f)
                if best is None or "fsync" in f or any(k in f for k in ("ln", "bbn")):
                    best = cand
        return best or ("fsync", "?", "?")

    # ---- io families ---------------------------------------------------------------------
    def family(self, body, op):
        fam = set()
        for r in xtrace(self.facts, body, op, depth=7):
            if r.kind in ("param", "upvar", "call"):
                fam.add((r.body, r.kind, str(r.what), r.fields))
        return fam

    def event_family(self, e):
        """handle family of an async write event: the IoHandle::send in the same function whose command
        contains the IoKind aggregate"""
        key = id(e)
        if key in self._family:
            return self._family[key]
        body = e.body
        fam = None
        for b, t in body.calls():
            if t.get("callee") == IO_SEND and len(t["args"]) >= 2:
                contains = False
                for r in trace(body, t["args"][1], deep=True):
                    if r.kind == "agg" and r.what.startswith("nomt::io::IoKind::Write") and r.bb == e.bb:
                        contains = True
                if contains:
                    fam = (fam or set()) | self.family(body, t["args"][0])
        if fam is None and body.kind == "Closure" and body.parent in self.facts.bodies:
            fam = self._pipeline_family(e)
        self._family[key] = fam
        return fam

    def _pipeline_family(self, e):
        """`items.map(|x| IoCommand { kind: IoKind::Write(..) , .. }).for_each(|c| handle.send(c).unwrap())`: the command is
        built in one closure and sent by a sibling closure of the same iterator chain in the enclosing function"""
        body = e.body
        par = self.facts.bodies[body.parent]
        if not any(r.kind == "agg" and str(r.what).startswith("nomt::io::IoKind::Write") and r.bb == e.bb for r in trace(body, {"l": 0}, deep=True)):
            return None
        fam = None
        for b, t in par.calls():
            if par.is_cleanup(b) or len(t["args"]) < 2:
                continue
            # a consumer call one of whose closure arguments sends its own parameter ...
            senders = []
            for a in t["args"][1:]:
                for r in trace(par, a):
                    if r.kind == "agg" and r.obj is not None and r.obj.get("ak") == "closure" and r.obj.get("name") in self.facts.bodies and r.obj.get("name") != body.id:
                        c2 = self.facts.bodies[r.obj["name"]]
                        for b2, t2 in c2.calls():
                            if t2.get("callee") == IO_SEND and len(t2["args"]) >= 2 and any(x.kind == "param" and x.what == 2 for x in trace(c2, t2["args"][1])):
                                senders.append((c2, t2))
            if not senders:
                continue
            # ... and whose receiver is an adapter chain that contains the building closure
            def chain_has(op, depth=0):
                if depth > 4:
                    return False
                for r in trace(par, op):
                    if r.kind in ("call", "via") and r.obj is not None:
                        for x in r.obj.get("args", [])[1:]:
                            if any(y.kind == "agg" and y.obj is not None and y.obj.get("name") == body.id for y in trace(par, x)):
                                return True
                        if r.obj.get("args") and chain_has(r.obj["args"][0], depth + 1):
                            return True
                return False

            if chain_has(t["args"][0]):
                for (c2, t2) in senders:
                    fam = (fam or set()) | self.family(c2, t2["args"][0])
        return fam

    def drains(self, body):
        """drain sites: IoHandle::recv whose completion .result is `?`-checked.  returns [(bb, family)]"""
        out = []
        for b, t in body.calls():
            if t.get("callee") in IO_RECV and t["args"]:
                checked = False
                for b2, t2 in body.calls():
                    c2 = t2.get("callee") or ""
                    if c2.endswith("Try>::branch") and t2["args"]:
                        for r in trace(body, t2["args"][0]):
                            if r.kind in ("call",) and r.bb == b and "result" in r.fields:
                                checked = True
                if checked:
                    out.append((b, self.family(body, t["args"][0])))
        return out

    # ---- dischargers ---------------------------------------------------------------------
    def dischargers(self, body, p, stack=()):
        """sites (bb) in body that discharge pending p"""
        out = []
        kind = p[0]
        for b, t in body.calls():
            if body.is_cleanup(b):
                continue
            c = t.get("callee") or ""
            if kind == "task" and c == strands_mod.JOIN:
                j = self.join_at.get((body.id, b))
                if j and (j["chan"] & p[1]) and self.ok_implied(body, b):
                    out.append(b)
            elif kind == "fsync" and c == FSYNC_WAIT:
                if self.fsync_id(body, t["args"][0]) == p and self.ok_implied(body, b):
                    out.append(b)
            elif kind == "io":
                pass
            if c in self.facts.bodies and c not in (strands_mod.JOIN, strands_mod.SPAWN) and self.facts.bodies[c].crate == "nomt" and kind in ("task", "fsync", "io"):
                if c not in stack and self.does_discharge(c, p, stack + (body.id,)) and self.ok_implied(body, b):
                    out.append(b)
        if kind == "io":
            fam = p[2]
            for (b, dfam) in self.drains(body):
                if fam and dfam and (fam & dfam):
                    out.append(b)
        return out

    def does_discharge(self, fn_id, p, stack=()):
        key = (fn_id, p)
        if key in self._done:
            return self._done[key]
        if fn_id in stack or len(stack) > 12:
            return False
        body = self.facts.bodies[fn_id]
        res = False
        for d in self.dischargers(body, p, stack):
            g, why = self.gate(body, d, None)
            if g is None:
                continue
            if body.term(d)["k"] == "call" and (body.term(d).get("callee") or "") not in IO_RECV and not self.checked_before(body, d, "ret"):
                continue
            if self.must_pass(body, None, g, "ret"):
                res = True
                if why == "loop":
                    self.note_count(body, d, p)
                break
        self._done[key] = res
        return res

    def note_count(self, body, d, p):
        s = "%s: loop-paired discharge of %s at bb%d (trip counts assumed equal)" % (body.id, p[0], d)
        if s not in self.assumed_counts:
            self.assumed_counts.append(s)

    def discharge(self, body, c, P, pend, stmt_event=False):
        left = set()
        for p in pend:
            ok = False
            if p[0] in ("task", "fsync", "io"):
                for d in self.dischargers(body, p):
                    g, why = self.gate(body, d, c)
                    if g is None:
                        continue
                    if d == c and not stmt_event:
                        continue
                    if body.term(d)["k"] == "call" and (body.term(d).get("callee") or "") not in IO_RECV and not self.checked_before(body, d, P):
                        continue  # joined / waited, but the outcome is looked at only after P
                    if self.must_pass(body, c, g, P, stmt_event):
                        ok = True
                        if why == "loop":
                            self.note_count(body, d, p)
                        break
            if not ok:
                left.add(p)
        return left

    # ---- items ---------------------------------------------------------------------------
    def summary(self, fn_id):
        """items at the Ok return of fn_id (memoised; recursion is cut at functions in progress)"""
        if fn_id in self._summary:
            return self._summary[fn_id]
        if fn_id in self._inprog or fn_id not in self.facts.bodies:
            return []
        self._inprog.add(fn_id)
        try:
            res = self.items_at(self.facts.bodies[fn_id], "ret")
        finally:
            self._inprog.discard(fn_id)
        self._summary[fn_id] = res
        return res

    def items_at(self, body, P, only_sites=None):
        items = []
        for e in self.ev_by_body.get(body.id, []):
            if only_sites is not None and e.bb not in only_sites:
                continue
            stmt_event = e.asyncio
            if P != "ret":
                # may the event have started before P ?
                rem = body.ok_removed()
                r = body.reachable([e.bb] if stmt_event else body.succ(e.bb), rem)
                if P not in r:
                    continue
            pend = set()
            if e.asyncio:
                fam = self.event_family(e)
                pend.add(("io", "%s@%s" % (e.body.id, e.site), frozenset(fam) if fam else frozenset()))
            left = self.discharge(body, e.bb, P, pend, stmt_event=stmt_event)
            items.append(Item(e, left, [(body.id, e.site, e.bb)], needed=bool(pend)))
        for ed in self.edges(body):
            if only_sites is not None and ed.bb not in only_sites:
                continue
            if P != "ret":
                rem = body.ok_removed()
                start = [ed.bb] if ed.kind == "closure" else body.succ(ed.bb)
                r = body.reachable(start, rem)
                if P not in r:
                    continue
            if ed.kind == "fsync":
                cls = "ln" if "ln" in ed.sid[2] else ("bbn" if "bbn" in ed.sid[2] else "?")
                ev = PseudoEvent("sync", cls, body, ed.bb, ed.ln, "Fsyncer::fsync(%s)" % ed.sid[2])
                left = self.discharge(body, ed.bb, P, {ed.sid})
                items.append(Item(ev, left, [(body.id, ed.ln, ed.bb)], needed=True))
                continue
            sub = self.summary(ed.target)
            tb = self.facts.bodies.get(ed.target)
            for it in sub:
                pend = set(it.pend)
                needed = it.needed
                if ed.kind in ("spawn", "detached"):
                    pend.add(ed.sid)
                    needed = True
                elif ed.kind == "sync" and needed:
                    t = body.term(ed.bb)
                    if self.fallible(body.place_ty(t["dest"])) and not self.ok_implied(body, ed.bb):
                        pend.add(("unchecked", body.id, ed.target))
                left = self.discharge(body, ed.bb, P, pend, stmt_event=(ed.kind == "closure"))
                items.append(Item(it.event, left, [(body.id, ed.ln, ed.bb)] + list(it.chain), needed=needed))
        return items


class PseudoEvent:
    """a background fsync request seen as a sync(cls) event"""

    __slots__ = ("kind", "cls", "body", "bb", "idx", "site", "prim", "why", "asyncio")

    def __init__(self, kind, cls, body, bb, site, prim):
        self.kind = kind
        self.cls = cls
        self.body = body
        self.bb = bb
        self.idx = 0
        self.site = site
        self.prim = prim
        self.why = []
        self.asyncio = False

    def key(self):
        return "%s(%s)@%s" % (self.kind, self.cls, self.body.id.split("::", 1)[1])
