# A small non-deterministic interpreter for pure, loop-free MIR bodies (classification predicates).  It is used to decide
# rules by ENUMERATION when a function touches its inputs only through comparisons with constants: the function is evaluated
# for representative inputs and every possible outcome is collected.  Unknown values (results of calls into std / the OS)
# make a branch go both ways.  Nothing is executed: the interpreter walks the MIR facts.
U = "unknown"


class Variant:
    __slots__ = ("adt", "name", "idx")

    def __init__(self, adt, name, idx=None):
        self.adt, self.name, self.idx = adt, name, idx

    def __repr__(self):
        return "%s::%s" % (self.adt.rsplit("::", 1)[-1], self.name)

    def __eq__(self, o):
        return isinstance(o, Variant) and (self.adt, self.name) == (o.adt, o.name)

    def __hash__(self):
        return hash((self.adt, self.name))


def _int(x):
    return U if (x is U or not isinstance(x, (int, bool))) else int(x)


def _wrap(v, ty):
    """two's-complement view for the comparisons we need: constants of signed types arrive as unsigned bit patterns"""
    if isinstance(v, int) and ty in ("isize", "i64") and v >= (1 << 63):
        return v - (1 << 64)
    if isinstance(v, int) and ty == "i32" and v >= (1 << 31):
        return v - (1 << 32)
    return v


def ev_op(op, env):
    if op is None:
        return U
    if op["k"] == "const":
        if op.get("int") is not None:
            return _wrap(int(op["int"]), op.get("ty", ""))
        return U
    if op["k"] in ("copy", "move"):
        pl = op["pl"]
        if pl.get("p"):
            # `(*_1)` of a by-reference parameter stands for the parameter's value
            if all(e == "*" for e in pl["p"]):
                return env.get(pl["l"], U)
            return U
        return env.get(pl["l"], U)
    return U


def ev_rv(rv, env, facts):
    k = rv["k"]
    if k == "use":
        return ev_op(rv["op"], env)
    if k == "cast":
        v = ev_op(rv["op"], env)
        return _wrap(v, rv.get("ty", "")) if isinstance(v, int) else v
    if k == "ref":
        pl = rv["pl"]
        if not pl.get("p") or all(e == "*" for e in pl["p"]):
            return env.get(pl["l"], U)
        return U
    if k == "discr":
        pl = rv["pl"]
        v = env.get(pl["l"], U) if (not pl.get("p") or all(e == "*" for e in pl["p"])) else U
        if isinstance(v, Variant) and v.idx is not None:
            return v.idx
        return U
    if k == "bin":
        a, b = _int(ev_op(rv["a"], env)), _int(ev_op(rv["b"], env))
        if a is U or b is U:
            return U
        op = rv["op"]
        table = {"Eq": a == b, "Ne": a != b, "Lt": a < b, "Le": a <= b, "Gt": a > b, "Ge": a >= b, "BitAnd": a & b, "BitOr": a | b, "BitXor": a ^ b}
        return int(table[op]) if op in table else U
    if k == "un":
        x = rv.get("a") if isinstance(rv.get("a"), dict) else rv.get("op") if isinstance(rv.get("op"), dict) else None
        a = _int(ev_op(x, env))
        if a is U:
            return U
        if rv.get("op") == "Not" or rv.get("un") == "Not":
            return int(not a)
        return U
    if k == "agg":
        if rv.get("ak") == "adt" and rv.get("variant") and not rv.get("ops"):
            adt = facts.adts.get(rv.get("name"), {})
            names = [v["name"] for v in adt.get("variants", [])]
            return Variant(rv.get("name"), rv["variant"], names.index(rv["variant"]) if rv["variant"] in names else None)
        if rv.get("ak") == "closure":
            return ("closure", rv.get("name"))
        return U
    return U


def run(facts, body, params, call_model=None, depth=0, budget=None):
    """all possible return values of `body` when its parameters have the values `params` (local -> value)"""
    if budget is None:
        budget = [4000]
    outs = set()
    work = [(0, dict(params))]
    while work:
        b, env = work.pop()
        steps = 0
        while True:
            budget[0] -= 1
            steps += 1
            if budget[0] <= 0 or steps > 400:
                outs.add(U)
                break
            for s in body.stmts(b):
                if s["k"] == "assign" and not s["pl"].get("p"):
                    env[s["pl"]["l"]] = ev_rv(s["rv"], env, facts)
            t = body.term(b)
            k = t["k"]
            if k == "goto":
                b = t["t"]
            elif k == "return":
                outs.add(env.get(0, U))
                break
            elif k == "switch":
                d = _int(ev_op(t["d"], env))
                if d is U:
                    for tb in {tb for (_v, tb) in t["vals"]} | {t["else"]}:
                        if not body.is_cleanup(tb):
                            work.append((tb, dict(env)))
                    break
                nxt = None
                for (val, tb) in t["vals"]:
                    if int(val) == d:
                        nxt = tb
                b = nxt if nxt is not None else t["else"]
            elif k == "call":
                callee = t.get("callee") or ""
                val = U
                if call_model is not None:
                    val = call_model(callee, [ev_op(a, env) for a in t["args"]])
                if val is U and callee in facts.bodies and depth < 3 and facts.bodies[callee].crate in ("nomt", "nomt_core"):
                    cb = facts.bodies[callee]
                    sub = run(facts, cb, {i + 1: ev_op(a, env) for i, a in enumerate(t["args"])}, call_model, depth + 1, budget)
                    if len(sub) == 1:
                        val = next(iter(sub))
                if not t["dest"].get("p"):
                    env[t["dest"]["l"]] = val
                if t.get("t") is None:
                    break  # diverges
                b = t["t"]
            elif k in ("drop", "assert"):
                nb = t.get("t")
                if nb is None:
                    break
                b = nb
            else:
                break  # unreachable / resume
    return outs


def eval_at(facts, body, start_bb, env0, stop_bb, operand, budget=2000):
    """values `operand` can have when control reaches block stop_bb, starting at start_bb with the locals env0"""
    outs = set()
    work = [(start_bb, dict(env0))]
    while work and budget > 0:
        b, env = work.pop()
        steps = 0
        while budget > 0 and steps < 200:
            budget -= 1
            steps += 1
            if b == stop_bb:
                for s in body.stmts(b):
                    if s["k"] == "assign" and not s["pl"].get("p"):
                        env[s["pl"]["l"]] = ev_rv(s["rv"], env, facts)
                outs.add(ev_op(operand, env))
                break
            for s in body.stmts(b):
                if s["k"] == "assign" and not s["pl"].get("p"):
                    env[s["pl"]["l"]] = ev_rv(s["rv"], env, facts)
            t = body.term(b)
            k = t["k"]
            if k == "goto":
                b = t["t"]
            elif k == "switch":
                d = _int(ev_op(t["d"], env))
                if d is U:
                    for tb in {tb for (_v, tb) in t["vals"]} | {t["else"]}:
                        if not body.is_cleanup(tb):
                            work.append((tb, dict(env)))
                    break
                nxt = None
                for (val, tb) in t["vals"]:
                    if int(val) == d:
                        nxt = tb
                b = nxt if nxt is not None else t["else"]
            elif k in ("call", "drop", "assert"):
                if k == "call" and not t["dest"].get("p"):
                    env[t["dest"]["l"]] = U
                if t.get("t") is None:
                    break
                b = t["t"]
            else:
                break
    return outs
