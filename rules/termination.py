# E5-T termination of the verifier call graph (C18: "... never panics, overflows, indexes out of bounds or LOOPS")
#
# Decided over the same reachable set as the panic-site inventory (rules/panicfree.py):
#   T1  every natural loop is either *iterator-driven* - each iteration passes a call of `Iterator::next` on a
#       loop-invariant iterator whose TYPE is finite (slice / range / bit-slice iterators under the std adapters,
#       `Take<_>`, `Zip<_, _>` with one finite side), and the `None` arm of that call leaves the loop - or it is a
#       listed loop with a frozen termination argument (LOOPS below).  An unlisted loop is a violation.
#   T2  every recursive cycle of the call graph is listed (RECURSION) with a machine-checked measure: each recursive
#       call passes `param + ... + c` (c a positive constant, additions only) for the measured parameter, and a branch
#       returning an error compares that parameter and dominates the calls.
#   T3  no `Iterator` method is called on an iterator whose type is infinite (RangeFrom, Repeat, Cycle, FromFn,
#       Successors ...) unless it sits under `Take` or a `Zip` with a finite side.
# Assumed: std iterator adapters and collection methods terminate on finite iterators; hashers are opaque and total.
import re

from core import trace, CheckBroken
import panicfree

# reviewed loops: key = "<function>|loop#<k>" (k-th loop of the function that is not iterator-driven, in source order)
LOOPS = {
    "proof::multi_proof::CommonSiblings::advance|loop#1": ("counter", "each iteration increments self.bisection_index and indexes proof.bisections with it (an inventoried, invariant-backed index site): at most bisections.len() iterations"),
    "proof::multi_proof::CommonSiblings::pop_to|loop#1": ("pop", "each iteration pops bisection_stack; `last()` is None on an empty stack and the condition is then false"),
    "proof::multi_proof::CommonSiblings::pop_to|loop#2": ("pop", "each iteration pops stack; `last()` is None on an empty stack and the condition is then false"),
    "proof::multi_proof::verify_update|loop#1": ("counter", "each iteration increments next_terminal_index and returns OpOutOfScope once it reaches proof.inner.len()"),
    "update::build_trie|loop#1": ("caller-iterator", "`while let Some(..) = pending.next()` over the caller's iterator: the verifiers pass iterators over slices / Vecs (finite); each iteration consumes one item"),
}
# Each listed loop also has a machine-checked structural part, by kind:
#   counter          a place is incremented by a positive constant in a block every iteration passes, and the loop contains an
#                    exit (error return, or an indexing / assert that diverges) that compares or indexes with that place
#   pop              every iteration pops a Vec, nothing is pushed to it inside the loop, and the exit condition is computed
#                    from that Vec
#   caller-iterator  as the iterator-driven loops, except that the iterator's type is a generic parameter

# recursive functions: name -> (name of the measured parameter, reason)
RECURSION = {
    "proof::multi_proof::verify_range": ("start_depth", "start_depth strictly increases on every recursive call and a guard returns MalformedProof once it exceeds the path length (<= 256)"),
}

INFINITE = ("core::ops::range::RangeFrom", "core::iter::sources::repeat::Repeat", "core::iter::sources::repeat_with::RepeatWith", "core::iter::adapters::cycle::Cycle", "core::iter::sources::from_fn::FromFn", "core::iter::sources::successors::Successors", "core::iter::sources::repeat_n::")
FINITE_PREFIX = (
    "core::slice::iter::",
    "core::ops::range::Range<",
    "core::ops::range::RangeInclusive<",
    "alloc::vec::into_iter::IntoIter",
    "alloc::vec::drain::Drain",
    "core::array::iter::IntoIter",
    "core::option::Iter",
    "core::option::IntoIter",
    "core::result::Iter",
    "core::result::IntoIter",
    "bitvec::slice::iter::",
    "bitvec::ptr::range::",
    "bitvec::boxed::iter::",
    "bitvec::vec::iter::",
    "alloc::collections::",
    "core::str::iter::",
    "core::iter::sources::once::Once",
    "core::iter::sources::empty::Empty",
)
ADAPT1 = ("enumerate::Enumerate", "skip::Skip", "rev::Rev", "map::Map", "filter::Filter", "filter_map::FilterMap", "peekable::Peekable", "cloned::Cloned", "copied::Copied", "step_by::StepBy", "inspect::Inspect", "skip_while::SkipWhile", "take_while::TakeWhile", "map_while::MapWhile", "scan::Scan", "fuse::Fuse")


def split_generics(ty):
    """`a::B<X, Y<Z>>` -> ("a::B", ["X", "Y<Z>"])"""
    i = ty.find("<")
    if i < 0 or not ty.endswith(">"):
        return ty, []
    head, inner = ty[:i], ty[i + 1 : -1]
    args, depth, cur = [], 0, ""
    for ch in inner:
        if ch in "<([":
            depth += 1
        elif ch in ">)]":
            depth -= 1
        if ch == "," and depth == 0:
            args.append(cur.strip())
            cur = ""
        else:
            cur += ch
    if cur.strip():
        args.append(cur.strip())
    return head, args


def strip_ref(ty):
    ty = ty.strip()
    while ty.startswith("&"):
        ty = re.sub(r"^&('[A-Za-z_0-9]+ )?(mut )?", "", ty).strip()
    return ty


def finite(ty):
    """True: finite by type; False: infinite by type; None: unknown (generic parameter, opaque type)"""
    ty = strip_ref(ty)
    if ty.startswith("<"):
        return None
    if any(ty.startswith(p) for p in INFINITE):
        return False
    if any(ty.startswith(p) for p in FINITE_PREFIX):
        return True
    head, args = split_generics(ty)
    args = [a for a in args if not a.startswith("'")]
    if head.startswith("core::iter::adapters::"):
        tail = head[len("core::iter::adapters::") :]
        if tail == "take::Take":
            return True
        if tail == "zip::Zip" and len(args) >= 2:
            a, b = finite(args[0]), finite(args[1])
            if a or b:
                return True
            return False if (a is False and b is False) else None
        if tail == "chain::Chain" and len(args) >= 2:
            a, b = finite(args[0]), finite(args[1])
            if a is False or b is False:
                return False
            return True if (a and b) else None
        if tail in ADAPT1 and args:
            return finite(args[0])
    return None


def short_fn(fn):
    n = panicfree.norm_fn(fn)
    return n.split("::", 1)[1] if n.startswith("nomt_core::") else n


def natural_loops(body):
    doms = body.dominators()
    res = {}
    preds = body.preds()
    for b in doms:
        if body.is_cleanup(b):
            continue
        for s in body.succ(b):
            if s in doms.get(b, ()):
                blk = {s, b}
                st = [b]
                while st:
                    x = st.pop()
                    if x == s:
                        continue
                    for p in preds[x]:
                        if p not in blk and p in doms:
                            blk.add(p)
                            st.append(p)
                if s in res:
                    res[s][0].update(blk)
                    res[s][1].add(b)
                else:
                    res[s] = [blk, {b}]
    return sorted(((h, v[0], v[1]) for h, v in res.items()), key=lambda x: line_of(body, x[0]))


def line_of(body, b):
    t = body.term(b)
    ln = t.get("ln")
    if not ln:
        for s in body.stmts(b):
            if s.get("ln"):
                ln = s["ln"]
                break
    try:
        return int(str(ln).rsplit(":", 1)[1])
    except (IndexError, ValueError, TypeError):
        return 1 << 30


def is_iter_next(callee):
    return bool(callee) and callee.endswith("::next") and ("core::iter::traits::iterator::Iterator" in callee or "Iterator for" in callee)


def is_iter_method(callee):
    return bool(callee) and ("as core::iter::traits::iterator::Iterator>::" in callee or callee.startswith("core::iter::traits::iterator::Iterator::") or "impl core::iter::traits::iterator::Iterator for" in callee)


def local_ty(body, l):
    ls = body.j.get("locals", [])
    return ls[l]["ty"] if 0 <= l < len(ls) else ""


def iter_local(body, op):
    """the local holding the iterator behind the `&mut it` / `&mut *&mut it` passed to next()"""
    if op["k"] not in ("copy", "move") or any(e != "*" for e in op["pl"].get("p", ())):
        return None
    l = op["pl"]["l"]
    for _ in range(8):
        ds = body.defs().get(l, [])
        if len(ds) != 1:
            return l
        (b, i, kind, obj) = ds[0]
        if kind != "assign" or obj["rv"]["k"] not in ("ref", "use"):
            return l
        nxt = obj["rv"].get("pl") or obj["rv"].get("op", {}).get("pl")
        if nxt is None or any(e != "*" for e in nxt.get("p", ())):
            return l
        l = nxt["l"]
    return l


def iterator_driven(body, h, blk, latches, need_finite=True):
    """(True, description) when the loop is driven by next() on a finite, loop-invariant iterator"""
    why = "no call of Iterator::next that every iteration passes"
    for u in sorted(blk):
        t = body.term(u)
        if t["k"] != "call" or not is_iter_next(t.get("callee") or t.get("orig") or "") or not t["args"]:
            continue
        if not all(body.dominates(u, lt) for lt in latches):
            why = "the next() at bb%d is not passed by every iteration" % u
            continue
        il = iter_local(body, t["args"][0])
        ty = local_ty(body, il) if il is not None else ""
        fin = finite(ty)
        if fin is False or (need_finite and fin is not True):
            why = "the iterator driven at bb%d has type `%s`, which is %s" % (u, ty, "infinite" if fin is False else "not known to be finite")
            continue
        # loop-invariant: the iterator local is not re-assigned inside the loop
        redefined = [b for (b, i, kind, obj) in body.defs().get(il, []) + body.defs().get(("p", il), []) if b in blk]
        if redefined:
            why = "the iterator `_%d` is re-assigned inside the loop (bb%s)" % (il, redefined)
            continue
        # the None arm leaves the loop
        nb = t.get("t")
        if nb is None:
            continue
        sw = body.term(nb)
        exits = False
        if sw["k"] == "switch":
            for r in trace(body, sw["d"]):
                if r.kind == "call" and r.bb == u and "<discr>" in r.fields:
                    tg = {v: tb for (v, tb) in sw["vals"]}
                    none_t = tg.get("0", sw["else"] if "0" not in tg else None)
                    if none_t is not None and none_t not in blk:
                        exits = True
        if not exits and not need_finite:
            # sliding-window form: `while let Some(x) = cur { ..; cur = peeked; peeked = it.next() }` - an exit of the
            # loop is decided by the discriminant of a value that next() at u produced
            for x in sorted(blk):
                tx = body.term(x)
                if tx["k"] == "switch" and leaves_loop(body, x, blk):
                    if any(r.kind == "call" and r.bb == u and "<discr>" in r.fields for r in trace(body, tx["d"])):
                        exits = True
        if not exits:
            why = "the None arm of the next() at bb%d does not leave the loop" % u
            continue
        return True, "driven by next() at bb%d on `%s`" % (u, ty)
    return False, why


def place_key(body, op, depth=0):
    if op["k"] not in ("copy", "move"):
        return None
    pl = op["pl"]
    if pl.get("p"):
        return (pl["l"], tuple(pl["p"]))
    l = pl["l"]
    ds = body.defs().get(l, [])
    if depth < 4 and len(ds) == 1 and ds[0][2] == "assign" and ds[0][3]["rv"]["k"] == "use" and not (1 <= l <= body.argc):
        k = place_key(body, ds[0][3]["rv"]["op"], depth + 1)
        if k is not None:
            return k
    return (l, ())


def const_int(op):
    if op["k"] == "const" and op.get("int") is not None:
        try:
            return int(op["int"])
        except ValueError:
            return None
    return None


def derives_from(body, op, pred, depth=0, seen=None):
    """some value `op` is computed from satisfies pred(root): looks through calls (all arguments) and binops"""
    if seen is None:
        seen = set()
    if depth > 5:
        return False
    for r in trace(body, op):
        if r.key() in seen:
            continue
        seen.add(r.key())
        if pred(r):
            return True
        if r.kind in ("call", "via") and r.obj is not None:
            for a in r.obj.get("args", []):
                if derives_from(body, a, pred, depth + 1, seen):
                    return True
        elif r.kind == "binop" and r.obj is not None:
            for kk in ("a", "b"):
                if kk in r.obj and derives_from(body, r.obj[kk], pred, depth + 1, seen):
                    return True
    return False


def leaves_loop(body, u, blk):
    return any(v not in blk and not body.is_cleanup(v) for v in body.succ(u))


def counter_driven(body, h, blk, latches):
    incs = []
    for b in sorted(blk):
        if not all(body.dominates(b, lt) or b == lt for lt in latches):
            # the increment may sit in the successor of an overflow assert; accept a block that every latch is dominated by
            continue
        for s in body.stmts(b):
            if s["k"] == "assign" and s["rv"]["k"] == "bin" and s["rv"]["op"] in ("Add", "AddWithOverflow", "AddUnchecked"):
                for (x, c) in ((s["rv"]["a"], s["rv"]["b"]), (s["rv"]["b"], s["rv"]["a"])):
                    v = const_int(c)
                    if v is not None and 0 < v < (1 << 63):
                        k = place_key(body, x)
                        if k is not None:
                            incs.append((k, s["pl"]["l"], b))
    why = "no place is incremented by a positive constant on every iteration"
    for (k, tmp, ib) in incs:
        # written back to the same place inside the loop
        back = False
        for b in blk:
            for s in body.stmts(b):
                if s["k"] == "assign" and (s["pl"]["l"], tuple(s["pl"].get("p", ()))) == k and s["rv"]["k"] == "use":
                    src = s["rv"]["op"]
                    if src["k"] in ("copy", "move") and src["pl"]["l"] == tmp:
                        back = True
        if not back:
            why = "the incremented value is not stored back to the counter inside the loop"
            continue
        # an exit that depends on the counter
        for u in sorted(blk):
            t = body.term(u)
            if t["k"] == "switch" and leaves_loop(body, u, blk):
                for r in trace(body, t["d"]):
                    if r.kind == "binop" and r.obj is not None and r.obj.get("k") == "bin" and r.obj.get("op") in ("Lt", "Le", "Gt", "Ge"):
                        if k in (place_key(body, r.obj["a"]), place_key(body, r.obj["b"])):
                            return True, "counter %s incremented at bb%d, bounded by the comparison at bb%d whose other edge leaves the loop" % (fmt_place(k), ib, u)
            elif t["k"] == "assert":
                for r in trace(body, t["cond"]):
                    if r.kind == "binop" and r.obj is not None and r.obj.get("k") == "bin" and r.obj.get("op") in ("Lt", "Le", "Gt", "Ge"):
                        if k in (place_key(body, r.obj["a"]), place_key(body, r.obj["b"])):
                            return True, "counter %s incremented at bb%d, bounded by the bounds check at bb%d" % (fmt_place(k), ib, u)
            elif t["k"] == "call" and re.search(r"core::ops::index::Index(Mut)?<.*>::index(_mut)?$", t.get("callee") or "") and len(t["args"]) >= 2:
                if place_key(body, t["args"][1]) == k:
                    return True, "counter %s incremented at bb%d, bounded by the indexing at bb%d (diverges at the container's length)" % (fmt_place(k), ib, u)
        why = "no exit of the loop compares or indexes with the counter %s" % fmt_place(k)
    return False, why


def fmt_place(k):
    return "_%d%s" % (k[0], "".join(k[1]))


GROWERS = re.compile(r"alloc::vec::Vec::(push|insert|extend|append|resize|extend_from_slice|push_within_capacity)$|::extend$")


def root_keys(body, op):
    return {(r.kind, str(r.what), r.fields) for r in trace(body, op) if r.kind in ("param", "upvar", "call", "agg")}


def pop_driven(body, h, blk, latches):
    why = "no Vec::pop that every iteration passes"
    for u in sorted(blk):
        t = body.term(u)
        if t["k"] != "call" or (t.get("callee") or "") != "alloc::vec::Vec::pop" or not t["args"]:
            continue
        if not all(body.dominates(u, lt) for lt in latches):
            continue
        rk = root_keys(body, t["args"][0])
        if not rk:
            continue
        grown = [b for b in blk if body.term(b)["k"] == "call" and GROWERS.search(body.term(b).get("callee") or "") and body.term(b)["args"] and root_keys(body, body.term(b)["args"][0]) & rk]
        if grown:
            why = "the popped Vec also grows inside the loop (bb%s)" % grown
            continue
        for x in sorted(blk):
            tx = body.term(x)
            if tx["k"] == "switch" and leaves_loop(body, x, blk):
                if derives_from(body, tx["d"], lambda r: (r.kind, str(r.what), r.fields) in rk):
                    return True, "pops at bb%d on every iteration, nothing is pushed to that Vec in the loop, exit at bb%d is computed from it" % (u, x)
        why = "the exit condition is not computed from the popped Vec"
    return False, why


STRUCT = {
    "counter": counter_driven,
    "pop": pop_driven,
    "caller-iterator": lambda body, h, blk, lat: iterator_driven(body, h, blk, lat, need_finite=False),
}


def t1_loops(facts, rep, seen):
    n_loops = n_iter = 0
    used = set()
    for fn in sorted(seen):
        body = facts.bodies[fn]
        short = short_fn(fn)
        k = 0
        for (h, blk, lat) in natural_loops(body):
            n_loops += 1
            ok, why = iterator_driven(body, h, blk, lat)
            if ok:
                n_iter += 1
                rep.ok("T1", short, "iterator-driven loop at bb%d" % h, why)
                continue
            k += 1
            key = "%s|loop#%d" % (short, k)
            used.add(key)
            if key not in LOOPS:
                # an unlisted loop (moved by a refactoring, or new) that has one of the machine-checked shapes carries its
                # own termination argument: a Vec that is popped on every iteration and not refilled
                auto = None
                for kind_ in ("pop",):
                    try:
                        ok_, why_ = STRUCT[kind_](body, h, blk, lat)
                    except Exception:
                        ok_, why_ = False, ""
                    if ok_:
                        auto = (kind_, why_)
                        break
                if auto is not None:
                    n_iter += 1
                    rep.ok("T1", short, "%s-driven loop at bb%d" % (auto[0], h), auto[1])
                    continue
            if not rep.check(key in LOOPS, "T1", short, "loop#%d" % k, "loop without a termination argument in a function reachable from a verifier entry point (%s); an untrusted proof must not be able to make a verifier spin" % why, site=body.term(h).get("ln") or body.span, detail="listed: " + LOOPS.get(key, ("", ""))[1]):
                continue
            (kind, reason) = LOOPS[key]
            ok2, why2 = STRUCT[kind](body, h, blk, lat)
            rep.check(ok2, "T1", short, "loop#%d|%s" % (k, kind), "the listed %s-driven loop no longer has the structure its termination argument rests on: %s" % (kind, why2), site=body.term(h).get("ln") or body.span, detail=why2 + "; " + reason)
    stale = sorted(set(LOOPS) - used)
    if stale:
        rep.notes.append("T1: listed loops no longer present (harmless): %s" % stale)
    return n_loops, n_iter


def sccs(g):
    import sys

    sys.setrecursionlimit(10000)
    idx, low, st, on, res, c = {}, {}, [], set(), [], [0]

    def sc(v):
        idx[v] = low[v] = c[0]
        c[0] += 1
        st.append(v)
        on.add(v)
        for w in g[v]:
            if w not in idx:
                sc(w)
                low[v] = min(low[v], low[w])
            elif w in on:
                low[v] = min(low[v], idx[w])
        if low[v] == idx[v]:
            comp = []
            while True:
                w = st.pop()
                on.discard(w)
                comp.append(w)
                if w == v:
                    break
            if len(comp) > 1 or v in g[v]:
                res.append(sorted(comp))

    for v in sorted(g):
        if v not in idx:
            sc(v)
    return res


def strictly_greater_than_param(body, op, param):
    """op == param + t1 + ... + c with additions only and a positive constant among the terms"""
    has_param, has_pos = [False], [False]

    def go(o, depth):
        if depth > 8:
            return False
        rs = [r for r in trace(body, o) if r.kind != "via"]
        if not rs:
            return False
        for r in rs:
            if r.kind == "param" and r.what == param and not r.fields:
                has_param[0] = True
            elif r.kind == "const":
                try:
                    v = int(r.obj.get("int")) if r.obj is not None and r.obj.get("int") is not None else None
                except (TypeError, ValueError):
                    v = None
                if v is not None and 0 < v < (1 << 63):
                    has_pos[0] = True
            elif r.kind == "binop" and r.obj is not None and r.obj.get("k") == "bin":
                if r.obj.get("op") not in ("Add", "AddWithOverflow", "AddUnchecked"):
                    return False
                if not (go(r.obj["a"], depth + 1) and go(r.obj["b"], depth + 1)):
                    return False
            elif r.kind in ("call", "param", "unknown", "agg", "upvar"):
                # another unsigned term: fine as long as it is only ever added (checked by the binop arm above)
                pass
        return True

    return go(op, 0) and has_param[0] and has_pos[0]


def t2_recursion(facts, rep, seen):
    g = {}
    for fn in seen:
        g[fn] = sorted({c for (_, c, _, kind) in facts.callees(facts.bodies[fn]) if c in seen})
    comps = sccs(g)
    n = 0
    for comp in comps:
        n += 1
        names = [short_fn(c) for c in comp]
        if len(comp) != 1 or names[0] not in RECURSION:
            rep.violation("T2", "+".join(names), "recursion", "recursive cycle in the verifier call graph without a termination measure: %s" % " -> ".join(names), site=facts.bodies[comp[0]].span)
            continue
        fn = comp[0]
        body = facts.bodies[fn]
        (pname, reason) = RECURSION[names[0]]
        # the measured parameter is found by its name (its position shifts when the function becomes a method)
        param = None
        for li in range(1, body.argc + 1):
            if li < len(body.j.get("locals", [])) and body.j["locals"][li].get("n") == pname:
                param = li
        if param is None:
            rep.violation("T2", names[0], "measure-parameter", "the recursive function no longer has a parameter `%s`, the measure its termination argument rests on" % pname, site=body.span)
            continue
        calls = [b for b in range(body.n) if body.term(b)["k"] == "call" and body.term(b).get("callee") == fn]
        guards = []
        for sb in range(body.n):
            t = body.term(sb)
            if t["k"] != "switch":
                continue
            for r in trace(body, t["d"]):
                if r.kind == "binop" and r.obj is not None and r.obj.get("k") == "bin" and r.obj.get("op") in ("Gt", "Lt", "Ge", "Le"):
                    for o in (r.obj["a"], r.obj["b"]):
                        if any(r2.kind == "param" and r2.what == param and not r2.fields for r2 in trace(body, o)):
                            guards.append(sb)
        errs = set(body.err_blocks()) if hasattr(body, "err_blocks") else set()
        for cb in calls:
            n += 1
            t = body.term(cb)
            ok = len(t["args"]) >= param and strictly_greater_than_param(body, t["args"][param - 1], param)
            rep.check(ok, "T2", names[0], "measure-increases", "a recursive call does not pass a strictly larger value for the measured parameter `_%d`: the recursion depth is no longer bounded" % param, site=t.get("ln"), detail="argument %d = _%d + ... + c (c > 0), additions only" % (param, param))
            n += 1
            gd = [sb for sb in guards if sb != cb and body.dominates(sb, cb) and any(s2 in errs or _leads_to_err(body, s2, errs, cb) for s2 in body.succ(sb))]
            rep.check(bool(gd), "T2", names[0], "measure-bounded", "no error-returning comparison of the measured parameter `_%d` dominates the recursive call: nothing bounds the recursion" % param, site=t.get("ln"), detail="bounding guard at bb%s; %s" % (gd[:2], reason))
    return n


def _leads_to_err(body, start, errs, avoid):
    """start reaches an error return without being able to reach the recursive call"""
    r = body.reachable([start])
    return avoid not in r and bool(set(r) & errs)


def t3_infinite_iterators(facts, rep, seen):
    n = 0
    for fn in sorted(seen):
        body = facts.bodies[fn]
        short = short_fn(fn)
        for b in range(body.n):
            t = body.term(b)
            if t["k"] != "call" or not t["args"]:
                continue
            callee = t.get("callee") or t.get("orig") or ""
            if not is_iter_method(callee):
                continue
            a0 = t["args"][0]
            if a0["k"] not in ("copy", "move"):
                continue
            ty = local_ty(body, a0["pl"]["l"]) if not a0["pl"].get("p") else ""
            if not ty:
                continue
            n += 1
            name = callee.rsplit("::", 1)[-1]
            # building a bounded adapter over an infinite source is how `(0..).zip(xs)` / `.take(n)` are written
            if name in ("zip", "take", "take_while", "map", "enumerate", "skip", "rev", "filter", "peekable", "cloned", "copied", "step_by", "by_ref", "into_iter", "map_while", "scan", "inspect", "chain", "fuse", "filter_map", "skip_while"):
                continue
            if finite(ty) is False:
                rep.violation("T3", short, name, "`%s` is driven on an iterator of infinite type `%s` in a function reachable from a verifier entry point" % (name, ty), site=t.get("ln"))
            else:
                rep.ok("T3", short, name)
    return n


def bounded_region(facts, rep, entries, rule, crate="nomt"):
    """every loop of the functions of `crate` reachable from `entries` is iterator-, counter- or pop-driven (machine-checked
    classes only, nothing listed): used for "never a hang" clauses outside the verifiers"""
    seen, st = set(), list(entries)
    for e in entries:
        facts.body(e)
    while st:
        cur = st.pop()
        if cur in seen:
            continue
        body = facts.bodies.get(cur)
        if body is None or body.crate != crate:
            continue
        seen.add(cur)
        for (b, c, t, kind) in facts.callees(body):
            if kind in ("call", "closure") and c not in seen:
                st.append(c)
    n = 0
    for fn in sorted(seen):
        body = facts.bodies[fn]
        short = fn.split("::", 1)[1]
        k = 0
        for (h, blk, lat) in natural_loops(body):
            n += 1
            k += 1
            whys = []
            ok = False
            for (name, f) in (("iterator", iterator_driven), ("counter", counter_driven), ("pop", pop_driven)):
                r, why = f(body, h, blk, lat)
                if r:
                    ok = True
                    rep.ok(rule, short, "loop#%d" % k, "%s-driven: %s" % (name, why))
                    break
                whys.append(why)
            if not ok:
                rep.violation(rule, short, "loop#%d|unbounded" % k, "a loop on this path has no bound the analysis can see (%s): on a full table the operation spins instead of returning an error" % "; ".join(whys), site=body.term(h).get("ln") or body.span)
    return len(seen), n


def run(facts, rep):
    seen = panicfree.reachable_set(facts)
    n_loops, n_iter = t1_loops(facts, rep, seen)
    n2 = t2_recursion(facts, rep, seen)
    n3 = t3_infinite_iterators(facts, rep, seen)
    return n_loops, n_iter, n2, n3
