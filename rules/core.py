# Shared infrastructure: fact extraction + cache, fact model (bodies, CFG, dominators, value
# tracing, call graph), report/evidence writer.   python3 stdlib only.
import fcntl
import hashlib
import json
import os
import re
import shutil
import subprocess
import sys
import tempfile
import time

VERIF = os.path.dirname(os.path.dirname(os.path.abspath(__file__)))
REPO = os.environ.get("VERIF_REPO", "/repo")
DRIVER = os.path.join(VERIF, "driver", "target", "release", "nomt-facts")
CACHE = os.path.join(VERIF, ".cache", "facts")

# configurations: name -> extra cargo args
CONFIGS = {
    "default": ["-p", "nomt", "-p", "nomt-core", "--lib"],
    "borsh-serde": ["-p", "nomt", "-p", "nomt-core", "--lib", "--features", "nomt/borsh,nomt/serde"],
    "fuzz": ["-p", "nomt", "-p", "nomt-core", "--lib", "--features", "nomt/fuzz"],
    "core-nostd": ["-p", "nomt-core", "--lib", "--no-default-features"],
}
FLOORS = {"nomt": 1100, "nomt_core": 190}


class CheckBroken(Exception):
    """The check itself cannot run (exit 2): missing anchor, facts, floor."""


def tree_hash(repo=None):
    repo = repo or REPO
    h = hashlib.sha256()
    files = []
    for sub in ("core", "nomt"):
        for root, dirs, fs in os.walk(os.path.join(repo, sub)):
            dirs[:] = sorted(d for d in dirs if d not in ("target", ".git"))
            for f in sorted(fs):
                if f.endswith(".rs") or f == "Cargo.toml":
                    files.append(os.path.join(root, f))
    for f in ("Cargo.toml", "Cargo.lock"):
        files.append(os.path.join(repo, f))
    for f in sorted(files):
        h.update(os.path.relpath(f, repo).encode())
        h.update(b"\0")
        try:
            with open(f, "rb") as fh:
                h.update(fh.read())
        except OSError:
            h.update(b"<missing>")
        h.update(b"\0")
    # the driver binary is part of the key: a rebuilt driver must not reuse old facts
    try:
        st = os.stat(DRIVER)
        h.update(("%d:%d" % (st.st_size, int(st.st_mtime))).encode())
    except OSError:
        pass
    return h.hexdigest()[:24]


def nightly_sysroot():
    return subprocess.check_output(["rustc", "+nightly", "--print", "sysroot"], text=True).strip()


def _driver_stale():
    try:
        bt = os.path.getmtime(DRIVER)
    except OSError:
        return True
    src = os.path.join(VERIF, "driver")
    for root, _d, files in os.walk(src):
        if "/target" in root:
            continue
        for f in files:
            if f.endswith((".rs", ".toml")) and os.path.getmtime(os.path.join(root, f)) > bt:
                return True
    return False


def ensure_driver():
    if _driver_stale():
        r = subprocess.run(
            ["cargo", "build", "--release", "--offline"],
            cwd=os.path.join(VERIF, "driver"),
            stdout=subprocess.PIPE,
            stderr=subprocess.STDOUT,
            text=True,
        )
        if r.returncode != 0 or not os.path.exists(DRIVER):
            raise CheckBroken("driver build failed:\n" + r.stdout[-3000:])


def ensure_facts(cfg="default", repo=None, must_compile=True):
    """Returns the directory holding <crate>.json for the current tree, extracting if needed.
    Returns None when the configuration does not compile and must_compile is False."""
    repo = repo or REPO
    ensure_driver()
    th = tree_hash(repo)
    d = os.path.join(CACHE, th, cfg)
    crates = ["nomt_core"] if cfg == "core-nostd" else ["nomt", "nomt_core"]
    ok_marker = os.path.join(d, "OK")
    fail_marker = os.path.join(d, "FAILED")
    os.makedirs(os.path.join(CACHE, th), exist_ok=True)
    lock = open(os.path.join(CACHE, th, ".lock." + cfg), "w")
    fcntl.flock(lock, fcntl.LOCK_EX)
    try:
        if os.path.exists(ok_marker) and all(os.path.exists(os.path.join(d, c + ".json")) for c in crates):
            return d
        if os.path.exists(fail_marker) and not must_compile:
            return None
        if os.path.isdir(d):
            shutil.rmtree(d)
        os.makedirs(d)
        target = tempfile.mkdtemp(prefix="nomt-facts-target.")
        try:
            env = dict(os.environ)
            env["LD_LIBRARY_PATH"] = os.path.join(nightly_sysroot(), "lib")
            env["RUSTFLAGS"] = "-Zmir-opt-level=0 -Awarnings"
            env["NOMT_FACTS_DIR"] = d
            env["RUSTC_WORKSPACE_WRAPPER"] = DRIVER
            env["CARGO_TARGET_DIR"] = target
            env["CARGO_NET_OFFLINE"] = "true"
            env.pop("RUSTC_WRAPPER", None)
            r = subprocess.run(
                ["cargo", "+nightly", "check", "--offline", "-j", "16"] + CONFIGS[cfg],
                cwd=repo,
                env=env,
                stdout=subprocess.PIPE,
                stderr=subprocess.STDOUT,
                text=True,
            )
        finally:
            shutil.rmtree(target, ignore_errors=True)
        if r.returncode != 0:
            with open(fail_marker, "w") as fh:
                fh.write(r.stdout[-4000:])
            if must_compile:
                raise CheckBroken(
                    "cargo check of %s (%s) failed; the tree does not compile:\n%s" % (repo, cfg, r.stdout[-3000:])
                )
            return None
        for c in crates:
            if not os.path.exists(os.path.join(d, c + ".json")):
                raise CheckBroken("fact file for crate %s missing after extraction (%s)" % (c, cfg))
        with open(ok_marker, "w") as fh:
            fh.write(str(time.time()))
        # keep the cache small: drop facts of other trees that have not been touched for 3 hours
        # (never anything recent: another process may be extracting or reading right now)
        try:
            now = time.time()
            for e in os.listdir(CACHE):
                pth = os.path.join(CACHE, e)
                if e != th and os.path.isdir(pth) and now - os.stat(pth).st_mtime > 3 * 3600:
                    shutil.rmtree(pth, ignore_errors=True)
        except OSError:
            pass
        return d
    finally:
        fcntl.flock(lock, fcntl.LOCK_UN)
        lock.close()


# ----------------------------------------------------------------------------------------------
# fact model


def place_str(pl):
    s = "_%d" % pl["l"]
    for e in pl.get("p", ()):
        if e == "*":
            s = "(*%s)" % s
        else:
            s += e
    return s


def op_str(op):
    k = op["k"]
    if k in ("copy", "move"):
        return "%s %s" % (k, place_str(op["pl"]))
    if k == "const":
        return op.get("def") or op.get("s", "?")
    return op.get("s", "?")


def fields_of(pl):
    """projection of a place as a tuple of field names (derefs / indices dropped)."""
    return tuple(e[1:] for e in pl.get("p", ()) if e.startswith("."))


class Body:
    def __init__(self, j, crate):
        self.j = j
        self.crate = crate
        self.id = j["id"]
        self.kind = j["kind"]
        self.span = j.get("span", "")
        self.argc = j["argc"]
        self.locals = j["locals"]
        self.blocks = j["blocks"]
        self.parent = j.get("parent")
        self.upvars = j.get("upvars", [])
        self.vis = j.get("vis")
        self.impl_self = j.get("impl_self")
        self.impl_trait = j.get("impl_trait")
        self.derived = j.get("derived", False)
        self.from_expansion = j.get("from_expansion", False)
        self._succ = None
        self._pred = None
        self._defs = None
        self._dom = {}
        self.n = len(self.blocks)

    # -- CFG -------------------------------------------------------------------------------
    def term(self, b):
        return self.blocks[b]["t"]

    def stmts(self, b):
        return self.blocks[b]["s"]

    def is_cleanup(self, b):
        return self.blocks[b]["c"] == 1

    def origin(self, b):
        """the function block b was written in: this function, or the helper it was spliced in from (rules/inline.py)"""
        return self.blocks[b].get("from", self.id)

    def succ(self, b, unwind=False):
        t = self.blocks[b]["t"]
        k = t["k"]
        out = []
        if k == "goto":
            out = [t["t"]]
        elif k == "switch":
            out = [v[1] for v in t["vals"]] + [t["else"]]
        elif k in ("call", "drop", "assert"):
            if "t" in t:
                out = [t["t"]]
            if unwind and "u" in t:
                out = out + [t["u"]]
        return out

    def succs(self):
        if self._succ is None:
            self._succ = [self.succ(b) for b in range(self.n)]
        return self._succ

    def preds(self):
        if self._pred is None:
            p = [[] for _ in range(self.n)]
            for b, ss in enumerate(self.succs()):
                for s in ss:
                    p[s].append(b)
            self._pred = p
        return self._pred

    def return_blocks(self):
        return [b for b in range(self.n) if self.blocks[b]["t"]["k"] == "return"]

    def calls(self):
        for b in range(self.n):
            t = self.blocks[b]["t"]
            if t["k"] == "call":
                yield b, t

    def reachable(self, starts, removed=frozenset(), unwind=False):
        seen = set()
        st = [s for s in starts if s not in removed]
        while st:
            b = st.pop()
            if b in seen:
                continue
            seen.add(b)
            for s in self.succ(b, unwind):
                if s not in removed and s not in seen:
                    st.append(s)
        return seen

    # -- one-bit path sensitivity -------------------------------------------------------------
    def flag_locals(self):
        """bool locals that are assigned only constants (whole-local), never borrowed, and that
        control at least one switch (directly or through a `tmp = copy flag` temp).
        returns (flags set, switch_ctl: bb -> flag)"""
        if hasattr(self, "_flags"):
            return self._flags
        cand = set()
        single = set()
        for l, ld in enumerate(self.locals):
            if ld["ty"] != "bool" or l == 0 or (1 <= l <= self.argc):
                continue
            ds = self.defs().get(l, [])
            if not ds or self.defs().get(("p", l)) or self.defs().get(("s", l)):
                continue
            if all(k == "assign" and o["rv"]["k"] == "use" and o["rv"]["op"]["k"] == "const" and o["rv"]["op"].get("int") in ("0", "1") for (b, i, k, o) in ds):
                cand.add(l)
            elif len(ds) == 1:
                # computed once (`let needs_new = opt.map_or(true, ..)`) and then only tested: two tests of it agree
                cand.add(l)
                single.add(l)
        # drop borrowed ones
        for b in range(self.n):
            for st in self.blocks[b]["s"]:
                if st["k"] == "assign" and st["rv"]["k"] in ("ref", "rawptr") and st["rv"]["pl"]["l"] in cand:
                    cand.discard(st["rv"]["pl"]["l"])
        ctl = {}
        for b in range(self.n):
            t = self.blocks[b]["t"]
            if t["k"] != "switch" or t["d"]["k"] not in ("copy", "move") or t["d"]["pl"].get("p"):
                continue
            l = t["d"]["pl"]["l"]
            ds = self.defs().get(l, [])
            is_temp = len(ds) == 1 and ds[0][2] == "assign" and ds[0][3]["rv"]["k"] == "use" and ds[0][3]["rv"]["op"]["k"] in ("copy", "move") and not ds[0][3]["rv"]["op"]["pl"].get("p") and ds[0][3]["rv"]["op"]["pl"]["l"] in cand and ds[0][0] == b
            src_flag = None
            if l in single and len(ds) == 1 and ds[0][2] == "assign" and ds[0][3]["rv"]["k"] == "use" and ds[0][3]["rv"]["op"]["k"] in ("copy", "move") and not ds[0][3]["rv"]["op"]["pl"].get("p"):
                sl = ds[0][3]["rv"]["op"]["pl"]["l"]
                if sl in cand and sl not in single:
                    src_flag = sl  # a temp of a constant-only flag defined in another block: judged by the chain rule below
            if l in cand and not is_temp and src_flag is None:
                ctl[b] = l
                continue
            if len(ds) == 1 and ds[0][2] == "assign":
                rv = ds[0][3]["rv"]
                if rv["k"] == "use" and rv["op"]["k"] in ("copy", "move") and not rv["op"]["pl"].get("p") and rv["op"]["pl"]["l"] in cand:
                    # the temp must be defined in the same block as the switch (no reordering issues), or in a block that
                    # runs straight into it (`_t = move flag; goto -> switch _t`, the return join of a spliced helper) with
                    # no assignment of the flag in between
                    fl = rv["op"]["pl"]["l"]
                    if ds[0][0] == b:
                        ctl[b] = fl
                    else:
                        d, hops, okc = ds[0][0], 0, True
                        fdefs = {(x[0], x[1]) for x in self.defs().get(fl, [])}
                        if any(bb_ == d and i_ > ds[0][1] for (bb_, i_) in fdefs):
                            okc = False
                        cur = d
                        while okc and cur != b and hops < 4:
                            tt = self.blocks[cur]["t"]
                            if tt["k"] != "goto":
                                okc = False
                                break
                            cur = tt["target"] if "target" in tt else (self.succ(cur) or [None])[0]
                            hops += 1
                            if cur is None or (cur != b and any(bb_ == cur for (bb_, _i) in fdefs)):
                                okc = False
                        if okc and cur == b and not any(bb_ == b for (bb_, _i) in fdefs):
                            ctl[b] = fl
            if b not in ctl and l in cand and not is_temp:
                ctl[b] = l
        # the variant of an Option / Result local that is assigned once and never borrowed whole: two `match`es on it agree
        # (`if let Some(x) = opt { start(x) } ... if let Some(x) = opt { join(x) }`).  Pseudo-flag id: -(local + 1).
        dcand = set()
        for l, ld in enumerate(self.locals):
            if l == 0 or not (ld["ty"].startswith("core::option::Option<") or ld["ty"].startswith("core::result::Result<")):
                continue
            ds = self.defs().get(l, [])
            if len(ds) != 1 or self.defs().get(("s", l)):
                continue
            dcand.add(l)
        KEEPS_VARIANT = ("::as_mut", "::as_ref", "::as_deref", "::as_deref_mut", "::iter", "::iter_mut", "::is_some", "::is_none", "::is_ok", "::is_err", "::is_some_and", "::is_none_or", "::as_slice", "::as_mut_slice")
        for b in range(self.n):
            for st in self.blocks[b]["s"]:
                if st["k"] == "assign" and st["rv"]["k"] in ("ref", "rawptr") and st["rv"]["pl"]["l"] in dcand and not st["rv"]["pl"].get("p") and st["rv"].get("mut", True):
                    # a whole `&mut` borrow may change the variant (`take()`, `insert(..)`), unless it goes straight into a
                    # method that cannot (`opt.as_mut()`)
                    tmp = st["pl"]["l"] if not st["pl"].get("p") else None
                    t_ = self.blocks[b]["t"]
                    harmless = (
                        tmp is not None
                        and len(self.defs().get(tmp, [])) == 1
                        and t_["k"] == "call"
                        and (t_.get("callee") or "").startswith(("core::option::Option", "core::result::Result"))
                        and (t_.get("callee") or "").endswith(KEEPS_VARIANT)
                        and t_["args"]
                        and t_["args"][0].get("k") == "move"
                        and t_["args"][0]["pl"]["l"] == tmp
                        and not t_["args"][0]["pl"].get("p")
                        and sum(1 for bb in range(self.n) for a in (self.blocks[bb]["t"].get("args") or []) if a.get("k") in ("move", "copy") and a["pl"]["l"] == tmp) == 1
                    )
                    if not harmless:
                        dcand.discard(st["rv"]["pl"]["l"])
            t = self.blocks[b]["t"]
            if t["k"] == "call":
                for a in t["args"]:
                    if a["k"] == "move" and not a["pl"].get("p") and a["pl"]["l"] in dcand:
                        dcand.discard(a["pl"]["l"])  # moved away: later tests are of something else
        for b in range(self.n):
            t = self.blocks[b]["t"]
            if b in ctl or t["k"] != "switch" or t["d"]["k"] not in ("copy", "move") or t["d"]["pl"].get("p"):
                continue
            ds = self.defs().get(t["d"]["pl"]["l"], [])
            if len(ds) == 1 and ds[0][0] == b and ds[0][2] == "assign" and ds[0][3]["rv"]["k"] == "discr":
                pl = ds[0][3]["rv"]["pl"]
                if not pl.get("p") and pl["l"] in dcand:
                    ctl[b] = -(pl["l"] + 1)
                    single.add(-(pl["l"] + 1))
        flags = set(ctl.values())
        # a computed-once flag is only interesting when it is tested at least twice
        for f in list(flags):
            if f in single and sum(1 for v in ctl.values() if v == f) < 2:
                flags.discard(f)
                ctl = {b: v for b, v in ctl.items() if v != f}
        self._flags = (flags, ctl)
        return self._flags

    def reachable_flags(self, starts, removed=frozenset(), limit=60000):
        """like reachable(), but infeasible edges of switches on constant-only boolean flags are not
        followed (flag values are tracked from the start blocks on, initially unknown)."""
        flags, ctl = self.flag_locals()
        if not flags:
            return self.reachable(starts, removed)
        order = sorted(flags)
        idx = {f: i for i, f in enumerate(order)}

        def implied(s):
            """flag values implied by being at block s: s is dominated by the target of one edge of a switch on the flag,
            that target has no other way in, and the flag is not (re)assigned from there on"""
            vals = [None] * len(order)
            doms = self.dominators().get(s, ())
            for cb, f in ctl.items():
                t = self.blocks[cb]["t"]
                edges = [(int(sv), sb) for (sv, sb) in t["vals"]]
                rest = {0, 1} - {v for v, _ in edges}
                if len(rest) == 1:
                    edges.append((rest.pop(), t["else"]))
                for (v, tb) in edges:
                    if tb in doms and self.preds()[tb] == [cb] and sum(1 for (_v, x) in edges if x == tb) == 1:
                        defblocks = {d[0] for d in self.defs().get(f if f >= 0 else -f - 1, [])}
                        if not (defblocks & self.reachable([tb])):
                            vals[idx[f]] = v
            return tuple(vals)

        seen = set()
        out = set()
        st = [(s, implied(s)) for s in starts if s not in removed]
        while st:
            b, vals = st.pop()
            if (b, vals) in seen:
                continue
            seen.add((b, vals))
            if len(seen) > limit:
                return self.reachable(starts, removed)
            out.add(b)
            v = list(vals)
            for s_ in self.blocks[b]["s"]:
                if s_["k"] == "assign" and not s_["pl"].get("p") and -(s_["pl"]["l"] + 1) in idx:
                    v[idx[-(s_["pl"]["l"] + 1)]] = None
                if s_["k"] == "assign" and not s_["pl"].get("p") and s_["pl"]["l"] in idx:
                    rv = s_["rv"]
                    if rv["k"] == "use" and rv["op"]["k"] == "const":
                        v[idx[s_["pl"]["l"]]] = int(rv["op"].get("int", "0"))
                    else:
                        v[idx[s_["pl"]["l"]]] = None
            t = self.blocks[b]["t"]
            if t["k"] == "call" and not t["dest"].get("p") and t["dest"]["l"] in idx:
                v[idx[t["dest"]["l"]]] = None  # (re)computed by this call
            if t["k"] == "call" and not t["dest"].get("p") and -(t["dest"]["l"] + 1) in idx:
                v[idx[-(t["dest"]["l"] + 1)]] = None
            vt = tuple(v)
            succs = self.succ(b)
            if b in ctl and v[idx[ctl[b]]] is not None:
                val = v[idx[ctl[b]]]
                tgt = None
                for (sv, sb) in t["vals"]:
                    if int(sv) == val:
                        tgt = sb
                if tgt is None:
                    tgt = t["else"]
                succs = [tgt]
            elif b in ctl:
                # value unknown: follow every edge and remember which value it stands for
                fi = idx[ctl[b]]
                listed = {int(sv) for (sv, _sb) in t["vals"]}
                for (sv, sb) in t["vals"]:
                    if sb not in removed:
                        v2 = list(v)
                        v2[fi] = int(sv)
                        st.append((sb, tuple(v2)))
                if t["else"] not in removed:
                    v2 = list(v)
                    rest = {0, 1} - listed
                    v2[fi] = rest.pop() if len(rest) == 1 else None
                    st.append((t["else"], tuple(v2)))
                continue
            for s_ in succs:
                if s_ not in removed:
                    st.append((s_, vt))
        return out

    def dominators(self, removed=frozenset()):
        """immediate-dominator style: returns dict block -> set of dominators (incl. itself) over the
        normal-edge CFG with `removed` blocks deleted.  Unreachable blocks are absent."""
        key = frozenset(removed)
        if key in self._dom:
            return self._dom[key]
        reach = self.reachable([0], removed)
        order = []
        seen = set()

        # reverse post-order
        def dfs(root):
            stack = [(root, iter(self.succ(root)))]
            seen.add(root)
            while stack:
                node, it = stack[-1]
                adv = False
                for s in it:
                    if s in removed or s in seen:
                        continue
                    seen.add(s)
                    stack.append((s, iter(self.succ(s))))
                    adv = True
                    break
                if not adv:
                    order.append(node)
                    stack.pop()

        if 0 not in removed:
            dfs(0)
        rpo = order[::-1]
        idx = {b: i for i, b in enumerate(rpo)}
        preds = self.preds()
        idom = {0: 0}

        def intersect(a, b):
            while a != b:
                while idx[a] > idx[b]:
                    a = idom[a]
                while idx[b] > idx[a]:
                    b = idom[b]
            return a

        changed = True
        while changed:
            changed = False
            for b in rpo[1:]:
                ps = [p for p in preds[b] if p in idom and p in reach and p not in removed]
                if not ps:
                    continue
                new = ps[0]
                for p in ps[1:]:
                    new = intersect(new, p)
                if idom.get(b) != new:
                    idom[b] = new
                    changed = True
        doms = {}
        for b in rpo:
            s = {b}
            x = b
            while x != 0 and x in idom:
                x = idom[x]
                s.add(x)
            if b in idom or b == 0:
                doms[b] = s
        self._dom[key] = doms
        return doms

    def dominates(self, a, b, removed=frozenset()):
        """block a dominates block b (b reachable) in the CFG without `removed`."""
        d = self.dominators(removed)
        return b in d and a in d[b]

    # -- error / exit classification -------------------------------------------------------
    def err_blocks(self):
        """blocks that construct a failure result: `?` residual propagation, `_0 = Err(..)`,
        diverging calls (panics)."""
        if hasattr(self, "_err"):
            return self._err
        e = set()
        for b in range(self.n):
            t = self.blocks[b]["t"]
            if t["k"] == "call":
                c = t.get("callee", "")
                if c.endswith("::from_residual"):
                    e.add(b)
                if "t" not in t:
                    e.add(b)  # diverges
            for s in self.blocks[b]["s"]:
                if s["k"] == "assign" and s["pl"]["l"] == 0 and not s["pl"].get("p"):
                    rv = s["rv"]
                    if rv["k"] == "agg" and rv.get("name") == "core::result::Result" and rv.get("variant") == "Err":
                        e.add(b)
        self._err = e
        return e

    def ok_removed(self):
        """blocks removed in the Ok-pruned CFG: error blocks and cleanup blocks."""
        if not hasattr(self, "_okrem"):
            self._okrem = frozenset(
                self.err_blocks()
                | {b for b in range(self.n) if self.is_cleanup(b)}
                | {b for b in range(self.n) if self.blocks[b]["t"]["k"] in ("unreachable", "resume", "terminate")}
            )
        return self._okrem

    def ok_returns(self):
        rem = self.ok_removed()
        reach = self.reachable([0], rem)
        return [b for b in self.return_blocks() if b in reach]

    # -- defs ------------------------------------------------------------------------------
    def defs(self):
        """local -> list of (bb, idx, kind, obj); kind in assign|call ; whole-local defs only.
        partial defs (with projection) under key ('p', local)."""
        if self._defs is None:
            d = {}
            for b in range(self.n):
                for i, s in enumerate(self.blocks[b]["s"]):
                    if s["k"] == "assign":
                        pl = s["pl"]
                        if not pl.get("p"):
                            key = pl["l"]
                        elif pl["p"][0] == "*":
                            key = ("s", pl["l"])  # store through a reference
                        else:
                            key = ("p", pl["l"])
                        d.setdefault(key, []).append((b, i, "assign", s))
                t = self.blocks[b]["t"]
                if t["k"] == "call":
                    pl = t["dest"]
                    if not pl.get("p"):
                        key = pl["l"]
                    elif pl["p"][0] == "*":
                        key = ("s", pl["l"])
                    else:
                        key = ("p", pl["l"])
                    d.setdefault(key, []).append((b, len(self.blocks[b]["s"]), "call", t))
            self._defs = d
        return self._defs

    def local_ty(self, l):
        return self.locals[l]["ty"]

    def local_name(self, l):
        return self.locals[l].get("n")

    def place_ty(self, pl):
        return pl.get("ty") or self.locals[pl["l"]]["ty"]

    def op_ty(self, op):
        if op["k"] in ("copy", "move"):
            return self.place_ty(op["pl"])
        return op.get("ty", "")


# functions through which a value's identity is followed (arg0 -> result)
TRANSPARENT_SUFFIX = (
    "::deref",
    "::deref_mut",
    "::as_ref",
    "::as_mut",
    "::as_deref",
    "::as_deref_mut",
    "::borrow",
    "::borrow_mut",
    "::clone",
    "::unwrap",
    "::expect",
    "::unwrap_or_default",
    "::branch",
    "::into",
    "::take",
    "::to_owned",
    "::into_inner",
    "::as_slice",
    "::as_mut_slice",
    "::into_iter",
    "::iter",
    "::by_ref",
    "::as_raw_fd",
    "::as_fd",
    "::into_boxed_slice",
    "::into_vec",
    "::to_vec",
    "::copied",
    "::cloned",
    "::flatten",
)
TRANSPARENT_EXACT = (
    "<T as core::convert::From<T>>::from",
    "<T as core::convert::Into<U>>::into",
    "alloc::sync::Arc::<T>::new",
    "alloc::sync::Arc::new",
    "alloc::boxed::Box::new",
    "alloc::boxed::Box::<T>::new",
    "core::mem::replace",
    "core::mem::take",
    # a lock guard stands for the protected value
    "lock_api::mutex::Mutex::lock",
    "lock_api::mutex::Mutex::try_lock",
    "lock_api::mutex::Mutex::lock_arc",
    "lock_api::mutex::Mutex::try_lock_arc",
    "lock_api::rwlock::RwLock::read",
    "lock_api::rwlock::RwLock::write",
    "lock_api::rwlock::RwLock::try_read",
    "lock_api::rwlock::RwLock::try_write",
    "lock_api::rwlock::RwLock::read_arc",
    "lock_api::rwlock::RwLock::write_arc",
    "lock_api::rwlock::RwLock::upgradable_read",
)


def is_transparent(callee):
    if callee in TRANSPARENT_EXACT:
        return True
    if callee.startswith("nomt::") or callee.startswith("<nomt::") or callee.startswith("nomt_core::") or callee.startswith("<nomt_core::"):
        # repo functions are never transparent, except Clone/Deref impls of repo types
        return callee.endswith(">::clone") or callee.endswith(">::deref") or callee.endswith(">::deref_mut")
    return callee.endswith(TRANSPARENT_SUFFIX)


class Root:
    """A traced origin of a value.  `fields` is the access path from the root (names, in access
    order), `owners` the ADT owning each field ("" when unknown)."""

    __slots__ = ("kind", "bb", "what", "fields", "owners", "obj", "body", "ctx")

    def __init__(self, kind, bb, what, path=(), obj=None, body=None):
        self.kind = kind  # param | call | const | agg | upvar | unknown | binop | via
        self.bb = bb
        self.what = what  # param index / callee / const string / agg name / upvar name
        self.fields = tuple(p[0] for p in path)
        self.owners = tuple(p[1] for p in path)
        self.obj = obj
        self.body = body
        self.ctx = None  # (caller body id, call terminator) when the root was found inside a callee while following ITS return for that call

    @property
    def path(self):
        return tuple(zip(self.fields, self.owners))

    def __repr__(self):
        return "Root(%s,%s,%s,%s)" % (self.kind, self.bb, self.what, ".".join(self.fields))

    def key(self):
        return (self.kind, self.bb, str(self.what), self.fields, self.body)


def proj_path(pl):
    """field path of a place as ((name, owner), ...); positional payload projections of enum variants
    (`@Some` then `.0`) are dropped, as are derefs and indices."""
    fs = []
    prev_down = False
    p = pl.get("p", ())
    o = pl.get("o", ())
    for i, e in enumerate(p):
        if e.startswith("@"):
            prev_down = True
            continue
        if e.startswith("."):
            if prev_down and e[1:].isdigit():
                # positional payload of a variant (`@Some.0`); NAMED fields of struct-like variants are kept
                prev_down = False
                continue
            fs.append((e[1:], o[i] if i < len(o) else ""))
        prev_down = False
    return tuple(fs)


def trace(body, op_or_place, extra_transparent=(), max_depth=40, deep=False, path0=()):
    """Backward value tracing inside one body.  Returns a list of Root.
    deep=True: when an aggregate is reached with no field selection left, all its operands are
    followed as well (containment tracing)."""
    out = {}
    seen = set()

    def add(r):
        r.body = body.id
        out[r.key()] = r

    def go_place(pl, path, depth):
        go_local(pl["l"], proj_path(pl) + tuple(path), depth)

    def go_op(op, path, depth):
        k = op["k"]
        if k in ("copy", "move"):
            go_place(op["pl"], path, depth)
        elif k == "const":
            add(Root("const", -1, op.get("def") or op.get("s", ""), path, op))
        else:
            add(Root("unknown", -1, op.get("s", ""), path, op))

    def go_local(l, path, depth):
        key = (l, path)
        if key in seen or depth > max_depth:
            return
        seen.add(key)
        if 1 <= l <= body.argc:
            if body.kind == "Closure" and l == 1:
                if path:
                    add(Root("upvar", -1, path[0][0], path[1:], None))
                else:
                    add(Root("upvar", -1, "<env>", (), None))
            else:
                add(Root("param", -1, l, path, None))
        ds = body.defs().get(l, [])
        pds = body.defs().get(("p", l), [])
        if not ds and not pds and not (1 <= l <= body.argc):
            add(Root("unknown", -1, "_%d" % l, path, None))
        for (b, i, kind, obj) in pds:
            if kind == "assign":
                pf = proj_path(obj["pl"])
                names = tuple(x[0] for x in path[: len(pf)])
                if names == tuple(x[0] for x in pf):
                    go_rv(obj["rv"], b, path[len(pf):], depth + 1, obj)
            elif kind == "call":
                pf = proj_path(obj["dest"])
                names = tuple(x[0] for x in path[: len(pf)])
                if names == tuple(x[0] for x in pf):
                    go_call(obj, b, path[len(pf):], depth + 1)
        for (b, i, kind, obj) in ds:
            if kind == "assign":
                go_rv(obj["rv"], b, path, depth + 1, obj)
            else:
                go_call(obj, b, path, depth + 1)

    def go_rv(rv, b, path, depth, stmt):
        k = rv["k"]
        if k == "use":
            go_op(rv["op"], path, depth)
        elif k in ("ref", "rawptr"):
            go_place(rv["pl"], path, depth)
        elif k == "cast":
            go_op(rv["op"], path, depth)
        elif k == "discr":
            go_place(rv["pl"], tuple(path) + (("<discr>", ""),), depth)
        elif k == "agg":
            ak = rv.get("ak")
            f0 = path[0][0] if path else None
            if ak in ("adt", "closure") and path and rv.get("fields") and f0 in rv["fields"] and not (
                ak == "adt" and rv.get("name") in ("core::option::Option", "core::result::Result")
            ):
                i = rv["fields"].index(f0)
                go_op(rv["ops"][i], path[1:], depth)
            elif ak == "tuple" and path and f0.isdigit() and int(f0) < len(rv["ops"]):
                go_op(rv["ops"][int(f0)], path[1:], depth)
            elif ak == "adt" and rv.get("name") in ("core::option::Option", "core::result::Result") and len(rv["ops"]) == 1:
                add(Root("agg", b, rv.get("name") + "::" + rv.get("variant", ""), path, rv))
                go_op(rv["ops"][0], path, depth)
            else:
                nm = rv.get("name", ak)
                if rv.get("variant") and ak == "adt":
                    nm = nm + "::" + rv["variant"]
                add(Root("agg", b, nm, path, rv))
                if deep and not path:
                    for o in rv["ops"]:
                        go_op(o, (), depth)
        elif k in ("bin", "un"):
            add(Root("binop", b, rv.get("op"), path, rv))
        else:
            add(Root("unknown", b, rv.get("s", k), path, rv))

    def go_call(t, b, path, depth):
        callee = t.get("callee") or ""
        if (is_transparent(callee) or callee in extra_transparent) and t["args"]:
            add(Root("via", b, callee, path, t))
            go_op(t["args"][0], path, depth)
        else:
            add(Root("call", b, callee or "<fnptr>", path, t))

    if "k" in op_or_place:
        go_op(op_or_place, tuple(path0), 0)
    else:
        go_place(op_or_place, tuple(path0), 0)
    return [r for r in out.values()]


def roots(body, op_or_place, **kw):
    """trace() without the 'via' breadcrumbs."""
    return [r for r in trace(body, op_or_place, **kw) if r.kind != "via"]


def xtrace(facts, body, op_or_place, depth=4, deep=False, _seen=None, follow_returns=True, path0=(), _raw_params=False):
    """inter-procedural trace: `upvar` roots are resolved in the parent body at the closure's creation,
    `param` roots at every call site of the function (when it has callers in the facts)."""
    if _seen is None:
        _seen = set()
    res = []
    for r in roots(body, op_or_place, deep=deep, path0=path0):
        if depth <= 0:
            res.append(r)
            continue
        if r.kind == "upvar" and body.parent and body.parent in facts.bodies and r.what != "<env>":
            par = facts.bodies[body.parent]
            hit = False
            for b in range(par.n):
                for s in par.stmts(b):
                    if s["k"] == "assign" and s["rv"]["k"] == "agg" and s["rv"].get("ak") == "closure" and s["rv"].get("name") == body.id:
                        fl = s["rv"].get("fields", [])
                        if r.what in fl:
                            op = s["rv"]["ops"][fl.index(r.what)]
                            key = (par.id, b, r.what, r.fields)
                            if key in _seen:
                                continue
                            _seen.add(key)
                            hit = True
                            for rr in xtrace(facts, par, op, depth - 1, deep, _seen, follow_returns, r.path):
                                res.append(rr)
            if not hit:
                res.append(r)
        elif r.kind == "param" and body.kind == "Closure" and isinstance(r.what, int) and r.what >= 2 and not _raw_params:
            # a parameter of a local closure that is called directly (`let open = |name| ..; open("meta")`)
            hit = False
            for (cid, cb, kind) in [c for c in facts.callers().get(body.id, []) if c[2] == "call"]:
                cbody = facts.bodies[cid]
                sp = _spread_args(cbody, cbody.term(cb))
                if sp is None or r.what - 1 >= len(sp):
                    continue
                key = (cid, cb, r.what - 1, r.fields)
                if key in _seen:
                    continue
                _seen.add(key)
                hit = True
                res.extend(xtrace(facts, cbody, sp[r.what - 1], depth - 1, deep, _seen, follow_returns, r.path))
            if not hit:
                res.append(r)
        elif r.kind == "param" and body.kind != "Closure":
            if _raw_params:
                # evaluated on behalf of one particular call site, which binds the parameter to its own argument
                res.append(r)
                continue
            callers = [c for c in facts.callers().get(body.id, []) if c[2] in ("call", "candidate")]
            if not callers:
                res.append(r)
                continue
            res.append(r)
            for (cid, cb, kind) in callers:
                cbody = facts.bodies[cid]
                t = cbody.term(cb)
                ai = r.what - 1
                if t["k"] != "call" or ai >= len(t["args"]):
                    continue
                key = (cid, cb, ai, r.fields)
                if key in _seen:
                    continue
                _seen.add(key)
                for rr in xtrace(facts, cbody, t["args"][ai], depth - 1, deep, _seen, follow_returns, r.path):
                    res.append(rr)
        elif r.kind == "call" and r.what in facts.bodies and follow_returns and (facts.bodies[r.what].kind != "Closure" or _spread_args(body, r.obj) is not None):
            cal = facts.bodies[r.what]
            key = ("ret", body.id, r.bb, r.what, r.fields)
            if key in _seen:
                res.append(r)
                continue
            _seen.add(key)
            res.append(r)
            sub = xtrace(facts, cal, {"l": 0}, depth - 1, deep, _seen, follow_returns, r.path, _raw_params=True)
            for rr in sub:
                if rr.kind in ("param",) and rr.body == cal.id:
                    # the returned value is (part of) a parameter of the callee: bind it to the argument of THIS call
                    t = r.obj
                    if cal.kind == "Closure":
                        # a local closure called directly: (env, (a0, a1, ..)) at the call site, (env, a0, a1, ..) in its body
                        t = {"k": "call", "args": _spread_args(body, r.obj)}
                    ai = rr.what - 1
                    if isinstance(t, dict) and t.get("k") == "call" and 0 <= ai < len(t["args"]):
                        bkey = ("bind", body.id, r.bb, ai, rr.fields)
                        if bkey not in _seen:
                            _seen.add(bkey)
                            res.extend(xtrace(facts, body, t["args"][ai], depth - 1, deep, _seen, follow_returns, rr.path))
                    continue
                if rr.body == cal.id and rr.ctx is None:
                    rr.ctx = (body.id, r.obj if cal.kind != "Closure" else {"k": "call", "args": _spread_args(body, r.obj)})
                res.append(rr)
        else:
            res.append(r)
    return res


def _spread_args(body, t):
    """operands [env, a0, a1, ..] of a direct call of a closure `f(env, (a0, a1, ..))`; None when the tuple is not built here"""
    if not isinstance(t, dict) or t.get("k") != "call" or len(t.get("args", [])) != 2:
        return None
    tup = t["args"][1]
    if tup["k"] not in ("copy", "move") or tup["pl"].get("p"):
        return None
    ds = body.defs().get(tup["pl"]["l"], [])
    if len(ds) != 1 or ds[0][2] != "assign" or ds[0][3]["rv"]["k"] != "agg" or ds[0][3]["rv"].get("ak") != "tuple":
        return None
    return [t["args"][0]] + list(ds[0][3]["rv"]["ops"])


def _extend(root, path):
    r = Root(root.kind, root.bb, root.what, root.path + tuple(path), root.obj, root.body)
    return r


class Facts:
    def __init__(self, factdir, crates=("nomt", "nomt_core"), use_aliases=True):
        self.dir = factdir
        self.alias_map = {}
        texts = {}
        for c in crates:
            p = os.path.join(factdir, c + ".json")
            if os.path.exists(p):
                with open(p) as fh:
                    texts[c] = fh.read()
        self._load(texts, crates)
        if use_aliases and os.environ.get("VERIF_NO_ALIASES") != "1":
            import aliases

            anchors = aliases.load()
            missing = [n for n in anchors.get("functions", {}) if n not in self.bodies and n.split("::", 1)[0].lstrip("<") in crates] + [n for n in anchors.get("adts", {}) if n not in self.adts and n.split("::", 1)[0] in crates]
            if missing:
                adt_map, fn_map = aliases.resolve(self.bodies, self.adts, anchors)
                if adt_map or fn_map:
                    texts = {c: aliases.rewrite_text(t, adt_map, fn_map) for c, t in texts.items()}
                    self._load(texts, crates)
                    self.alias_map = {"types": adt_map, "functions": fn_map}
        self.inlined = {}
        if use_aliases and os.environ.get("VERIF_NO_INLINE") != "1":
            self._inline_new_helpers()

    def _inline_new_helpers(self):
        """functions that the tree the rules were written against did not have (rules/known_fns.json) and that are small,
        non-recursive, closure-free and do not return a Result are spliced into their callers (rules/inline.py): a few lines
        moved into a new private helper are judged where they used to be.  Helpers that are no longer referenced afterwards are
        dropped from the function table."""
        import inline

        known = inline.load_known()
        if known is None:
            return
        import aliases

        anchors = aliases.referenced_names()
        def fam(i):
            return re.sub(r"@.*$", "", i)
        new = set()
        for i, b in self.bodies.items():
            if b.kind == "Closure" or b.derived or "::tests::" in i or "::test::" in i or fam(i) in known or i in anchors:
                continue
            if b.n > inline.MAX_BLOCKS or b.impl_trait:
                continue
            if b.local_ty(0).startswith("core::result::Result<") and b.crate != "nomt":
                continue  # the verifier rules (C08 / C18) look for error-returning guards per function
            if b.impl_self and re.sub(r"<.*$", "", b.impl_self) in anchors:
                # a new method of a type the rules know as an OWNER (who-may-mutate rules: InMemory, OverlayStatus, FreeList ..)
                # stays a method of that type
                continue
            if any(o.startswith(i + "::{closure") for o in self.bodies):
                continue
            new.add(i)
        if not new:
            return
        callers = {i for i, b in self.bodies.items() if "::tests::" not in i and any((t.get("callee") or "") in new for _b, t in b.calls())}
        f2, report = inline.inline_into(self, callers, lambda h: h.id in new)
        self.bodies = f2.bodies
        self._callers = None
        self._trait_impls = None
        self.inlined = report
        # drop helpers nothing refers to any more
        still = set()
        for b in self.bodies.values():
            for _bb, t in b.calls():
                c = t.get("callee") or ""
                if c in new:
                    still.add(c)
        text_refs = None
        was_inlined = {x for v in report.values() for x in v}
        for h in sorted(new - still):
            # only a helper that WAS spliced somewhere may disappear (its code is judged where it was spliced in); a new
            # function nobody in the crate calls (a new API entry point) stays and is judged as a function of its own
            if h not in was_inlined:
                continue
            if text_refs is None:
                text_refs = "\n".join(json.dumps(b.j.get("blocks")) for i, b in self.bodies.items() if i not in new)
            # function items used as values (`map(Self::helper)`) keep the helper alive
            if ('"%s"' % h) in text_refs.replace('"inlined": "%s"' % h, "").replace('"inl": "%s"' % h, "").replace('"from": "%s"' % h, ""):
                continue
            del self.bodies[h]

    def _load(self, texts, crates):
        self.bodies = {}
        self.adts = {}
        self.impls = []
        self.crates = {}
        for c in crates:
            if c not in texts:
                continue
            j = json.loads(texts[c])
            self.crates[c] = j["n_bodies"]
            for b in j["bodies"]:
                body = Body(b, c)
                if body.id in self.bodies:
                    # duplicate def path (e.g. two impl blocks with same-named fn for different
                    # generic instantiations); disambiguate with span
                    body.id = body.id + "@" + body.span
                self.bodies[body.id] = body
            for a in j["adts"]:
                self.adts[a["name"]] = a
            for im in j["impls"]:
                im["crate"] = c
                self.impls.append(im)
        self._callers = None
        self._trait_impls = None

    def check_floors(self):
        for c, n in self.crates.items():
            if n < FLOORS.get(c, 0):
                raise CheckBroken("crate %s: only %d bodies analysed (floor %d)" % (c, n, FLOORS[c]))

    def body(self, id_):
        b = self.bodies.get(id_)
        if b is None:
            raise CheckBroken("ANCHOR-MISSING function %s" % id_)
        return b

    def find(self, suffix):
        return [b for i, b in self.bodies.items() if i.endswith(suffix)]

    def closures_of(self, id_):
        pre = id_ + "::{closure#"
        return [b for i, b in self.bodies.items() if i.startswith(pre)]

    def trait_impl_candidates(self, trait_item_path):
        if self._trait_impls is None:
            m = {}
            for im in self.impls:
                for it in im["items"]:
                    ti = it.get("trait_item")
                    if ti:
                        m.setdefault(ti, []).append(it["path"])
            self._trait_impls = m
        return self._trait_impls.get(trait_item_path, [])

    def callees(self, body, include_closures=True):
        """list of (bb, callee_id, term_or_stmt, kind) ; kind in call|closure|candidate"""
        out = []
        for b, t in body.calls():
            c = t.get("callee")
            if c is None:
                continue
            if t.get("res") or c in self.bodies:
                out.append((b, c, t, "call"))
            else:
                cands = self.trait_impl_candidates(t.get("orig", c))
                if cands:
                    for cc in cands:
                        out.append((b, cc, t, "candidate"))
                else:
                    out.append((b, c, t, "call"))
        if include_closures:
            for b in range(body.n):
                for s in body.stmts(b):
                    if s["k"] == "assign" and s["rv"]["k"] == "agg" and s["rv"].get("ak") == "closure":
                        out.append((b, s["rv"]["name"], s, "closure"))
        return out

    def callers(self):
        if self._callers is None:
            m = {}
            for body in self.bodies.values():
                for (b, c, t, kind) in self.callees(body):
                    m.setdefault(c, []).append((body.id, b, kind))
            self._callers = m
        return self._callers

    def reach(self, starts, stop=frozenset(), include_closures=True):
        """transitive callee closure over bodies that exist in the facts; returns dict id -> (parent id, bb)"""
        seen = {}
        st = [(s, None, None) for s in starts]
        while st:
            cur, par, bb = st.pop()
            if cur in seen or cur in stop:
                continue
            seen[cur] = (par, bb)
            body = self.bodies.get(cur)
            if body is None:
                continue
            for (b, c, t, kind) in self.callees(body, include_closures):
                if c not in seen:
                    st.append((c, cur, b))
        return seen


def dump_body(body, out=sys.stdout):
    w = out.write
    w("fn %s  [%s] %s argc=%d\n" % (body.id, body.kind, body.span, body.argc))
    for i, l in enumerate(body.locals):
        w("  let _%d: %s%s\n" % (i, l["ty"], ("  // " + l["n"]) if l.get("n") else ""))
    for b in range(body.n):
        w("bb%d%s:\n" % (b, " (cleanup)" if body.is_cleanup(b) else ""))
        for s in body.stmts(b):
            k = s["k"]
            if k == "assign":
                rv = s["rv"]
                rk = rv["k"]
                if rk == "use":
                    r = op_str(rv["op"])
                elif rk in ("ref", "rawptr"):
                    r = "&%s%s" % ("mut " if rv.get("mut") else "", place_str(rv["pl"]))
                elif rk == "cast":
                    r = "%s as %s (%s)" % (op_str(rv["op"]), rv["ty"], rv["ck"])
                elif rk == "bin":
                    r = "%s(%s, %s)" % (rv["op"], op_str(rv["a"]), op_str(rv["b"]))
                elif rk == "un":
                    r = "%s(%s)" % (rv["op"], op_str(rv["a"]))
                elif rk == "discr":
                    r = "discriminant(%s)" % place_str(rv["pl"])
                elif rk == "agg":
                    nm = rv.get("name", rv.get("ak"))
                    if rv.get("variant"):
                        nm += "::" + rv["variant"]
                    fl = rv.get("fields") or [str(i) for i in range(len(rv["ops"]))]
                    r = "%s{%s}" % (nm, ", ".join("%s: %s" % (f, op_str(o)) for f, o in zip(fl, rv["ops"])))
                else:
                    r = rv.get("s", rk)
                w("    %s = %s   // %s\n" % (place_str(s["pl"]), r, s.get("ln", "").split(":")[-1]))
            elif k in ("live", "dead"):
                pass
            else:
                w("    %s\n" % json.dumps(s)[:200])
        t = body.term(b)
        k = t["k"]
        if k == "call":
            w(
                "    %s = %s(%s) -> %s unwind %s   // %s%s\n"
                % (
                    place_str(t["dest"]),
                    t.get("callee") or ("fnptr " + op_str(t["fnptr"])),
                    ", ".join(op_str(a) for a in t["args"]),
                    t.get("t"),
                    t.get("u"),
                    t.get("ln", "").split(":")[-1],
                    "" if t.get("res") else " UNRESOLVED",
                )
            )
        elif k == "switch":
            w("    switch %s %s else %s\n" % (op_str(t["d"]), t["vals"], t["else"]))
        elif k == "drop":
            w("    drop(%s) -> %s unwind %s\n" % (place_str(t["pl"]), t.get("t"), t.get("u")))
        elif k == "assert":
            w("    assert(%s == %s, %s %s) -> %s   // %s\n" % (op_str(t["cond"]), t["expected"], t["ak"], t["aop"], t.get("t"), t.get("snip")))
        elif k == "goto":
            w("    goto %s\n" % t["t"])
        else:
            w("    %s\n" % k)


# ----------------------------------------------------------------------------------------------
# reporting


class Report:
    def __init__(self, prop, tier, seed=0):
        self.prop = prop
        self.tier = tier
        self.seed = seed
        self.t0 = time.time()
        self.obligations = 0
        self.discharged = 0
        self.violations = []  # dicts
        self.samples = []
        self.rule_instances = {}
        self.functions = set()
        self.call_sites = 0
        self.assumptions = []
        self.trusted = []
        self.notes = []
        self.extra = {}
        self.explanation = ""
        self.is_control = False

    def ok(self, rule, function, instance, detail=None, sample=False):
        self.obligations += 1
        self.discharged += 1
        self.rule_instances[rule] = self.rule_instances.get(rule, 0) + 1
        if function:
            self.functions.add(function)
        if sample or (detail and len([s for s in self.samples if s.get("rule") == rule]) < 3):
            self.samples.append({"rule": rule, "function": function, "instance": instance, "derivation": detail})

    def violation(self, rule, function, instance, what, site=None, detail=None):
        self.obligations += 1
        self.rule_instances[rule] = self.rule_instances.get(rule, 0) + 1
        if function:
            self.functions.add(function)
        key = "%s|%s|%s|%s" % (self.prop, rule, function, instance)
        self.violations.append(
            {"property": self.prop, "key": key, "rule": rule, "function": function, "instance": instance, "what": what, "site": site, "detail": detail}
        )

    def check(self, cond, rule, function, instance, what, site=None, detail=None):
        if cond:
            self.ok(rule, function, instance, detail)
        else:
            self.violation(rule, function, instance, what, site, detail)
        return cond

    def floor(self, what, n, floor):
        self.extra.setdefault("floors", {})[what] = {"seen": n, "floor": floor}
        if n < floor and not self.is_control:
            raise CheckBroken("floor not met: %s: saw %d, expected >= %d (a rule matching too few sites must not pass vacuously)" % (what, n, floor))

    def assume(self, *a):
        for x in a:
            if x not in self.assumptions:
                self.assumptions.append(x)

    def trust(self, *a):
        for x in a:
            if x not in self.trusted:
                self.trusted.append(x)


def load_known():
    p = os.path.join(VERIF, "known_findings.json")
    if not os.path.exists(p):
        return {"findings": [], "fixed": []}
    with open(p) as fh:
        return json.load(fh)


def finish(rep, cfgs=("default",)):
    """prints result lines, writes evidence, returns exit code."""
    known = {f["key"]: f for f in load_known().get("findings", []) if f.get("property") == rep.prop}
    outbase = os.environ.get("VERIF_OUT") or VERIF
    vdir = os.path.join(outbase, "evidence", "violations")
    os.makedirs(vdir, exist_ok=True)
    # remove stale violation files of this property
    for f in os.listdir(vdir):
        if f.startswith(rep.prop + "-"):
            try:
                os.unlink(os.path.join(vdir, f))
            except OSError:
                pass
    new = []
    seen_known = []
    for v in rep.violations:
        if v["key"] in known:
            seen_known.append(v)
        else:
            new.append(v)
    printed = set()
    for v in seen_known:
        if v["key"] in printed:
            continue
        printed.add(v["key"])
        print("KNOWN-FINDING: property=%s %s -- %s" % (rep.prop, v["key"], known[v["key"]].get("what_fails", v["what"])))
    absent = [k for k in known if k not in printed and known[k].get("config", "default") in cfgs]
    for k in absent:
        print("note: known finding no longer observed (repaired or code changed): %s" % k)
    n = 0
    for v in new:
        n += 1
        path = os.path.join("evidence", "violations", "%s-%d.json" % (rep.prop, n))
        with open(os.path.join(outbase, path), "w") as fh:
            json.dump(v, fh, indent=1)
        print("VIOLATION property=%s replay=%s" % (rep.prop, path))
        print("  rule=%s function=%s instance=%s" % (v["rule"], v["function"], v["instance"]))
        print("  %s%s" % (v["what"], ("  at " + v["site"]) if v.get("site") else ""))
    wall = time.time() - rep.t0
    cov = {
        "explanation": rep.explanation,
        "obligations": rep.obligations,
        "discharged": rep.discharged,
        "evaluations": rep.obligations,
        "distinct_nontrivial": len({(s.get("rule"), s.get("function"), str(s.get("instance"))) for s in rep.samples}) if rep.samples else 0,
        "rule": "each obligation is one (rule, function, instance) triple decided over the MIR of /repo's current tree; distinct_nontrivial counts the distinct sampled derivations written out under samples",
        "samples": rep.samples[:40] or [{"note": "no obligations"}],
        "functions_analysed": len(rep.functions),
        "functions": sorted(rep.functions)[:200],
        "rule_instances": rep.rule_instances,
        "call_sites": rep.call_sites,
        "cfgs_analysed": list(cfgs),
        "trusted_base": rep.trusted,
        "checker_cmd": "bin/vcheck %s --tier %s" % (rep.prop, rep.tier),
        "known_findings_observed": sorted(printed),
        "known_findings_absent": absent,
        "new_violations": [v["key"] for v in new],
        "notes": rep.notes,
    }
    cov.update(rep.extra)
    ev = {
        "property_id": rep.prop,
        "tier": rep.tier,
        "seed": rep.seed,
        "level": "other",
        "coverage": cov,
        "assumptions": rep.assumptions,
        "wall_s": round(wall, 3),
        "violations": len(new),
    }
    os.makedirs(os.path.join(outbase, "evidence"), exist_ok=True)
    tmp = os.path.join(outbase, "evidence", ".%s.json.tmp" % rep.prop)
    with open(tmp, "w") as fh:
        json.dump(ev, fh, indent=1)
    os.replace(tmp, os.path.join(outbase, "evidence", "%s.json" % rep.prop))
    print(
        "%s: %d obligations, %d discharged, %d known finding(s), %d new violation(s), %.1fs"
        % (rep.prop, rep.obligations, rep.discharged, len(printed), len(new), wall)
    )
    return 1 if new else 0
