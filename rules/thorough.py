# Thorough tier: (a) the feature matrix - the property's rules must hold in every configuration of
# nomt / nomt-core that compiles; (b) the checker self-test - every mutant of selftest/mutants.py for
# this property is applied to a scratch copy and must be reported by name.  Self-test results are
# written to evidence and never decide the exit code: the verdict comes only from analysing /repo.
import json
import os
import subprocess
import tempfile

import core

CORE_ONLY = ("C08", "C18")


def run(prop, rep, seed):
    import props

    cfgs = []
    for cfg in ("borsh-serde", "fuzz", "core-nostd"):
        if cfg == "core-nostd" and prop not in CORE_ONLY:
            continue
        d = core.ensure_facts(cfg, must_compile=False)
        if d is None:
            rep.notes.append("configuration %s does not compile offline in this sandbox; skipped" % cfg)
            continue
        facts = core.Facts(d, crates=("nomt_core",) if cfg == "core-nostd" else ("nomt", "nomt_core"))
        r2 = core.Report(prop, "thorough", seed)
        r2.is_control = True  # floors are calibrated on the default configuration
        try:
            props.PROPS[prop](facts, r2, "control")
        except core.CheckBroken as e:
            if cfg == "core-nostd":
                rep.notes.append("configuration %s: %s" % (cfg, e))
                continue
            raise
        cfgs.append(cfg)
        known = {v["key"] for v in rep.violations}
        for v in r2.violations:
            if v["key"] not in known:
                v["what"] = "[configuration %s] %s" % (cfg, v["what"])
                rep.violations.append(v)
                rep.obligations += 1
        rep.extra.setdefault("per_configuration", {})[cfg] = {"obligations": r2.obligations, "discharged": r2.discharged, "violations": len(r2.violations)}
    # (b) self-test
    fd, out = tempfile.mkstemp(prefix="nomt-selftest.", suffix=".json")
    os.close(fd)
    try:
        env = {k: v for k, v in os.environ.items() if k not in ("VERIF_OUT",)}
        r = subprocess.run([os.path.join(core.VERIF, "bin", "selftest"), "-j", "8", "--json", out, prop], stdout=subprocess.PIPE, stderr=subprocess.STDOUT, text=True, env=env)
        try:
            with open(out) as fh:
                res = json.load(fh)
            rep.extra["selftest"] = {
                "summary": res["summary"],
                "mutants": [{"id": m["id"], "status": m["status"], "reported": (m.get("hit") or m.get("keys") or [])[:2]} for m in res["results"]],
            }
        except (OSError, ValueError):
            rep.extra["selftest"] = {"error": r.stdout[-1500:]}
    finally:
        if os.path.exists(out):
            os.unlink(out)
    return cfgs
