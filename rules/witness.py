# E8 witness — compile-fail doctests with compiling twins (supporting C08, C12, C15).
# The witness crate is generated into a scratch directory (outside /repo and /verif) with path
# dependencies on the tree under test, built with `cargo +nightly test --doc --offline`, and removed.
import os
import re
import shutil
import subprocess
import tempfile

import core

GROUPS = {
    "c08": ("C08",),
    "c12": ("C12",),
    "c15": ("C15",),
}


def run(rep, groups):
    repo = os.environ.get("VERIF_REPO", core.REPO)
    d = tempfile.mkdtemp(prefix="nomt-witness.")
    try:
        os.makedirs(os.path.join(d, "src"))
        os.makedirs(os.path.join(d, ".cargo"))
        shutil.copy(os.path.join(core.VERIF, "witness", "lib.rs"), os.path.join(d, "src", "lib.rs"))
        shutil.copy(os.path.join(repo, "Cargo.lock"), os.path.join(d, "Cargo.lock"))
        with open(os.path.join(d, "Cargo.toml"), "w") as fh:
            fh.write(
                '[package]\nname = "nomt-witness"\nversion = "0.0.0"\nedition = "2021"\n\n[lib]\npath = "src/lib.rs"\n\n'
                '[dependencies]\nnomt = { path = "%s/nomt" }\nnomt-core = { path = "%s/core" }\n\n[workspace]\n' % (repo, repo)
            )
        with open(os.path.join(d, ".cargo", "config.toml"), "w") as fh:
            fh.write("[net]\noffline = true\n")
        env = dict(os.environ)
        env["CARGO_TARGET_DIR"] = os.path.join(d, "target")
        env["CARGO_NET_OFFLINE"] = "true"
        env.pop("RUSTC_WORKSPACE_WRAPPER", None)
        r = subprocess.run(["cargo", "+nightly", "test", "--doc", "--offline", "-j", "16"], cwd=d, env=env, stdout=subprocess.PIPE, stderr=subprocess.STDOUT, text=True)
        out = r.stdout
        tests = re.findall(r"^test (src/lib\.rs - (\S+) \(line (\d+)\)(?: - compile fail)?) \.\.\. (\w+)", out, re.M)
        if not tests:
            raise core.CheckBroken("witness doctests did not run:\n" + out[-2500:])
        n = 0
        want = tuple(p for g in groups for p in GROUPS[g])
        # alternative forms: `X__alt1` states the same guarantee for another representation; the compile-fail tests of X and
        # its alternatives are judged together (the guarantee holds when, for one of the forms, all of them fail as stated)
        fam = {}
        for (full, item, line, status) in tests:
            if "compile fail" in full:
                base = item.split("__alt")[0]
                fam.setdefault(base, {}).setdefault(item, []).append(status)
        fam_ok = {base: any(all(x == "ok" for x in sts) for sts in forms.values()) for base, forms in fam.items()}
        done = set()
        for (full, item, line, status) in tests:
            if not item.startswith(want):
                continue
            kind = "compile_fail" if "compile fail" in full else "twin"
            base = item.split("__alt")[0]
            if kind == "compile_fail" and len(fam.get(base, {})) > 1:
                if base in done:
                    continue
                done.add(base)
                n += 1
                rep.check(fam_ok[base], "witness", "witness::" + base, "compile_fail@%s" % base, "none of the forms of the compile-fail witness %s fails to compile as stated: the type-level guarantee is gone" % base, detail="compile_fail %s (any of %s): %s" % (base, sorted(fam[base]), "ok" if fam_ok[base] else "failed"))
                continue
            n += 1
            rep.check(
                status == "ok", "witness", "witness::" + item, "%s@%s" % (kind, item),
                ("the compile-fail witness %s no longer fails to compile with the expected error: the type-level guarantee is gone" % item) if kind == "compile_fail" else ("the compiling twin of %s no longer compiles (API changed): the witness is not meaningful" % item),
                detail="%s %s: %s" % (kind, item, status),
            )
        rep.extra.setdefault("witness", {})["doctests_run"] = n
        if n == 0:
            raise core.CheckBroken("no witness doctest matched groups %s" % (groups,))
        return n
    finally:
        shutil.rmtree(d, ignore_errors=True)
