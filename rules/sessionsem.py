# Session flags, decided semantically (C09 ii, C15 L3) - independent of how the flags are represented.
#
# `SessionParams` carries internal switches ("take the global read guard", "record a rollback delta") that are off only for
# the session `Nomt::rollback` runs under its own write guard.  Instead of naming the fields, the VALUE of the parameters is
# propagated (rules/sccp.py: conditional constant propagation over MIR) into `Nomt::begin_session` and the rule is stated on
# what stays executable there:
#   P-rollback  with the parameters `Nomt::rollback` passes, begin_session can reach neither an acquisition of
#               `Nomt.access_lock` (it would dead-lock on the write guard rollback holds) nor `Rollback::delta_builder` (the
#               rollback's own commit must not be recorded in the log it is unwinding);
#   P-default   with `SessionParams::default()` every path of begin_session to its return acquires `Nomt.access_lock`;
#   P-api       every function of the crate that returns a `SessionParams` returns one that still must-acquires the guard
#               (evaluated with `default()` for a by-value `self`), unless it is private and only `Nomt::rollback` calls it.
from core import trace, CheckBroken
import sccp
from minterp import U

ROLLBACK = "nomt::Nomt::rollback"
PARAMS_TY = "nomt::SessionParams"
DEFAULT = "<nomt::SessionParams as core::default::Default>::default"
DELTA_BUILDER = "nomt::rollback::Rollback::delta_builder"
LOCK_CALLS = ("::read", "::read_arc", "::write", "::write_arc", "::try_read", "::try_write", "::upgradable_read", "::read_recursive")


def _is_access_acquire(body, t):
    c = t.get("callee") or ""
    if "rwlock::RwLock" not in c or not c.endswith(LOCK_CALLS) or not t["args"]:
        return False
    return any("access_lock" in r.fields or r.what == "access_lock" for r in trace(body, t["args"][0]))


def acquiring_blocks(facts, res):
    """(body id, block) of executable acquisitions of Nomt.access_lock"""
    out = []
    for bid, blks in res.blocks.items():
        body = facts.bodies[bid]
        for b in blks:
            t = body.term(b)
            if t["k"] == "call" and _is_access_acquire(body, t):
                out.append((bid, b))
    return out


def reaches_delta_builder(facts, res):
    for bid, blks in res.blocks.items():
        body = facts.bodies[bid]
        for b in blks:
            t = body.term(b)
            if t["k"] == "call" and (t.get("callee") or "") == DELTA_BUILDER:
                return True
    return False


def must_acquire(facts, bs, res):
    """in the pruned CFG of begin_session every path from the entry to a return passes a block that acquires the access lock
    (directly, or by calling / handing on a closure that does and is executable)"""
    acq = acquiring_blocks(facts, res)
    if not acq:
        return False, "no acquisition of Nomt.access_lock is executable"
    direct = {b for (bid, b) in acq if bid == bs.id}
    clos = {bid for (bid, b) in acq if bid != bs.id}
    # blocks of begin_session that create/call an executable closure containing an acquisition
    via = set()
    for b in res.blocks.get(bs.id, ()):
        t = bs.term(b)
        if t["k"] == "call":
            for a in t["args"]:
                for r in trace(bs, a):
                    if r.kind == "agg" and r.obj is not None and r.obj.get("ak") == "closure" and r.obj.get("name") in clos:
                        via.add(b)
            if (t.get("callee") or "") in clos:
                via.add(b)
    cut = direct | via
    edges = res.edges.get(bs.id, set())
    succ = {}
    for (a, b) in edges:
        succ.setdefault(a, []).append(b)
    seen, st = set(), [0]
    rets = set(bs.return_blocks())
    while st:
        x = st.pop()
        if x in seen or x in cut:
            continue
        seen.add(x)
        if x in rets:
            return False, "a path to the return at bb%d avoids the acquisition (bb%s)" % (x, sorted(cut))
        st.extend(succ.get(x, []))
    return True, "every executable path passes the acquisition at bb%s" % sorted(cut)


def run(facts, rep, parts=("params", "l3")):
    n = 0
    rb = facts.body(ROLLBACK)
    calls = [(b, t) for b, t in rb.calls() if (t.get("callee") or "").endswith("::begin_session") and (t.get("callee") or "") in facts.bodies]
    if not calls:
        rep.violation("params", "Nomt::rollback", "begin_session|missing", "Nomt::rollback no longer calls begin_session", site=rb.span)
        return 1, False
    bs = facts.bodies[calls[0][1]["callee"]]
    decided = True
    for (cb, t) in calls:
        v = sccp.value_at_call(facts, rb, cb, 1)
        if not isinstance(v, sccp.Struct):
            decided = False
            continue
        res, _ = sccp.analyse(facts, bs, {2: v})
        if res.undecided:
            decided = False
            continue
        if "params" not in parts:
            continue
        acq = acquiring_blocks(facts, res)
        n += 1
        rep.check(not acq, "params", "Nomt::rollback", "SessionParams.take_global_guard=false", "with the parameters Nomt::rollback passes (%r), begin_session can acquire Nomt.access_lock at %s: the rollback holds the write guard and would dead-lock (or the session is not the guard-less internal one)" % (v, [facts.bodies[bid].term(b).get("ln") for (bid, b) in acq][:2]), site=t.get("ln"), detail="parameters %r: no acquisition of Nomt.access_lock is executable in begin_session" % (v,))
        n += 1
        rep.check(not reaches_delta_builder(facts, res), "params", "Nomt::rollback", "SessionParams.record_rollback_delta=false", "with the parameters Nomt::rollback passes (%r), begin_session can build a rollback delta: the rollback's own commit would be recorded in the log it is unwinding" % (v,), site=t.get("ln"), detail="parameters %r: Rollback::delta_builder is not executable in begin_session" % (v,))
    # P-default
    dflt = facts.bodies.get(DEFAULT)
    dv = U
    if dflt is not None:
        _r, dv = sccp.analyse(facts, dflt, {})
    if "l3" not in parts:
        return n, decided
    if isinstance(dv, sccp.Struct):
        res, _ = sccp.analyse(facts, bs, {2: dv})
        ok, why = must_acquire(facts, bs, res)
        n += 1
        rep.check(ok, "L3", "Nomt::begin_session", "default-session-takes-read-guard", "a session begun with SessionParams::default() does not necessarily take the global read guard: %s" % why, site=bs.span, detail=why)
        # P-api
        for body in facts.bodies.values():
            if body.crate != "nomt" or body.kind == "Closure" or "::tests::" in body.id or body.id == DEFAULT:
                continue
            rty = body.local_ty(0)
            wrapped = rty.startswith("core::result::Result<%s," % PARAMS_TY) or rty == "core::option::Option<%s>" % PARAMS_TY
            if rty != PARAMS_TY and not wrapped:
                continue
            params = {}
            for i in range(1, body.argc + 1):
                if body.local_ty(i) == PARAMS_TY:
                    params[i] = dv
            r_, rv = sccp.analyse(facts, body, params)
            short = body.id.split("::", 1)[1]
            if wrapped:
                # judge the payloads of the Ok / Some values it can return
                vals = [x.f.get("0", U) for x in r_.returns.get(body.id, []) if isinstance(x, sccp.Struct) and x.adt.endswith(("::Ok", "::Some"))]
            else:
                vals = [rv]
            for rv in vals:
                n += 1
                if not isinstance(rv, sccp.Struct):
                    rep.check(False, "L3", short, "returns-guarded-params", "%s returns a SessionParams whose internal switches cannot be evaluated" % body.id, site=body.span)
                    continue
                res, _ = sccp.analyse(facts, bs, {2: rv})
                ok, why = must_acquire(facts, bs, res)
                if not ok:
                    callers = {c[0].split("::{closure")[0] for c in facts.callers().get(body.id, [])}
                    ok = body.vis != "pub" and bool(callers) and callers <= {ROLLBACK}
                    why = "guard-less parameters, but private and called only from Nomt::rollback" if ok else "%s; visibility %s, callers %s" % (why, body.vis, sorted(callers))
                rep.check(ok, "L3", short, "take_global_guard=false", "%s hands out SessionParams with which a session does not take the global read guard: only Nomt::rollback, under the write guard, may run such a session (%s)" % (body.id, why), site=body.span, detail=why)
    else:
        decided = False
    return n, decided


def default_pruned(facts):
    """(begin_session body, sccp result for SessionParams::default()) or None"""
    rb = facts.bodies.get(ROLLBACK)
    if rb is None:
        return None
    calls = [t for b, t in rb.calls() if (t.get("callee") or "").endswith("::begin_session") and (t.get("callee") or "") in facts.bodies]
    dflt = facts.bodies.get(DEFAULT)
    if not calls or dflt is None:
        return None
    bs = facts.bodies[calls[0]["callee"]]
    _r, dv = sccp.analyse(facts, dflt, {})
    if not isinstance(dv, sccp.Struct):
        return None
    res, _ = sccp.analyse(facts, bs, {2: dv})
    if res.undecided:
        return None
    return bs, res


def passes_before(bs, res, gate_blocks, b):
    """on the pruned CFG every path from the entry to block b passes one of gate_blocks"""
    succ = {}
    for (x, y) in res.edges.get(bs.id, set()):
        succ.setdefault(x, []).append(y)
    seen, st = set(), [0]
    while st:
        x = st.pop()
        if x in seen or x in gate_blocks:
            continue
        if x == b:
            return False
        seen.add(x)
        st.extend(succ.get(x, []))
    return True
