# E3 guardfx — every refusal/deferral guard dominates every effect (C12, C11 clause, C09 clause,
# and the poisoned-refusal row of C14).
#
# Rule, per table row (function F, guards G, effects E):
#   for every guard g found in F: the branch on g's value has exactly one successor from which no
#   effect of F is reachable (the refusal edge; polarity is inferred); for every effect e that g
#   must protect: block(g) strictly dominates block(e).  A listed guard that cannot be found in an
#   existing F is a violation ("guard removed"); a missing F is a broken check (exit 2).
import re
from core import trace, roots, fields_of, place_str, CheckBroken

# ---- effect recognisers ------------------------------------------------------------------------

EFFECT_CALLS = {
    "nomt::rollback::Rollback::commit": "Rollback::commit",
    "nomt::rollback::Rollback::commit_nonblocking": "Rollback::commit_nonblocking",
    "nomt::rollback::Rollback::truncate": "Rollback::truncate",
    "nomt::store::Store::commit": "Store::commit",
    "nomt::overlay::Overlay::mark_committed": "Overlay::mark_committed",
    "nomt::overlay::OverlayStatus::commit": "OverlayStatus::commit",
    "nomt::rollback::InMemory::push_recent": "InMemory::push_recent",
    "nomt::rollback::InMemory::pop_recent": "InMemory::pop_recent",
    "nomt::rollback::InMemory::pop_oldest": "InMemory::pop_oldest",
    "nomt::seglog::SegmentedLog::append": "SegmentedLog::append",
    "nomt::store::sync::Sync::sync": "Sync::sync",
    # poisoning is an effect as well: a refused commit must leave the handle usable
    "nomt::store::Store::poison": "Store::poison",
}
# assignments: (owner ADT, field) -> effect name
EFFECT_FIELDS = {
    ("nomt::Shared", "root"): "Shared.root=",
    ("nomt::Shared", "last_commit_marker"): "Shared.last_commit_marker=",
    ("nomt::rollback::InMemory", "pending_truncate"): "InMemory.pending_truncate=",
}
# a mutable borrow of (a sub-place of) one of these fields is an effect as well: the methods that used to wrap the mutation
# (`InMemory::pop_recent` = `self.log.pop_back()`) may be folded into their callers
MUT_FIELDS = {
    ("nomt::rollback::InMemory", "log"): "InMemory.log&mut",
}
ROLLBACK_EXTRA = {
    "nomt::Nomt::<T>::begin_session": "Nomt::begin_session",
    "nomt::Nomt::begin_session": "Nomt::begin_session",
    "nomt::Session::finish": "Session::finish",
    "nomt::Session::<T>::finish": "Session::finish",
    "nomt::FinishedSession::commit": "FinishedSession::commit",
}


def last_field_owner(pl):
    p = pl.get("p") or []
    o = pl.get("o") or []
    for i in range(len(p) - 1, -1, -1):
        if p[i].startswith("."):
            return (o[i] if i < len(o) else ""), p[i][1:]
        if p[i].startswith("@"):
            continue
        if p[i] == "*":
            continue
        break
    return None, None


_HAS_EFFECT = {}


def helper_effects(facts, fn_id, depth=0):
    """effect names performed (transitively, depth <= 2) by a repo helper that is not itself in the table"""
    if facts is None or fn_id in EFFECT_CALLS or depth > 2:
        return set()
    key = (id(facts), fn_id)
    if key in _HAS_EFFECT:
        return _HAS_EFFECT[key]
    _HAS_EFFECT[key] = set()
    body = facts.bodies.get(fn_id)
    out = set()
    if body is not None and body.crate == "nomt" and body.kind != "Closure":
        for (n, b, i, s) in find_effects(body, None, None):
            out.add(n)
        for b, t in body.calls():
            c = t.get("callee") or ""
            if c in facts.bodies and c not in EFFECT_CALLS and c != fn_id:
                out |= helper_effects(facts, c, depth + 1)
    _HAS_EFFECT[key] = out
    return out


def find_effects(body, extra_calls=None, facts=None):
    """returns list of (name, bb, idx, site)"""
    out = []
    calls = dict(EFFECT_CALLS)
    if extra_calls:
        calls.update(extra_calls)
    for b in range(body.n):
        if body.is_cleanup(b):
            continue
        for i, s in enumerate(body.stmts(b)):
            if s["k"] == "assign" and s["rv"]["k"] == "ref" and s["rv"].get("mut") and s["rv"]["pl"].get("p"):
                p = s["rv"]["pl"]["p"]
                o = s["rv"]["pl"].get("o") or []
                for j, e in enumerate(p):
                    if e.startswith(".") and j < len(o) and (o[j], e[1:]) in MUT_FIELDS:
                        out.append((MUT_FIELDS[(o[j], e[1:])], b, i, s.get("ln")))
                        break
            if s["k"] == "assign" and s["pl"].get("p"):
                # any assignment into (a sub-place of) a protected field
                p = s["pl"]["p"]
                o = s["pl"].get("o") or []
                for j, e in enumerate(p):
                    if e.startswith(".") and j < len(o) and (o[j], e[1:]) in EFFECT_FIELDS:
                        out.append((EFFECT_FIELDS[(o[j], e[1:])], b, i, s.get("ln")))
                        break
        t = body.term(b)
        if t["k"] == "call":
            c = t.get("callee")
            if c in calls:
                out.append((calls[c], b, len(body.stmts(b)), t.get("ln")))
            elif facts is not None and c and c in facts.bodies and (c.startswith("nomt::") or c.startswith("<nomt::")):
                for n in sorted(helper_effects(facts, c)):
                    out.append(("%s via %s" % (n, c.split("::")[-1]), b, len(body.stmts(b)), t.get("ln")))
            # Option::take / mem::replace on a protected field is also a mutation
            if c and (c.endswith("::take") or c.endswith("mem::replace") or c.endswith("::insert") or c.endswith("::replace")) and t["args"]:
                for r in trace(body, t["args"][0]):
                    pass
        if t["k"] == "drop" and facts is not None:
            # a value whose Drop impl performs an effect (an RAII "restore" guard that writes the root back ..): dropping it
            # IS the effect, wherever the scope ends - in particular on the early return of a refusal
            dfn = drop_impl_of(facts, body.place_ty(t["pl"]) or "")
            if dfn is not None:
                names = {n for (n, _b, _i, _s) in find_effects(facts.bodies[dfn], None, None)} | helper_effects(facts, dfn)
                for n in sorted(names):
                    out.append(("%s via drop of %s" % (n, dfn.split(" as ")[0].lstrip("<").split("::")[-1].split("<")[0]), b, len(body.stmts(b)), t.get("ln") or body.span))
    return out


_DROPS = {}


def drop_impl_of(facts, ty):
    """id of `<T as Drop>::drop` for the nomt type `ty` (generic arguments ignored), or None"""
    key = id(facts)
    if key not in _DROPS:
        m = {}
        for i in facts.bodies:
            if i.startswith("<nomt::") and i.endswith(" as core::ops::drop::Drop>::drop"):
                m[re.sub(r"<.*$", "", i[1:].split(" as ")[0])] = i
        _DROPS[key] = m
    base = re.sub(r"<.*$", "", ty.lstrip("&").replace("mut ", "").strip())
    return _DROPS[key].get(base)


# ---- guard recognisers: each returns a list of (switch_block, description, site) ---------------


def switches_on_call(body, call_bb, whole_result=False):
    """switch blocks whose discriminant derives from the result of the call at call_bb; with whole_result, only tests of the
    result itself (its Ok / Err / Some / None-ness, possibly through `?`), not of something inside its payload"""
    res = []
    for b in range(body.n):
        t = body.term(b)
        if t["k"] != "switch" or body.is_cleanup(b):
            continue
        for r in trace(body, t["d"]):
            if r.kind in ("call", "via") and r.bb == call_bb:
                if whole_result and any(f not in ("<discr>",) for f in r.fields):
                    continue
                res.append(b)
                break
    return res


def switches_on_stmt(body, sb, si):
    """switch blocks whose discriminant derives from the binop assigned at (sb, si)"""
    res = []
    target = body.stmts(sb)[si]
    for b in range(body.n):
        t = body.term(b)
        if t["k"] != "switch" or body.is_cleanup(b):
            continue
        for r in trace(body, t["d"]):
            if r.kind == "binop" and r.obj is target["rv"]:
                res.append(b)
                break
    return res


def g_root_eq(body, facts):
    out = []
    for b, t in body.calls():
        c = t.get("callee", "")
        is_cmp = c in (
            "<nomt::Root as core::cmp::PartialEq>::ne",
            "<nomt::Root as core::cmp::PartialEq>::eq",
            "core::cmp::PartialEq::ne",
            "core::cmp::PartialEq::eq",
        )
        if is_cmp and t["args"] and all(body.op_ty(a).replace("&", "").replace("mut ", "").strip() == "nomt::Root" for a in t["args"]):
            hit = False
            for a in t["args"]:
                for r in trace(body, a):
                    if r.fields and r.fields[-1] == "root" or ("root" in r.fields):
                        hit = True
            if hit:
                for sw in switches_on_call(body, b):
                    out.append((sw, "shared.root %s prev_root" % c.rsplit("::", 1)[1], t.get("ln")))
    return out


def g_parent_marker(body, facts):
    out = []
    for b, t in body.calls():
        if t.get("callee") == "nomt::overlay::Overlay::parent_matches_marker":
            for sw in switches_on_call(body, b):
                out.append((sw, "parent_matches_marker", t.get("ln")))
    return out


def _is_guard_option(ty):
    return ty.startswith("core::option::Option<lock_api::") and ("Guard<" in ty)


def g_lock_acquired(body, facts):
    """a branch on whether a try_write/try_lock produced a guard"""
    out = []
    for b, t in body.calls():
        c = t.get("callee", "")
        if c in ("core::option::Option::<T>::is_none", "core::option::Option::<T>::is_some", "core::option::Option::is_none", "core::option::Option::is_some") and t["args"]:
            aty = body.op_ty(t["args"][0])
            if _is_guard_option(aty.lstrip("&").replace("'_ ", "").strip()) or "Option<lock_api::" in aty and "Guard<" in aty:
                for sw in switches_on_call(body, b):
                    out.append((sw, "%s on %s" % (c.rsplit("::", 1)[1], aty), t.get("ln")))
    # match on the Option<Guard> directly
    for b in range(body.n):
        if body.is_cleanup(b):
            continue
        for i, s in enumerate(body.stmts(b)):
            if s["k"] == "assign" and s["rv"]["k"] == "discr":
                ty = body.place_ty(s["rv"]["pl"])
                if ("Option<lock_api::" in ty and "Guard<" in ty) or (ty.startswith("core::ops::control_flow::ControlFlow<core::option::Option<core::convert::Infallible>") and "Guard<" in ty):
                    # (the second form is `lock.try_lock()?` inside an Option-returning function)
                    # the switch using this discriminant
                    dl = s["pl"]["l"]
                    for sb in range(body.n):
                        t = body.term(sb)
                        if t["k"] == "switch" and t["d"]["k"] in ("copy", "move") and t["d"]["pl"]["l"] == dl and not body.is_cleanup(sb):
                            out.append((sb, "match on %s" % ty, s.get("ln")))
    return out


def g_enough_logged(body, facts):
    out = []
    for b in range(body.n):
        if body.is_cleanup(b):
            continue
        for i, s in enumerate(body.stmts(b)):
            if s["k"] == "assign" and s["rv"]["k"] == "bin" and s["rv"]["op"] in ("Gt", "Lt", "Ge", "Le"):
                hit = False
                for side in ("a", "b"):
                    for r in trace(body, s["rv"][side]):
                        if r.kind == "call" and r.what == "nomt::rollback::InMemory::total_len":
                            hit = True
                if hit:
                    for sw in switches_on_stmt(body, b, i):
                        out.append((sw, "n %s in_memory.total_len()" % s["rv"]["op"], s.get("ln")))
    return out


def _is_atomic_load(c):
    return c.endswith("AtomicBool::load") or c == "core::sync::atomic::Atomic::load" or c.endswith("atomic::Atomic::<T>::load")


_POISON_FIELDS = {}
_ATOMIC_BOOL = ("core::sync::atomic::Atomic<bool>", "core::sync::atomic::AtomicBool", "std::sync::atomic::AtomicBool")


def poison_fields(facts):
    """names of the poison flag: the field(s) of the store's shared state that are an atomic bool, or a small wrapper type of
    the crate around one (`poison: PoisonFlag(AtomicBool)`)"""
    if facts is None:
        return {"poisoned"}
    key = id(facts)
    if key not in _POISON_FIELDS:
        out = set()
        adt = facts.adts.get("nomt::store::Shared")
        for v in (adt or {}).get("variants", []):
            for f in v.get("fields", []):
                ty = f.get("ty", "")
                if ty in _ATOMIC_BOOL:
                    out.add(f["n"])
                elif ty in facts.adts and ty.startswith("nomt::"):
                    inner = [g.get("ty", "") for vv in facts.adts[ty].get("variants", []) for g in vv.get("fields", [])]
                    if inner and all(x in _ATOMIC_BOOL for x in inner):
                        out.add(f["n"])
        _POISON_FIELDS[key] = out or {"poisoned"}
    return _POISON_FIELDS[key]


_PF_FACTS = [None]


def _loads_poisoned(body, t):
    names = poison_fields(_PF_FACTS[0])
    return _is_atomic_load(t.get("callee", "")) and t["args"] and any(names & set(r.fields) for r in trace(body, t["args"][0]))


def _returns_poisoned_flag(facts, callee, depth=0):
    """a bool helper whose return value is the poisoned flag (`fn is_poisoned(&self) -> bool { self.shared.poisoned.load(..) }`)"""
    cb = facts.bodies.get(callee) if facts is not None else None
    if cb is None or cb.crate != "nomt" or depth > 2 or cb.local_ty(0) != "bool":
        return False
    for r in trace(cb, {"l": 0}):
        if r.kind == "call" and r.obj is not None:
            if _loads_poisoned(cb, r.obj):
                return True
            if _returns_poisoned_flag(facts, str(r.what), depth + 1):
                return True
    return False


def g_poisoned(body, facts):
    _PF_FACTS[0] = facts
    out = []
    for b, t in body.calls():
        if _loads_poisoned(body, t):
            for sw in switches_on_call(body, b):
                out.append((sw, "poisoned.load()", t.get("ln")))
        elif _returns_poisoned_flag(facts, t.get("callee", "")):
            for sw in switches_on_call(body, b):
                out.append((sw, "%s() (returns poisoned.load())" % t["callee"].rsplit("::", 1)[1], t.get("ln")))
    return out


def g_n_zero(body, facts):
    out = []
    for b in range(body.n):
        for i, s in enumerate(body.stmts(b)):
            if s["k"] == "assign" and s["rv"]["k"] == "bin" and s["rv"]["op"] in ("Eq", "Ne"):
                a, bb_ = s["rv"]["a"], s["rv"]["b"]
                consts = [x for x in (a, bb_) if x["k"] == "const" and x.get("int") == "0"]
                params = [x for x in (a, bb_) if x["k"] in ("copy", "move") and any(r.kind == "param" and r.what == 2 for r in trace(body, x))]
                if consts and params:
                    for sw in switches_on_stmt(body, b, i):
                        out.append((sw, "n == 0", s.get("ln")))
    return out


def _discr_switches_of_call(body, callee_names, through_try=False):
    """switches on the discriminant of (the payload of) a call result"""
    out = []
    for b in range(body.n):
        if body.is_cleanup(b):
            continue
        t = body.term(b)
        if t["k"] != "switch":
            continue
        for r in trace(body, t["d"]):
            if r.kind == "call" and r.what in callee_names and "<discr>" in r.fields:
                # distinguish the `?` on the Result (through Try::branch) from the payload match
                via_try = any(v.kind == "via" and v.what.endswith("Try>::branch") for v in trace(body, t["d"]))
                if via_try == through_try or not through_try:
                    out.append((b, via_try))
    return out


def g_rollback_enabled(body, facts):
    out = []
    for (b, via_try) in _discr_switches_of_call(body, ("nomt::store::Store::rollback",)):
        out.append((b, "store.rollback() is Some", body.term(b).get("ln")))
    return out


def g_truncate_some(body, facts):
    """the `let Some(traceback) = rollback.truncate(n)? else bail` branch: the switch on the
    discriminant of the Option payload (not the `?` on the Result)."""
    out = []
    for b in range(body.n):
        if body.is_cleanup(b):
            continue
        t = body.term(b)
        if t["k"] != "switch":
            continue
        tr = trace(body, t["d"])
        from_trunc = any(r.kind == "call" and r.what == "nomt::rollback::Rollback::truncate" for r in tr)
        if not from_trunc:
            continue
        # the discriminant read must be of an Option<BTreeMap..> place (payload), not of ControlFlow
        for d in body.defs().get(t["d"]["pl"]["l"], []) if t["d"]["k"] in ("copy", "move") else []:
            (db, di, kind, obj) = d
            if kind == "assign" and obj["rv"]["k"] == "discr":
                ty = body.place_ty(obj["rv"]["pl"])
                if ty.startswith("core::option::Option<"):
                    out.append((b, "truncate(n)? is Some", t.get("ln")))
    return out


GUARDS = {
    "root_eq": g_root_eq,
    "parent_marker": g_parent_marker,
    "lock_acquired": g_lock_acquired,
    "enough_logged": g_enough_logged,
    "poisoned": g_poisoned,
    "n_zero": g_n_zero,
    "rollback_enabled": g_rollback_enabled,
    "truncate_some": g_truncate_some,
}

def guards_via_helper(body, facts, gname):
    """the guard sits in a repo helper whose failure is propagated with `?`: the branch on the helper's
    result is the guard (the helper must fail on the guard's refusal edge)"""
    out = []
    for b, t in body.calls():
        c = t.get("callee") or ""
        if c not in facts.bodies or c in EFFECT_CALLS or not (c.startswith("nomt::") or c.startswith("<nomt::")):
            continue
        H = facts.bodies[c]
        if H.kind == "Closure" or H.n > 400:
            continue
        try:
            inner = GUARDS[gname](H, facts)
        except Exception:
            inner = []
        for (sw_h, desc, site) in inner:
            okr = set(H.ok_returns())
            refusing = [s_ for s_ in set(H.succ(sw_h)) if not (H.reachable([s_], H.ok_removed()) & okr)]
            if H.local_ty(0).startswith("core::option::Option<"):
                # an Option-returning helper refuses by returning None: the edge from which no `Some(..)` is produced
                somes = {bb for bb in range(H.n) for s_ in H.stmts(bb) if s_["k"] == "assign" and not s_["pl"].get("p") and s_["pl"]["l"] == 0 and s_["rv"]["k"] == "agg" and s_["rv"].get("variant") == "Some"}
                if somes:
                    refusing = [s_ for s_ in set(H.succ(sw_h)) if not (H.reachable([s_]) & somes)]
            if not refusing:
                continue
            for sw in switches_on_call(body, b, whole_result=True):
                out.append((sw, "%s in helper %s" % (desc, c.split("::", 1)[1]), t.get("ln")))
                VIA_HELPER[(body.id, sw)] = (b, c)
    return out


VIA_HELPER = {}  # (function, switch block) -> (call block, helper): the guard sits inside the helper called at that block
ALL = None
# row: function id candidates, {guard: (min instances, effects-or-ALL)}, extra effect calls, properties
ROWS = [
    {
        "fn": "nomt::FinishedSession::commit",
        "guards": {"root_eq": (1, ALL)},
        "min_effects": 4,
        "props": ["C12"],
    },
    {
        "fn": "nomt::FinishedSession::try_commit_nonblocking",
        "guards": {"lock_acquired": (1, ALL), "root_eq": (1, ALL)},
        "min_effects": 4,
        "props": ["C12"],
    },
    {
        "fn": "nomt::overlay::Overlay::commit",
        "guards": {"parent_marker": (1, ALL), "root_eq": (1, ALL)},
        "min_effects": 5,
        "props": ["C12", "C11"],
    },
    {
        "fn": "nomt::overlay::Overlay::try_commit_nonblocking",
        "guards": {"parent_marker": (1, ALL), "lock_acquired": (1, ALL), "root_eq": (1, ALL)},
        "min_effects": 5,
        "props": ["C12", "C11"],
    },
    {
        "fn": "nomt::rollback::Rollback::commit_nonblocking",
        "guards": {"lock_acquired": (2, ALL)},
        "min_effects": 2,
        "props": ["C12"],
    },
    {
        "fn": "nomt::rollback::Rollback::truncate",
        "guards": {"enough_logged": (1, ALL)},
        "min_effects": 2,
        "props": ["C09"],
    },
    {
        "fn": "nomt::Nomt::rollback",
        "guards": {
            "n_zero": (1, ALL),
            "rollback_enabled": (1, ALL),
            "truncate_some": (1, ("Nomt::begin_session", "Session::finish", "FinishedSession::commit")),
        },
        "extra": ROLLBACK_EXTRA,
        "min_effects": 4,
        "props": ["C09"],
    },
    {
        "fn": "nomt::store::Store::commit",
        "guards": {"poisoned": (1, ALL)},
        "min_effects": 1,
        "props": ["C14"],
    },
]


def run_row(facts, rep, row, short_override=None):
    n_fn = n_eff = n_guard = 0
    body = facts.body(row["fn"])  # ANCHOR-MISSING -> CheckBroken
    n_fn += 1
    effects = find_effects(body, row.get("extra"), facts)
    short = short_override or row["fn"].split("::", 1)[1]
    if len(effects) < row["min_effects"] and effects:
        # effects folded into a helper show up once per kind: not a reason to call the check broken
        rep.notes.append("%s: %d recognised effect sites (expected >= %d when the table was written)" % (short, len(effects), row["min_effects"]))
    if not effects:
        raise CheckBroken(
            "floor not met: %s has %d recognised effect sites, expected >= %d (effect table out of date?)"
            % (row["fn"], len(effects), row["min_effects"])
        )
    n_eff += len(effects)
    eff_blocks = {}
    for (name, b, i, site) in effects:
        eff_blocks.setdefault(b, []).append((name, i, site))
    for gname, (minc, subset) in row["guards"].items():
        found = GUARDS[gname](body, facts) + guards_via_helper(body, facts, gname)
        if not found:
            # the whole guarded section may have been moved into one helper (e.g. a shared `commit_inner`):
            # if every effect of this function happens inside that single call, judge the guard there
            sites = {b for (_n, b, _i, _s) in effects}
            if len(sites) == 1:
                cb = next(iter(sites))
                ct = body.term(cb)
                H = facts.bodies.get(ct.get("callee") or "") if ct["k"] == "call" else None
                if H is not None and H.crate == "nomt" and H.kind != "Closure" and H.id not in EFFECT_CALLS and H.id not in (row.get("extra") or {}) and not short_override:
                    sub = dict(row)
                    sub["fn"] = H.id
                    sub["guards"] = {gname: (minc, subset)}
                    sub["min_effects"] = 1
                    f2, e2, g2 = run_row(facts, rep, sub, short + " via " + H.id.split("::")[-1])
                    n_guard += g2
                    continue
        # de-duplicate by switch block
        uniq = {}
        for (sw, desc, site) in found:
            uniq.setdefault(sw, (desc, site))
        # a helper that contains BOTH the guard and effects (`commit_locked(..)?`): for the effects inside it the guard
        # is judged inside the helper; the branch on the helper's result only guards what follows the call
        inside = {}
        for sw in list(uniq):
            via = VIA_HELPER.get((body.id, sw))
            if via is None:
                continue
            (cb, hid) = via
            if any(b == cb for (_n, b, _i, _s) in effects) and not short_override:
                inside[sw] = cb
                if (gname, hid) not in inside:
                    inside[(gname, hid)] = True
                    sub = dict(row)
                    sub["fn"] = hid
                    sub["guards"] = {gname: (1, subset)}
                    sub["min_effects"] = 1
                    f2, e2, g2 = run_row(facts, rep, sub, short + " via " + hid.split("::")[-1])
                    n_guard += g2
        if len(uniq) < minc:
            n_guard += minc - len(uniq)  # a removed guard is a violation, not a reason for the floor to fail
            rep.violation(
                "guardfx",
                short,
                "guard=%s|missing" % gname,
                "refusal guard `%s` not found in %s (expected %d, found %d): the check was removed or no longer branches" % (gname, row["fn"], minc, len(uniq)),
                site=body.span,
            )
        for sw, (desc, site) in sorted((k, v) for (k, v) in uniq.items() if not isinstance(k, tuple)):
            n_guard += 1
            my_effects = [(n, b, i, s) for (n, b, i, s) in effects if (subset is ALL or n in subset) and b != inside.get(sw, -1)]
            if sw in inside and not my_effects:
                continue  # everything this guard protects happens inside the helper, where it was judged
            succs = body.succ(sw)
            # refusal edge: successor from which no protected effect is reachable
            reach_eff = {}
            for s in set(succs):
                r = body.reachable([s])
                reach_eff[s] = sorted({n for (n, b, i, _s) in my_effects if b in r})
            refusal = [s for s in reach_eff if not reach_eff[s]]
            passing = [s for s in reach_eff if reach_eff[s]]
            inst = "guard=%s" % gname
            if not passing:
                # nothing after the guard: every protected effect precedes it
                for (n, b, i, s) in my_effects:
                    rep.violation(
                        "guardfx", short, "effect=%s|%s" % (n, inst),
                        "effect %s (at %s) is not dominated by guard `%s` (%s at %s): no protected effect follows the guard" % (n, s, gname, desc, site),
                        site=s,
                    )
                continue
            if not refusal:
                rep.violation(
                    "guardfx", short, "%s|no-refusal-edge" % inst,
                    "both edges of guard `%s` (%s at %s) reach an effect: the refusal no longer refuses (the edge with the fewest effects still reaches: %s)" % (gname, desc, site, ", ".join(min(reach_eff.values(), key=len)[:4])),
                    site=site,
                )
                continue
            for (n, b, i, s) in my_effects:
                ok = b != sw and body.dominates(sw, b)
                # effects reachable from refusal edge are excluded by construction of `refusal`
                rep.check(
                    ok, "guardfx", short, "effect=%s|%s" % (n, inst),
                    "effect %s (at %s) is not dominated by the pass edge of guard `%s` (%s at %s): it can happen although the commit is then refused/deferred" % (n, s, gname, desc, site),
                    site=s,
                    detail="guard %s [%s] at %s: switch bb%d, refusal edge -> bb%s (no effect reachable), pass edge -> bb%s; effect %s at %s in bb%d is dominated by bb%d"
                    % (gname, desc, site, sw, refusal, passing, n, s, b, sw),
                )
    rep.call_sites += len(effects)
    return n_fn, n_eff, n_guard


def run(facts, rep, prop):
    n_fn = n_eff = n_guard = 0
    for row in ROWS:
        if prop not in row["props"]:
            continue
        a, b, c = run_row(facts, rep, row)
        n_fn += a
        n_eff += b
        n_guard += c
    return n_fn, n_eff, n_guard


def session_params_const_false(facts, rep):
    """C09 (ii): in Nomt::rollback the SessionParams handed to begin_session has
    record_rollback_delta = false and take_global_guard = false on all paths."""
    body = facts.body("nomt::Nomt::rollback")
    short = "Nomt::rollback"
    # find begin_session call
    calls = [(b, t) for b, t in body.calls() if (t.get("callee") or "").endswith("::begin_session")]
    if not calls:
        rep.violation("params", short, "begin_session|missing", "Nomt::rollback no longer calls begin_session", site=body.span)
        return
    for (cb, t) in calls:
        arg = t["args"][1] if len(t["args"]) > 1 else None
        if arg is None or arg["k"] not in ("copy", "move"):
            rep.violation("params", short, "begin_session|arg", "cannot identify the SessionParams argument", site=t.get("ln"))
            continue
        # the params local (follow simple moves)
        loc = arg["pl"]["l"]
        srcs = {loc}
        changed = True
        while changed:
            changed = False
            for l in list(srcs):
                for (b, i, kind, obj) in body.defs().get(l, []):
                    if kind == "assign" and obj["rv"]["k"] == "use" and obj["rv"]["op"]["k"] in ("copy", "move") and not obj["rv"]["op"]["pl"].get("p"):
                        s2 = obj["rv"]["op"]["pl"]["l"]
                        if s2 not in srcs:
                            srcs.add(s2)
                            changed = True
        for field in ("record_rollback_delta", "take_global_guard"):
            assigns = []
            for b in range(body.n):
                for i, s in enumerate(body.stmts(b)):
                    if s["k"] == "assign" and s["pl"]["l"] in srcs and fields_of(s["pl"]) == (field,):
                        assigns.append((b, i, s))
            const_false = [a for a in assigns if a[2]["rv"]["k"] == "use" and a[2]["rv"]["op"]["k"] == "const" and a[2]["rv"]["op"].get("int") == "0"]
            other = [a for a in assigns if a not in const_false]
            ok = bool(const_false) and not other and any(body.dominates(a[0], cb) for a in const_false)
            # no assignment of anything else after the dominating false-assignment is guaranteed by `not other`
            rep.check(
                ok, "params", short, "SessionParams.%s=false" % field,
                "the session run by Nomt::rollback does not have %s = false on every path to begin_session (%d constant-false stores, %d other stores)" % (field, len(const_false), len(other)),
                site=t.get("ln"),
                detail="%s assigned const false at %s, dominating begin_session at %s; no other store to the field" % (field, [a[2].get("ln") for a in const_false], t.get("ln")),
            )


def rollback_commits_after_truncate(facts, rep):
    """C09 K1: `Rollback::truncate(n)` pops the deltas in memory and arms the pending truncation of the on-disk log; both are
    only made consistent with the meta page by the rollback's OWN commit (its sync consumes the pending truncation).  Rule: in
    Nomt::rollback every success path from the truncation to the return passes FinishedSession::commit - there is no `Ok(())`
    short-cut after the truncation (an empty traceback still has to be synced)."""
    body = facts.body("nomt::Nomt::rollback")
    short = "Nomt::rollback"
    tr = [b for b, t in body.calls() if t.get("callee") == "nomt::rollback::Rollback::truncate" and not body.is_cleanup(b)]
    cm = [b for b, t in body.calls() if t.get("callee") == "nomt::FinishedSession::commit" and not body.is_cleanup(b)]
    if not tr:
        rep.notes.append("K1: Nomt::rollback no longer calls Rollback::truncate directly: not decided")
        return 0
    rem = set(body.ok_removed())
    n = 0
    for tb in tr:
        n += 1
        reach = body.reachable_flags(body.succ(tb), rem | set(cm))
        bad = sorted(set(body.return_blocks()) & reach)
        rep.check(not bad, "K1", short, "truncate-then-own-commit", "Nomt::rollback can return Ok after Rollback::truncate at %s without running its own commit (return at bb%s): the deltas are popped in memory and the truncation of the on-disk log stays pending - the next ordinary commit's sync consumes it and cuts its own delta out of the log" % (body.term(tb).get("ln"), bad), site=body.term(tb).get("ln"), detail="every success path from truncate at %s passes FinishedSession::commit (bb%s)" % (body.term(tb).get("ln"), cm))
    return n


VARIANT_PRESERVING = ("map", "take", "as_mut", "as_ref", "inspect", "cloned", "copied", "as_deref", "as_deref_mut", "replace", "unwrap", "expect", "into", "from", "clone")
VARIANT_DROPPING = ("filter", "and_then", "xor", "take_if", "zip", "and", "filter_map", "then", "then_some", "ok", "or", "or_else")


def one_delta_per_commit(facts, rep):
    """C09 K2: `rollback(n)` counts COMMITS, so every commit of a session that records rollback deltas appends exactly one delta -
    also a commit that wrote nothing.  Rule: in Session::finish the `rollback_delta` handed to the FinishedSession is Some
    whenever the session has a delta builder: it is computed from `self.rollback_delta` through variant-preserving Option
    plumbing only (take / map / as_mut ..); a `filter`, `and_then`, `take_if` .. or an explicit `None` on some path drops the
    delta of a commit and shifts what every later rollback(n) undoes."""
    body = facts.bodies.get("nomt::Session::finish") or facts.bodies.get("nomt::Session::<T>::finish")
    if body is None:
        raise CheckBroken("anchor missing: nomt::Session::finish")
    short = "Session::finish"
    n = 0
    for b in range(body.n):
        if body.is_cleanup(b):
            continue
        for s_ in body.stmts(b):
            if not (s_["k"] == "assign" and s_["rv"]["k"] == "agg" and str(s_["rv"].get("name", "")).endswith("FinishedSession") and "rollback_delta" in (s_["rv"].get("fields") or [])):
                continue
            op = s_["rv"]["ops"][s_["rv"]["fields"].index("rollback_delta")]
            n += 1
            bad, reached = [], False
            work, seen = [op], 0
            while work and seen < 20:
                cur = work.pop()
                seen += 1
                for r in trace(body, cur):
                    if r.kind == "param" and "rollback_delta" in r.fields:
                        reached = True
                    elif r.kind in ("call", "via") and r.obj is not None and r.obj.get("args") and "option::Option" in str(r.what):
                        m = str(r.what).rsplit("::", 1)[-1]
                        if m in VARIANT_DROPPING:
                            bad.append("`%s` at %s" % (m, r.obj.get("ln")))
                        work.append(r.obj["args"][0])
                    elif r.kind == "agg" and str(r.what).endswith("Option::None") and not r.fields:
                        # `match self.rollback_delta.take() { Some(b) => Some(b.finalize(..)), None => None }`: a None that is
                        # only reachable through the None edge of a branch on the builder's own variant is the builder's None
                        own = False
                        for sb in range(body.n):
                            st = body.term(sb)
                            if st["k"] != "switch" or body.is_cleanup(sb):
                                continue
                            rs = trace(body, st["d"])
                            if not any("<discr>" in x.fields and (("rollback_delta" in x.fields and x.kind == "param") or (x.kind in ("call", "via") and str(x.what).endswith("Option::take") and x.obj is not None and any("rollback_delta" in y.fields for y in trace(body, x.obj["args"][0])))) for x in rs):
                                continue
                            none_e = [tb for (v, tb) in st["vals"] if str(v) == "0"]
                            some_e = [tb for (v, tb) in st["vals"] if str(v) != "0"] + ([st["else"]] if body.term(st["else"])["k"] != "unreachable" else [])
                            if not none_e:
                                none_e, some_e = [st["else"]], [tb for (v, tb) in st["vals"]]
                            if r.bb in body.reachable(none_e) and r.bb not in body.reachable([e for e in some_e if e not in none_e]):
                                own = True
                        if not own:
                            bad.append("an explicit None at bb%d" % r.bb)
                    elif r.kind == "call" and r.obj is not None and r.obj.get("args"):
                        work.append(r.obj["args"][0])
            if not reached:
                rep.notes.append("K2: the rollback_delta of the FinishedSession built at %s is not computed from self.rollback_delta by Option plumbing: not decided" % s_.get("ln"))
                continue
            rep.check(not bad, "K2", short, "one-delta-per-commit", "Session::finish can drop the reverse delta of a session that records deltas (%s): that commit appends nothing to the rollback log, so every later rollback(n) undoes an earlier commit than the one asked for" % ", ".join(bad[:3]), site=s_.get("ln"), detail="FinishedSession.rollback_delta = self.rollback_delta.take().map(finalize): Some whenever the session has a builder")
    return n
