# E4 lockgraph — lock discipline (C15), structural part
#  L1 the held->acquired relation over all lock classes (incl. escaping guards, holder structs, joined
#     strands and the read-transaction barrier) has no conflicting cycle
#  L2 store/rollback mutation only under the access write guard   L3 who may create a guard-less session
#  L5 root check-and-set inside one access write-guard acquisition, each under Nomt.shared
#  L6 every API session holds the access read guard, taken before its first read transaction
#  L7 read-transaction barrier order
import re
from core import trace, roots, xtrace, fields_of, CheckBroken
import strands as strands_mod

ACQ = re.compile(r"^lock_api::(mutex::Mutex|rwlock::RwLock)::(lock|try_lock|read|write|try_read|try_write|lock_arc|read_arc|write_arc|try_lock_arc|try_read_arc|try_write_arc|upgradable_read)$")
GUARD_TY = re.compile(r"lock_api::(mutex::(MutexGuard|ArcMutexGuard|MappedMutexGuard)|rwlock::(RwLockReadGuard|RwLockWriteGuard|ArcRwLockReadGuard|ArcRwLockWriteGuard|RwLockUpgradableReadGuard))<")
LOCK_TY = re.compile(r"lock_api::(mutex::Mutex|rwlock::RwLock)<")

RT = "RT(read-transactions)"
ADD_ONE = "nomt::beatree::ReadTransactionCounter::add_one"
BLOCK0 = "nomt::beatree::ReadTransactionCounter::block_until_zero"
RELEASE_ONE = "nomt::beatree::ReadTransactionCounter::release_one"
RT_HOLDER = "nomt::beatree::ReadTransactionInner"

# reviewed same-class nesting (one line of reason each)
SAME_CLASS_OK = {
    "page_cache::CacheShard.locked": "PageCache::batch_update / evict take all shard locks in container order (the only multi-shard holders)",
}
# index-like plumbing through which a lock inside a container is reached
CONTAINER = ("::index", "::index_mut", "::next", "::iter", "::iter_mut", "::get", "::get_mut", "::get_unchecked", "::first", "::last", "::as_slice", "::deref")


def mode_of(callee):
    m = callee.rsplit("::", 1)[1]
    blocking = not m.startswith("try_")
    if "read" in m:
        return "R", blocking
    return "W", blocking  # mutex lock or rwlock write


def _payload_only(proj):
    """projection that only selects the payload of an enum variant: ['@Some', '.0']"""
    return bool(proj) and proj[0].startswith("@") and all(e.startswith("@") or re.fullmatch(r"\.\d+", e) for e in proj)


class LockModel:
    def __init__(self, facts, st):
        self.facts = facts
        self.st = st
        self.lock_fields = {}  # (owner, field) -> kind
        for a in facts.adts.values():
            if not a["name"].startswith("nomt::"):
                continue
            for v in a["variants"]:
                for f in v["fields"]:
                    if LOCK_TY.search(f["ty"]):
                        self.lock_fields[(a["name"], f["n"])] = "rwlock" if "rwlock::RwLock<" in f["ty"] else "mutex"
        self.alias = {}
        self._aliases()
        self.acqs = []  # dict(body, bb, cls, mode, blocking, ln)
        self.unclassified = []
        self._scan_acquisitions()
        self.holder_classes = {}  # ADT -> set((cls, mode))
        self._holders()
        self._may = {}
        self._held = {}
        self.spawn_at = {(s["body"].id, s["bb"]): s for s in st.spawns}
        self.join_at = {(j["body"].id, j["bb"]): j for j in st.joins}

    # ---- classes -------------------------------------------------------------------------
    def cname(self, owner, field):
        k = (owner, field)
        seen = set()
        while k in self.alias and k not in seen:
            seen.add(k)
            k = self.alias[k]
        return "%s.%s" % (k[0].split("::", 1)[1] if k[0].startswith("nomt::") else k[0], k[1])

    def _aliases(self):
        """a lock field initialised from (a clone of) another lock field denotes the same lock"""
        for body in self.facts.bodies.values():
            if body.crate != "nomt":
                continue
            for b in range(body.n):
                for s in body.stmts(b):
                    if s["k"] != "assign" or s["rv"]["k"] != "agg" or s["rv"].get("ak") != "adt":
                        continue
                    adt = s["rv"].get("name")
                    for fname, op in zip(s["rv"].get("fields", []), s["rv"]["ops"]):
                        if (adt, fname) not in self.lock_fields:
                            continue
                        for r in xtrace(self.facts, body, op, depth=3):
                            if r.path:
                                (f, o) = r.path[-1]
                                if (o, f) in self.lock_fields and (o, f) != (adt, fname):
                                    # canonical = the earlier (source) field
                                    self.alias[(adt, fname)] = (o, f)

    def class_of(self, body, op):
        xt = tuple({t.get("callee") for b in (body,) for _b, t in b.calls() if (t.get("callee") or "").endswith(CONTAINER)})
        out = set()
        for r in xtrace(self.facts, body, op, depth=5):
            for (f, o) in reversed(r.path):
                if (o, f) in self.lock_fields:
                    out.add(self.cname(o, f))
                    break
        if not out:
            for r in trace(body, op, extra_transparent=xt):
                for (f, o) in reversed(r.path):
                    if (o, f) in self.lock_fields:
                        out.add(self.cname(o, f))
                        break
                if r.kind == "call" and r.what in self.facts.bodies:
                    # e.g. Shared::shard_for(..) returning &Mutex: follow the callee's return
                    cal = self.facts.bodies[r.what]
                    xt2 = tuple({t.get("callee") for _b, t in cal.calls() if (t.get("callee") or "").endswith(CONTAINER)})
                    for r2 in trace(cal, {"l": 0}, extra_transparent=xt2):
                        for (f, o) in reversed(r2.path):
                            if (o, f) in self.lock_fields:
                                out.add(self.cname(o, f))
                                break
        return out

    def _scan_acquisitions(self):
        for body in self.facts.bodies.values():
            if body.crate != "nomt":
                continue
            for b, t in body.calls():
                c = t.get("callee") or ""
                if body.is_cleanup(b):
                    continue
                if ACQ.match(c):
                    cls = self.class_of(body, t["args"][0])
                    mode, blocking = mode_of(c)
                    if not cls:
                        self.unclassified.append((body.id, t.get("ln")))
                        cls = {"?"}
                    for k in cls:
                        self.acqs.append({"body": body, "bb": b, "cls": k, "mode": mode, "blocking": blocking, "ln": t.get("ln")})
                elif c == BLOCK0:
                    self.acqs.append({"body": body, "bb": b, "cls": RT, "mode": "W", "blocking": True, "ln": t.get("ln")})
                elif c == ADD_ONE:
                    self.acqs.append({"body": body, "bb": b, "cls": RT, "mode": "R", "blocking": False, "ln": t.get("ln")})
        self.acq_at = {}
        for a in self.acqs:
            self.acq_at.setdefault((a["body"].id, a["bb"]), []).append(a)

    # ---- holders -------------------------------------------------------------------------
    def _holders(self):
        """ADTs that (transitively) contain a guard; classes from their construction sites"""
        adts = {n: a for n, a in self.facts.adts.items() if n.startswith("nomt::")}
        holder = set()
        changed = True
        while changed:
            changed = False
            for n, a in adts.items():
                if n in holder:
                    continue
                for v in a["variants"]:
                    for f in v["fields"]:
                        if GUARD_TY.search(f["ty"]) or any(self._names(h, f["ty"]) for h in holder):
                            holder.add(n)
                            changed = True
                            break
        holder.add(RT_HOLDER)
        self.holder_adts = holder
        classes = {h: set() for h in holder}
        classes[RT_HOLDER].add((RT, "R"))
        # seed: aggregates whose guard-typed field operand traces to an acquisition
        for _round in range(4):
            for body in self.facts.bodies.values():
                if body.crate != "nomt":
                    continue
                for b in range(body.n):
                    for s in body.stmts(b):
                        if s["k"] != "assign" or s["rv"]["k"] != "agg" or s["rv"].get("name") not in holder:
                            continue
                        h = s["rv"]["name"]
                        for op in s["rv"]["ops"]:
                            for cm in self.classes_of_value(body, op, classes):
                                classes[h].add(cm)
        self.holder_classes = classes

    def _names(self, adt, ty):
        return re.search(r"(^|[^A-Za-z0-9_:])%s($|[^A-Za-z0-9_])" % re.escape(adt), ty) is not None

    def holders_in_type(self, ty):
        return [h for h in self.holder_adts if self._names(h, ty)]

    def classes_of_value(self, body, op, classes=None, _depth=0):
        """(class, mode) pairs a value may hold: from acquisition calls it derives from, or holder ADTs in its type"""
        classes = classes if classes is not None else self.holder_classes
        out = set()
        ty = body.op_ty(op) if "k" in op else body.place_ty(op)
        if not (GUARD_TY.search(ty) or self.holders_in_type(ty)):
            return out
        rs = list(trace(body, op)) + list(xtrace(self.facts, body, op, depth=3))
        for r in rs:
            if r.kind in ("call", "via") and r.body in self.facts.bodies:
                for a in self.acq_at.get((r.body, r.bb), []):
                    out.add((a["cls"], a["mode"]))
            if r.kind == "call" and str(r.what) in self.facts.bodies and _depth < 2 and self.facts.bodies[str(r.what)].crate == "nomt":
                # a helper that hands out the guard it acquires (`fn try_write(self, lock) -> Option<Guard> { lock.try_write() }`)
                hb_ = self.facts.bodies[str(r.what)]
                if GUARD_TY.search(hb_.local_ty(0)):
                    for (hid, hbb), acqs in self.acq_at.items():
                        if hid != hb_.id:
                            continue
                        d_ = hb_.term(hbb).get("dest") or {}
                        if (d_.get("l") == 0 and not d_.get("p")) or any(x.bb == hbb for x in trace(hb_, {"l": 0}, deep=True)):
                            for a in acqs:
                                out.add((a["cls"], a["mode"]))
            if r.kind == "agg" and r.obj is not None and r.body in self.facts.bodies and _depth < 3:
                # `Some(lock.write())` built in a helper: the guard is the payload
                ab = self.facts.bodies[r.body]
                for o in r.obj.get("ops", []):
                    if o.get("k") in ("move", "copy"):
                        out |= self.classes_of_value(ab, o, classes, _depth + 1)
            if r.kind == "call" and r.obj is not None:
                # closure argument whose return value is the guard (bool::then(|| lock.write()))
                cb = self.facts.bodies.get(r.body)
                for a in r.obj.get("args", []):
                    for rr in roots(cb, a) if cb is not None else []:
                        if rr.kind == "agg" and rr.obj and rr.obj.get("ak") == "closure" and rr.obj["name"] in self.facts.bodies:
                            clo = self.facts.bodies[rr.obj["name"]]
                            for r3 in trace(clo, {"l": 0}):
                                if r3.kind in ("call", "via"):
                                    for a3 in self.acq_at.get((clo.id, r3.bb), []):
                                        out.add((a3["cls"], a3["mode"]))
        for h in self.holders_in_type(ty):
            out |= classes.get(h, set())
        return out

    # ---- held sets (forward dataflow, per block entry/terminator) ---------------------------
    def held(self, body):
        """returns dict bb -> set of (local, cls, mode) held when the block's TERMINATOR executes, and
        the per-block entry sets"""
        if body.id in self._held:
            return self._held[body.id]
        bearing = {}
        for l, ld in enumerate(body.locals):
            if GUARD_TY.search(ld["ty"]) or self.holders_in_type(ld["ty"]):
                # references to holders do not own the guard, except parameters (the caller holds it)
                bearing[l] = ld["ty"]
        entry = {b: set() for b in range(body.n)}
        init = set()
        for l in range(1, body.argc + 1):
            if l in bearing:
                for (cls, mode) in self.classes_of_value(body, {"k": "copy", "pl": {"l": l}}):
                    init.add((l, cls, mode))
        if body.kind == "Closure" and body.argc >= 1:
            # captured guards / holders
            pass
        entry[0] = set(init)
        at_term = {}
        work = [0]
        seen_state = {}
        while work:
            b = work.pop()
            cur = set(entry[b])
            for s in body.stmts(b):
                k = s["k"]
                if k == "dead":
                    cur = {x for x in cur if x[0] != s["l"]}
                elif k == "assign":
                    pl = s["pl"]
                    rv = s["rv"]
                    # moves out of a bearing local
                    src = None
                    if rv["k"] == "use" and rv["op"]["k"] == "move" and (not rv["op"]["pl"].get("p") or _payload_only(rv["op"]["pl"]["p"])):
                        # whole-local move, or the payload of an Option / Result holder (`let Some(guard) = opt else ..`)
                        src = rv["op"]["pl"]["l"]
                    elif rv["k"] == "agg":
                        for o in rv["ops"]:
                            if o["k"] == "move" and not o["pl"].get("p") and any(x[0] == o["pl"]["l"] for x in cur):
                                moved = {x for x in cur if x[0] == o["pl"]["l"]}
                                cur -= moved
                                if not pl.get("p") and pl["l"] in bearing and pl["l"] != 0:
                                    cur |= {(pl["l"], c, m) for (_l, c, m) in moved}
                    if src is not None and any(x[0] == src for x in cur):
                        moved = {x for x in cur if x[0] == src}
                        cur -= moved
                        if not pl.get("p") and pl["l"] != 0 and pl["l"] in bearing:
                            cur |= {(pl["l"], c, m) for (_l, c, m) in moved}
            at_term[b] = set(cur)
            t = body.term(b)
            out = set(cur)
            if t["k"] == "drop":
                out = {x for x in out if x[0] != t["pl"]["l"] or t["pl"].get("p")}
            elif t["k"] == "call":
                # registering with the read-transaction counter is a shared acquisition of the barrier that lasts (at least)
                # until the function returns: the count is only given back when the ReadTransaction built from it is dropped
                if (t.get("callee") or "") == ADD_ONE:
                    out.add((-1, RT, "R"))
                elif (t.get("callee") or "") == RELEASE_ONE:
                    out = {x for x in out if x[0] != -1}
                # by-value arguments transfer the guard to the callee
                for a in t["args"]:
                    if a["k"] == "move" and not a["pl"].get("p"):
                        out = {x for x in out if x[0] != a["pl"]["l"]}
                d = t["dest"]
                if not d.get("p") and d["l"] in bearing and d["l"] != 0:
                    out = {x for x in out if x[0] != d["l"]}
                    for (cls, mode) in self._classes_of_call_result(body, b, t):
                        out.add((d["l"], cls, mode))
            for s_ in body.succ(b):
                if body.is_cleanup(s_):
                    continue
                new = entry[s_] | out
                if new != entry[s_] or s_ not in seen_state:
                    entry[s_] = new
                    seen_state[s_] = True
                    work.append(s_)
        self._held[body.id] = (at_term, entry)
        return self._held[body.id]

    def _classes_of_call_result(self, body, b, t):
        out = set()
        for a in self.acq_at.get((body.id, b), []):
            out.add((a["cls"], a["mode"]))
        if out:
            return out
        return self.classes_of_value(body, {"k": "copy", "pl": t["dest"]})

    # ---- may-acquire summaries ------------------------------------------------------------
    def may_acquire(self, fn_id, stack=()):
        """set of (cls, mode, site) blocking-acquired by fn (sync callees, sync closures, joined tasks)"""
        if fn_id in self._may:
            return self._may[fn_id]
        if fn_id in stack or fn_id not in self.facts.bodies:
            return set()
        body = self.facts.bodies[fn_id]
        if body.crate != "nomt":
            return set()
        out = set()
        spawned = set()
        for b, t in body.calls():
            if body.is_cleanup(b):
                continue
            c = t.get("callee") or ""
            for a in self.acq_at.get((fn_id, b), []):
                if a["blocking"]:
                    out.add((a["cls"], a["mode"], a["ln"]))
            if c == strands_mod.SPAWN:
                sp = self.spawn_at.get((fn_id, b))
                if sp and sp["task"]:
                    spawned.add(sp["task"])
                continue
            if c == strands_mod.JOIN:
                j = self.join_at.get((fn_id, b))
                if j:
                    for sp in self.st.spawns:
                        if sp["chan"] & j["chan"] and sp["task"]:
                            out |= self.may_acquire(sp["task"], stack + (fn_id,))
                continue
            if c in self.facts.bodies and c != fn_id:
                out |= self.may_acquire(c, stack + (fn_id,))
            elif not t.get("res"):
                for cc in self.facts.trait_impl_candidates(t.get("orig", c)):
                    out |= self.may_acquire(cc, stack + (fn_id,))
        for b in range(body.n):
            for s in body.stmts(b):
                if s["k"] == "assign" and s["rv"]["k"] == "agg" and s["rv"].get("ak") == "closure":
                    nm = s["rv"]["name"]
                    if nm not in spawned:
                        out |= self.may_acquire(nm, stack + (fn_id,))
        if not stack:
            self._may[fn_id] = out
        return out

    # ---- edges ---------------------------------------------------------------------------
    def edges(self):
        """list of dict(frm, frm_mode, to, to_mode, fn, site, via)"""
        E = []
        for body in self.facts.bodies.values():
            if body.crate != "nomt":
                continue
            at_term, entry = self.held(body)
            for b, t in body.calls():
                if body.is_cleanup(b):
                    continue
                H = at_term.get(b, set())
                if not H:
                    continue
                c = t.get("callee") or ""
                acquired = set()
                for a in self.acq_at.get((body.id, b), []):
                    if a["blocking"]:
                        acquired.add((a["cls"], a["mode"], a["ln"], "direct"))
                if c == strands_mod.JOIN:
                    j = self.join_at.get((body.id, b))
                    if j:
                        for sp in self.st.spawns:
                            if sp["chan"] & j["chan"] and sp["task"]:
                                for (cls, mode, ln) in self.may_acquire(sp["task"]):
                                    acquired.add((cls, mode, ln, "join of task %s" % sp["task"].split("::", 1)[1]))
                elif c in self.facts.bodies and c not in (strands_mod.SPAWN,):
                    for (cls, mode, ln) in self.may_acquire(c):
                        acquired.add((cls, mode, ln, "call %s" % c.split("::", 1)[1]))
                elif not t.get("res") and not ACQ.match(c):
                    for cc in self.facts.trait_impl_candidates(t.get("orig", c)):
                        for (cls, mode, ln) in self.may_acquire(cc):
                            acquired.add((cls, mode, ln, "call %s" % cc.split("::", 1)[1]))
                # the local receiving the guard of this very call is not yet held
                for (l, hc, hm) in H:
                    for (cls, mode, ln, via) in acquired:
                        E.append({"frm": hc, "frm_mode": hm, "to": cls, "to_mode": mode, "fn": body.id, "site": t.get("ln"), "via": via, "acq_site": ln})
        return E


ROLLBACK_COND = ("call Nomt::begin_session", "call FinishedSession::commit")


def rollback_flags_false(facts):
    import core
    import guardfx

    import sessionsem

    r = core.Report("tmp", "quick")
    _n, decided = sessionsem.run(facts, r, parts=("params",))
    if not decided:
        guardfx.session_params_const_false(facts, r)
    return not r.violations and r.obligations >= 2


def conflicting(acq_mode, hold_mode, cls, kinds):
    if kinds.get(cls) == "mutex" or cls == RT and (acq_mode == "W" or hold_mode == "W"):
        return True if cls != RT else (acq_mode == "W" or hold_mode == "W")
    return acq_mode == "W" or hold_mode == "W"


def find_cycles(E, kinds):
    """elementary cycles in the class graph in which every acquisition conflicts with the next hold"""
    adj = {}
    for e in E:
        if e["frm"] == e["to"]:
            continue
        adj.setdefault(e["frm"], {}).setdefault(e["to"], []).append(e)
    cycles = []
    nodes = sorted(adj)

    def dfs(start, cur, path, visited):
        for nxt, es in adj.get(cur, {}).items():
            if nxt == start and len(path) >= 1:
                cyc = path + [(cur, nxt, es)]
                cycles.append(cyc)
            elif nxt not in visited and nxt > start and len(path) < 6:
                dfs(start, nxt, path + [(cur, nxt, es)], visited | {nxt})

    for s in nodes:
        dfs(s, s, [], {s})
    real = []
    for cyc in cycles:
        # choose for every hop the edges; conflict check between hop i's acquisition of Y and hop i+1's hold of Y
        ok = True
        chosen = []
        for i, (a, b, es) in enumerate(cyc):
            nxt_es = cyc[(i + 1) % len(cyc)][2]
            pair = None
            for e1 in es:
                for e2 in nxt_es:
                    k = kinds.get(b.split(".", 1)[0] and b, None)
                    is_mutex = kinds.get(b) == "mutex"
                    if is_mutex or e1["to_mode"] == "W" or e2["frm_mode"] == "W":
                        pair = (e1, e2)
                        break
                if pair:
                    break
            if not pair:
                ok = False
                break
            chosen.append(pair[0])
        if ok:
            real.append(chosen)
    return real


def run(facts, rep, st):
    M = LockModel(facts, st)
    n = 0
    kinds = {M.cname(o, f): k for (o, f), k in M.lock_fields.items()}
    kinds[RT] = "rwlock"
    rep.extra["lock_classes"] = sorted(kinds)
    rep.extra["acquisition_sites"] = len(M.acqs)
    rep.extra["holder_adts"] = {h.split("::", 1)[1]: sorted("%s:%s" % cm for cm in M.holder_classes.get(h, ())) for h in sorted(M.holder_adts)}
    for (fn, ln) in M.unclassified:
        n += 1
        rep.violation("L1", fn.split("::", 1)[1], "unclassified-lock", "cannot determine which lock is acquired at %s (fail closed)" % ln, site=ln)
    E = M.edges()
    rep.extra["held_acquired_edges"] = len(E)
    pairs = {}
    for e in E:
        pairs.setdefault((e["frm"], e["to"]), []).append(e)
    # same-class nesting
    for (a, b), es in sorted(pairs.items()):
        n += 1
        if a == b:
            e = es[0]
            if a in SAME_CLASS_OK:
                rep.ok("L1", e["fn"].split("::", 1)[1], "nested|%s" % a, detail=SAME_CLASS_OK[a])
            elif kinds.get(a) == "rwlock" and all(x["frm_mode"] == "R" and x["to_mode"] == "R" for x in es):
                rep.ok("L1", e["fn"].split("::", 1)[1], "nested-read|%s" % a, detail="recursive read acquisition of %s at %s (a hazard only while a writer of that class can wait; reported, not a verdict)" % (a, e["site"]))
                rep.notes.append("recursive read of %s at %s via %s" % (a, e["site"], e["via"]))
            elif a == ACCESS and all(x["fn"] == "nomt::Nomt::rollback" and x["via"] in ROLLBACK_COND for x in es) and rollback_flags_false(facts):
                rep.ok("L1", "Nomt::rollback", "nested|%s|conditional" % a, detail="the only re-acquisitions of the access lock under rollback's write guard go through begin_session / FinishedSession::commit, which take it only when take_global_guard is true; rollback sets it to constant false on every path (machine-checked here and by L3)")
            else:
                e = [x for x in es if not (x["fn"] == "nomt::Nomt::rollback" and x["via"] in ROLLBACK_COND)][0] if a == ACCESS and any(not (x["fn"] == "nomt::Nomt::rollback" and x["via"] in ROLLBACK_COND) for x in es) else e
                rep.violation("L1", e["fn"].split("::", 1)[1], "nested|%s" % a, "%s is acquired (%s, at %s via %s) while a guard of the same lock class is held in %s: self-deadlock" % (a, e["to_mode"], e["acq_site"], e["via"], e["fn"]), site=e["site"])
        else:
            e = es[0]
            rep.ok("L1", e["fn"].split("::", 1)[1], "order|%s -> %s" % (a, b), detail="%s(%s) held in %s while %s(%s) is acquired at %s via %s" % (a, e["frm_mode"], e["fn"].split("::", 1)[1], b, e["to_mode"], e["acq_site"], e["via"]))
    cycles = find_cycles(E, kinds)
    seen = set()
    for cyc in cycles:
        key = " -> ".join(sorted({e["frm"] for e in cyc}))
        if key in seen:
            continue
        seen.add(key)
        n += 1
        desc = "; ".join("%s(%s) held in %s while acquiring %s(%s) at %s [%s]" % (e["frm"], e["frm_mode"], e["fn"].split("::", 1)[1], e["to"], e["to_mode"], e["acq_site"], e["via"]) for e in cyc)
        rep.violation("L1", "lock-order", "cycle|" + " -> ".join(e["frm"] for e in cyc), "lock-order cycle (each acquisition conflicts with the next hold): " + desc, site=cyc[0]["site"])
    n += 1
    rep.check(True, "L1", "lock-order", "acyclic", "", detail="%d lock classes, %d acquisition sites, %d held->acquired pairs, %d conflicting cycles" % (len(kinds), len(M.acqs), len(pairs), len(cycles)))
    return M, n, len(pairs)


# ---- L2 .. L7 ----------------------------------------------------------------------------------

ACCESS = "Nomt.access_lock"
SHARED = "Nomt.shared"


def resolve_shared_class(facts):
    """the lock class of the committed-root mutex: the field of `Nomt` that is a Mutex around the struct holding the committed
    root (a private field may be renamed)"""
    global SHARED
    adt = facts.adts.get("nomt::Nomt")
    for v in (adt or {}).get("variants", []):
        for f in v.get("fields", []):
            ty = f.get("ty", "")
            m = re.search(r"mutex::Mutex<[^,]+, (nomt::[A-Za-z0-9_:]+)>", ty)
            if not m:
                continue
            inner = facts.adts.get(m.group(1))
            if inner and any(g.get("ty") == "nomt::Root" for vv in inner.get("variants", []) for g in vv.get("fields", [])):
                SHARED = "Nomt.%s" % f["n"]
                return SHARED
    return SHARED
TREE_SHARED = "beatree::Tree.shared"
MUTATORS = {
    "nomt::store::Store::commit": "Store::commit",
    "nomt::rollback::Rollback::commit": "Rollback::commit",
    "nomt::rollback::Rollback::commit_nonblocking": "Rollback::commit_nonblocking",
    "nomt::rollback::Rollback::truncate": "Rollback::truncate",
}


def effectively_held(facts, M, body, bb, cls, mode, depth=0, seen=None):
    """a guard of (cls, mode) is held when the terminator of bb executes: in this body, or - for a helper - at
    every call site of this function (recursively)"""
    seen = seen if seen is not None else set()
    at_term, entry = M.held(body)
    if any(c == cls and m == mode for (_l, c, m) in at_term.get(bb, set())):
        return True
    if depth > 3 or body.id in seen or body.kind == "Closure":
        return False
    seen.add(body.id)
    callers = [x for x in facts.callers().get(body.id, []) if x[2] == "call"]
    if not callers or body.vis == "pub":
        return False
    return all(effectively_held(facts, M, facts.bodies[cid], cb, cls, mode, depth + 1, seen) for (cid, cb, k) in callers)


def l2(facts, rep, M):
    """mutation of the store / rollback log only under the access write guard"""
    n = 0
    for body in facts.bodies.values():
        if body.crate != "nomt" or "::tests::" in body.id:
            continue
        at_term, entry = M.held(body)
        for b, t in body.calls():
            c = t.get("callee") or ""
            if c not in MUTATORS or body.is_cleanup(b):
                continue
            n += 1
            H = at_term.get(b, set())
            ok = any(cls == ACCESS and mode == "W" for (_l, cls, mode) in H) or effectively_held(facts, M, body, b, ACCESS, "W")
            why = "access write guard held"
            if not ok and body.id == "nomt::FinishedSession::commit":
                pass
            rep.check(ok, "L2", body.id.split("::", 1)[1], "call=%s" % MUTATORS[c], "%s is called at %s in %s without the access write guard being held: a concurrent session could observe a half-applied commit" % (MUTATORS[c], t.get("ln"), body.id), site=t.get("ln"), detail="%s at %s under %s" % (MUTATORS[c], t.get("ln"), sorted({(c_, m_) for (_l, c_, m_) in H})))
    return n


def l3(facts, rep, M):
    """take_global_guard = false only in Nomt::rollback under the write guard; FinishedSession.take_global_guard
    derives from access_guard.is_some().  The SessionParams half is decided semantically (rules/sessionsem.py) whenever the
    parameter values can be evaluated; the field-level rules below then only cover FinishedSession."""
    import sessionsem
    import core

    n, decided = sessionsem.run(facts, rep, parts=("l3",))
    skip_params = decided
    for body in facts.bodies.values():
        if body.crate != "nomt":
            continue
        at_term, entry = M.held(body)
        for b in range(body.n):
            if body.is_cleanup(b):
                continue
            for s in body.stmts(b):
                if s["k"] != "assign":
                    continue
                pl = s["pl"]
                if not skip_params and "take_global_guard" in fields_of(pl) and pl.get("o", [""])[-1] in ("nomt::SessionParams",):
                    rv = s["rv"]
                    is_false = rv["k"] == "use" and rv["op"]["k"] == "const" and rv["op"].get("int") == "0"
                    n += 1
                    if is_false:
                        # held at the statement: approximated by the block's entry + earlier acquisitions in the block (none expected)
                        H = entry.get(b, set()) | at_term.get(b, set())
                        ok = body.id == "nomt::Nomt::rollback" and any(cls == ACCESS and mode == "W" for (_l, cls, mode) in H)
                        rep.check(ok, "L3", body.id.split("::", 1)[1], "take_global_guard=false", "SessionParams.take_global_guard is set to false at %s in %s: only Nomt::rollback, while holding the access write guard, may run a session without the global read guard" % (s.get("ln"), body.id), site=s.get("ln"), detail="set to false at %s under the access write guard" % s.get("ln"))
                    else:
                        rep.check(rv["k"] == "use" and rv["op"]["k"] == "const" and rv["op"].get("int") == "1" or body.id.endswith("Default>::default"), "L3", body.id.split("::", 1)[1], "take_global_guard=?", "SessionParams.take_global_guard is assigned a non-constant value at %s" % s.get("ln"), site=s.get("ln"), detail="assigned true")
                if s["rv"]["k"] == "agg" and s["rv"].get("name") in ("nomt::SessionParams", "nomt::FinishedSession"):
                    fl = s["rv"]["fields"]
                    if "take_global_guard" in fl:
                        op = s["rv"]["ops"][fl.index("take_global_guard")]
                        n += 1
                        if s["rv"]["name"] == "nomt::SessionParams":
                            if skip_params:
                                n -= 1
                                continue
                            ok = op["k"] == "const" and op.get("int") == "1"
                            rep.check(ok, "L3", body.id.split("::", 1)[1], "SessionParams{take_global_guard}", "a SessionParams is built at %s with take_global_guard not constant true" % s.get("ln"), site=s.get("ln"), detail="take_global_guard: true")
                        else:
                            ok = False
                            for r in trace(body, op):
                                if r.kind == "call" and r.what.endswith("Option::is_some") and r.obj:
                                    if any("access_guard" in rr.fields for rr in trace(body, r.obj["args"][0])):
                                        ok = True
                            rep.check(ok, "L3", body.id.split("::", 1)[1], "FinishedSession{take_global_guard}", "FinishedSession.take_global_guard at %s is not `access_guard.is_some()`: a commit could skip the write guard although the session held the read guard" % s.get("ln"), site=s.get("ln"), detail="take_global_guard: self.access_guard.is_some()")
    return n


def _held_any_mode(facts, M, body, bb, cls, depth=0, seen=None):
    """like effectively_held, for any mode of cls (a helper taking `&Shared` / `&mut Shared` is fine when every caller holds
    the Nomt.shared guard across the call)"""
    seen = seen if seen is not None else set()
    at_term, entry = M.held(body)
    if any(c == cls for (_l, c, _m) in (at_term.get(bb, set()) | entry.get(bb, set()))):
        return True
    if depth > 3 or body.id in seen or body.kind == "Closure":
        return False
    seen.add(body.id)
    callers = [x for x in facts.callers().get(body.id, []) if x[2] == "call"]
    if not callers or body.vis == "pub":
        return False
    return all(_held_any_mode(facts, M, facts.bodies[cid], cb, cls, depth + 1, seen) for (cid, cb, k) in callers)


def _result_checked(body, b):
    """the Result produced by the call at b goes into `?` / unwrap / expect"""
    d = body.term(b)["dest"]
    if d.get("p"):
        return False
    for b2, t2 in body.calls():
        c2 = t2.get("callee") or ""
        if (c2.endswith("Try>::branch") or c2.endswith("::unwrap") or c2.endswith("::expect")) and t2["args"]:
            if any(r.kind == "call" and r.bb == b for r in trace(body, t2["args"][0])):
                return True
    return False


def l5(facts, rep, M):
    """every comparison of the committed root with a changeset's base and every store to the committed root
    happens under Nomt.shared; every store is preceded by a comparison, and both lie inside one acquisition of the access
    write guard.  Location-independent: a comparison / store that sits in a helper working on a `&Shared` it was handed
    (e.g. `Shared::ensure_root_is(&self, ..) -> Result`, `Shared::advance(&mut self, ..)`) counts at the helper's call sites."""
    n = 0
    direct = {}
    for body in facts.bodies.values():
        if body.crate != "nomt" or "::tests::" in body.id or body.derived:
            continue
        checks, stores, via_param = [], [], True
        for b, t in body.calls():
            c = t.get("callee") or ""
            if (c.endswith("PartialEq::ne") or c.endswith("PartialEq::eq") or c.endswith("PartialEq>::ne") or c.endswith("PartialEq>::eq")) and t["args"]:
                if all(body.op_ty(a).replace("&", "").strip() == "nomt::Root" for a in t["args"]):
                    hit = [r for a in t["args"] for r in trace(body, a) if r.path and r.path[-1] == ("root", "nomt::Shared")]
                    if hit:
                        checks.append((b, t.get("ln")))
                        if not all(r.kind == "param" for r in hit):
                            via_param = False
        for b in range(body.n):
            if body.is_cleanup(b):
                continue
            for s_ in body.stmts(b):
                if s_["k"] == "assign" and fields_of(s_["pl"])[-1:] == ("root",) and (s_["pl"].get("o") or [""])[-1] == "nomt::Shared":
                    stores.append((b, s_.get("ln")))
                    if not (1 <= s_["pl"]["l"] <= body.argc):
                        via_param = False
        if checks or stores:
            direct[body.id] = (checks, stores, via_param and body.kind != "Closure")
    helpers = {f for f, (c, st, vp) in direct.items() if vp and [x for x in facts.callers().get(f, []) if x[2] == "call"]}
    # what a helper contributes at its call sites: a guard-like check (dominates the helper's Ok returns) and/or a store
    contrib = {}
    for h in helpers:
        hb = facts.bodies[h]
        (checks, stores, _vp) = direct[h]
        oks = hb.ok_returns()
        rem = hb.ok_removed()
        is_check = bool(checks) and bool(oks) and all(any(hb.dominates(cb, r, removed=rem) for (cb, _ln) in checks) for r in oks) and hb.local_ty(0).startswith("core::result::Result<")
        contrib[h] = (is_check, bool(stores))
    found_fns = 0
    for body in facts.bodies.values():
        if body.crate != "nomt" or "::tests::" in body.id or body.derived:
            continue
        checks, stores = [], []
        if body.id in direct and body.id not in helpers:
            checks, stores = list(direct[body.id][0]), list(direct[body.id][1])
        for b, t in body.calls():
            c = t.get("callee") or ""
            if c in helpers and not body.is_cleanup(b):
                (is_check, is_store) = contrib[c]
                if is_check and _result_checked(body, b):
                    checks.append((b, t.get("ln")))
                if is_store:
                    stores.append((b, t.get("ln")))
        short = body.id.split("::", 1)[1]
        if body.id in helpers:
            found_fns += 1
            for (b, ln) in direct[body.id][0] + direct[body.id][1]:
                n += 1
                what = "comparison" if (b, ln) in direct[body.id][0] else "store"
                rep.check(_held_any_mode(facts, M, body, b, SHARED), "L5", short, "%s-under-shared" % what, "the root %s at %s sits in a helper that is not always called with the Nomt.shared mutex held" % (what, ln), site=ln, detail="helper on a `&Shared` it is handed: every caller holds Nomt.shared across the call")
        if not checks and not stores:
            continue
        if body.id not in helpers:
            found_fns += 1
        at_term, entry = M.held(body)
        if body.id not in helpers:
            for (b, ln) in checks + stores:
                n += 1
                what = "comparison" if (b, ln) in checks else "store"
                H = entry.get(b, set()) | at_term.get(b, set())
                rep.check(any(cls == SHARED for (_l, cls, _m) in H), "L5", short, "%s-under-shared" % what, "the root %s at %s is not performed under the Nomt.shared mutex" % (what, ln), site=ln, detail="root %s at %s under Nomt.shared" % (what, ln))
        for (sb, sln) in stores:
            n += 1
            doms = [(cb, cln) for (cb, cln) in checks if cb != sb and body.dominates(cb, sb)]
            if not rep.check(bool(doms), "L5", short, "store-after-check", "the committed root is overwritten at %s without a preceding comparison with the changeset's base in the same function" % sln, site=sln, detail="store at %s dominated by the comparison at %s" % (sln, [c[1] for c in doms])):
                continue
            n += 1
            Hs = entry.get(sb, set()) | at_term.get(sb, set())
            ws = {l for (l, cls, m) in Hs if cls == ACCESS and m == "W"}
            ok = False
            why = ""
            for (cb, cln) in doms:
                Hc = entry.get(cb, set()) | at_term.get(cb, set())
                wc = {l for (l, cls, m) in Hc if cls == ACCESS and m == "W"}
                if ws & wc:
                    ok = True
                    why = "the same write-guard local %s is held at the comparison (%s) and at the store (%s)" % (sorted(ws & wc), cln, sln)
                elif not ws and not wc and effectively_held(facts, M, body, sb, ACCESS, "W") and effectively_held(facts, M, body, cb, ACCESS, "W"):
                    ok = True
                    why = "helper: every caller holds the access write guard across the call"
            rep.check(ok, "L5", short, "one-write-guard", "the previous-root check and the root update in %s are not covered by one and the same access write-guard acquisition: a competing commit can slip in between" % body.id, site=sln, detail=why)
    rep.floor("L5 functions with root check / store", found_fns, 2)
    return n


def l6(facts, rep, M):
    """begin_session takes the access read guard (when take_global_guard) before the first read transaction"""
    n = 0
    body = facts.body("nomt::Nomt::begin_session")
    short = "Nomt::begin_session"
    # the guard: a call to bool::then whose closure acquires access_lock in read mode
    acq_sites = []
    for b, t in body.calls():
        for (cls, mode) in M.classes_of_value(body, {"k": "copy", "pl": t["dest"]}) if (GUARD_TY.search(body.place_ty(t["dest"])) or M.holders_in_type(body.place_ty(t["dest"]))) else []:
            if cls == ACCESS and mode == "R" and not any((c2, m2) == (ACCESS, "R") for (c2, m2) in []):
                acq_sites.append((b, t))
    acq_sites = [(b, t) for (b, t) in acq_sites if (t.get("callee") or "").endswith("::then") or ACQ.match(t.get("callee") or "")]
    n += 1
    if not rep.check(bool(acq_sites), "L6", short, "takes-read-guard", "begin_session no longer takes the access read guard", site=body.span, detail="guard taken at %s" % [t.get("ln") for (b, t) in acq_sites]):
        return n
    gb = acq_sites[0][0]
    gt = acq_sites[0][1]
    # conditioned on params.take_global_guard
    if (gt.get("callee") or "").endswith("::then"):
        n += 1
        import termination

        # the condition is a field of the SessionParams parameter, or computed from one (`params.origin.takes_global_guard()`)
        ok = any("take_global_guard" in r.fields for r in trace(body, gt["args"][0])) or termination.derives_from(
            body, gt["args"][0], lambda r: r.kind == "param" and r.fields and "SessionParams" in body.local_ty(r.what)
        )
        rep.check(ok, "L6", short, "guard-iff-take_global_guard", "the access read guard in begin_session is no longer conditioned on params.take_global_guard alone", site=gt.get("ln"), detail="params.take_global_guard.then(|| read_arc(access_lock))")
    # stored into Session.access_guard
    n += 1
    stored = False
    for b in range(body.n):
        for s in body.stmts(b):
            if s["k"] == "assign" and s["rv"]["k"] == "agg" and s["rv"].get("name") == "nomt::Session":
                fl = s["rv"]["fields"]
                if True:
                    def holds_guard(op, depth=0):
                        for r in trace(body, op):
                            if r.kind in ("call", "via") and r.bb == gb:
                                return True
                            if r.kind == "agg" and r.obj is not None and depth < 3 and any(holds_guard(o, depth + 1) for o in r.obj.get("ops", [])):
                                return True  # `Some(guard)` built by a (spliced) helper
                        return False

                    # whichever field of Session keeps it (today `access_guard`)
                    if any(holds_guard(o) for o in s["rv"]["ops"]):
                        stored = True
    rep.check(stored, "L6", short, "guard-stored-in-session", "the access read guard taken by begin_session is not stored in the Session it returns: the session would not exclude writers for its lifetime", site=gt.get("ln"), detail="Session { access_guard, .. }")
    # before anything that starts a read transaction
    rt_fns = set()
    for fn in facts.bodies:
        if fn.startswith("nomt::"):
            pass
    starters = []
    for b, t in body.calls():
        c = t.get("callee") or ""
        if c in facts.bodies and b != gb:
            reach = facts.reach([c])
            if "nomt::beatree::Tree::read_transaction" in reach or c == "nomt::beatree::Tree::read_transaction":
                starters.append((b, c, t.get("ln")))
    for b in range(body.n):
        for s in body.stmts(b):
            if s["k"] == "assign" and s["rv"]["k"] == "agg" and s["rv"].get("ak") == "closure":
                reach = facts.reach([s["rv"]["name"]])
                if "nomt::beatree::Tree::read_transaction" in reach:
                    # the closure is invoked by the call it is passed to: find that call
                    starters.append((b, s["rv"]["name"], s.get("ln")))
    # the session's base root is sampled from the committed state as well: Nomt::root (and any other
    # acquisition of Nomt.shared) must come after the guard, or the session can be based on one state and
    # read another
    for b, t in body.calls():
        c = t.get("callee") or ""
        if b == gb:
            continue
        if c in facts.bodies and any(cls == SHARED for (cls, _m, _ln) in M.may_acquire(c)):
            starters.append((b, c, t.get("ln")))
    for b in range(body.n):
        for s in body.stmts(b):
            if s["k"] == "assign" and s["rv"]["k"] == "agg" and s["rv"].get("ak") == "closure" and s["rv"]["name"] != (gt["args"][1].get("def") if len(gt["args"]) > 1 else None):
                clo = s["rv"]["name"]
                if any(cls == SHARED for (cls, _m, _ln) in M.may_acquire(clo)):
                    starters.append((b, clo, s.get("ln")))
    rep.floor("L6 read-transaction starters in begin_session", len(starters), 2)
    import sessionsem

    pr = sessionsem.default_pruned(facts)
    gates = {x for (x, _t) in acq_sites}

    def guard_first(b):
        if b in gates:
            return False
        if body.dominates(gb, b):
            return True
        # the guard may sit on the arm of a branch on the session's internal switches: judge on the control-flow graph pruned
        # by the value of SessionParams::default() (a public session), where only that arm is executable
        if pr is not None and pr[0].id == body.id and b in pr[1].blocks.get(body.id, ()):
            return sessionsem.passes_before(pr[0], pr[1], gates, b)
        return False

    for (b, c, ln) in starters:
        n += 1
        rep.check(guard_first(b), "L6", short, "guard-before|%s" % c.split("::", 1)[1].split("::{closure")[0], "%s (which opens a read transaction) at %s is not preceded by the acquisition of the access read guard: a commit could start waiting for a read transaction of a session that cannot finish" % (c, ln), site=ln, detail="%s at %s after the guard" % (c.split("::", 1)[1], ln))
    return n


def l7(facts, rep, M):
    n = 0
    ps = facts.body("nomt::beatree::Tree::prepare_sync")
    bz = [b for b, t in ps.calls() if t.get("callee") == BLOCK0]
    n += 1
    if rep.check(len(bz) == 1, "L7", "beatree::Tree::prepare_sync", "block_until_zero", "prepare_sync no longer waits for outstanding read transactions", site=ps.span, detail="block_until_zero at bb%s" % bz):
        targets = ("nomt::beatree::Shared::take_staged_changeset", "nomt::beatree::ops::update::update")
        for b, t in ps.calls():
            c = t.get("callee") or ""
            hit = c in targets
            if not hit and c.startswith("nomt::beatree::") and c in facts.bodies and c != BLOCK0:
                # a helper of the tree that takes the staged changeset / runs the update itself
                inner = facts.reach([c])
                hit = any(x in inner for x in targets)
                if hit:
                    c = [x for x in targets if x in inner][0] + " via " + c.split("::")[-1]
            if hit:
                n += 1
                rep.check(ps.dominates(bz[0], b) and b != bz[0], "L7", "beatree::Tree::prepare_sync", "barrier-before|%s" % c.split("::")[-1], "%s at %s is not preceded by block_until_zero: a sync could overwrite pages a live read transaction still references" % (c, t.get("ln")), site=t.get("ln"), detail="%s after block_until_zero" % c.split("::")[-1])
    rt = facts.body("nomt::beatree::Tree::read_transaction")
    ao = [b for b, t in rt.calls() if t.get("callee") == ADD_ONE]
    n += 1
    if rep.check(len(ao) == 1, "L7", "beatree::Tree::read_transaction", "add_one", "read_transaction no longer registers itself with the read-transaction counter", site=rt.span, detail="add_one at bb%s" % ao):
        for a in M.acq_at:
            pass
        for b, t in rt.calls():
            for a in M.acq_at.get((rt.id, b), []):
                if a["cls"] == TREE_SHARED:
                    n += 1
                    rep.check(rt.dominates(ao[0], b) and b != ao[0], "L7", "beatree::Tree::read_transaction", "add_one-before-snapshot", "read_transaction snapshots the tree state at %s before registering with the counter: a sync could start against a transaction it cannot see" % t.get("ln"), site=t.get("ln"), detail="add_one precedes shared.read()")
    return n


def l8(facts, rep, M):
    """L8: the direct read API (`Nomt::read`) looks the value up while it HOLDS the access guard: the guard is taken with a
    blocking acquisition (or a `try_*` whose refusal leaves before the lookup), and is held when Store::load_value runs.  An
    opportunistic `try_read()` whose result is ignored lets the lookup run in the middle of a commit: `root()` already of
    commit n, `read(k)` still of commit n-1."""
    from core import trace

    body = facts.bodies.get("nomt::Nomt::read") or facts.bodies.get("nomt::Nomt::<T>::read")
    if body is None:
        rep.notes.append("L8: Nomt::read no longer exists: not decided")
        return 0
    short = "Nomt::read"
    n = 0
    at_term, _entry = M.held(body)
    looks = [b for b, t in body.calls() if (t.get("callee") or "").endswith(("Store::load_value", "ReadTransaction::lookup", "ReadTransaction::lookup_blocking")) and not body.is_cleanup(b)]
    if not looks:
        rep.notes.append("L8: Nomt::read no longer calls Store::load_value directly: not decided")
        return 0
    for lb in looks:
        n += 1
        H = at_term.get(lb, set())
        held = any(cls == ACCESS for (_l, cls, _m) in H)
        why = "the access guard is held over the lookup"
        ok = held
        if held:
            # the acquisition that produced the held guard: blocking, or a try whose refusal is looked at
            for ab, t in body.calls():
                c = t.get("callee") or ""
                m = ACQ.match(c)
                if not m or body.is_cleanup(ab) or not body.dominates(ab, lb):
                    continue
                if not any(cls == ACCESS for (cls, _mode) in M.classes_of_value(body, {"k": "copy", "pl": t["dest"]})):
                    continue
                if m.group(2).startswith("try_"):
                    looked = False
                    for sb in range(body.n):
                        st = body.term(sb)
                        if st["k"] == "switch" and body.dominates(sb, lb) and any(r.kind == "call" and r.bb == ab for r in trace(body, st["d"])):
                            # one edge must leave without the lookup
                            if any(lb not in body.reachable([e]) for e in body.succ(sb) if not body.is_cleanup(e)):
                                looked = True
                    if not looked:
                        ok = False
                        why = "the guard comes from `%s` at %s whose refusal is ignored: when a writer holds or waits for the lock the lookup runs unguarded" % (m.group(2), t.get("ln"))
        else:
            why = "no access guard is held at the lookup"
        rep.check(ok, "L8", short, "read-under-access-guard", "Nomt::read looks the value up at %s without holding the access guard: %s - a reader can see the root of commit n and the value of commit n-1" % (body.term(lb).get("ln"), why), site=body.term(lb).get("ln"), detail=why)
    return n
