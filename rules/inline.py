# MIR-lite inlining of helper functions (a fact transformation, used by the C18 engine).
#
# The panic-site inventory and the termination rules are stated per function: a site is discharged by a guard that dominates
# it IN ITS FUNCTION.  Maintenance refactorings routinely move a few lines of a reviewed function into a new private helper
# (`siblings.skip(n)` for `&siblings[n..]`): the arithmetic is the same, its guard still sits in the caller, but the site is
# now in a function nobody has reviewed.  Instead of reporting it as new, the helper's body is spliced into each caller at the
# fact level - its blocks appended with renumbered locals, parameters assigned from the arguments, `return` replaced by an
# assignment to the call's destination and a jump to the call's target - so that the site is judged where its guards are.
#
# Which callees are inlined is decided by the caller (for C18: functions of the crate that the reviewed inventory has never
# seen, i.e. NEW helpers; functions the inventory lists keep their own entries).  Recursion is not inlined; depth and size are
# bounded; what is not inlined stays a function of its own and is judged as before.
import copy
import re

import core

MAX_BLOCKS = 120
MAX_DEPTH = 3
KNOWN_FILE = __import__("os").path.join(__import__("os").path.dirname(__import__("os").path.abspath(__file__)), "known_fns.json")


def load_known():
    import json, os

    if not os.path.exists(KNOWN_FILE):
        return None
    with open(KNOWN_FILE) as fh:
        return set(json.load(fh))


def _shift(x, loff, boff, is_term=False):
    """renumber locals (+loff) in places / operands / storage statements of a copied JSON fragment"""
    if isinstance(x, dict):
        if "l" in x and isinstance(x["l"], int):
            x["l"] += loff
        if "p" in x and isinstance(x["p"], list):
            x["p"] = [re.sub(r"^\[_(\d+)\]$", lambda m: "[_%d]" % (int(m.group(1)) + loff), e) for e in x["p"]]
        for k, v in x.items():
            if k in ("l", "p"):
                continue
            _shift(v, loff, boff)
    elif isinstance(x, list):
        for v in x:
            _shift(v, loff, boff)


def _retarget(t, boff):
    k = t["k"]
    if k == "goto":
        t["t"] += boff
    elif k == "switch":
        t["vals"] = [[v, b + boff] for (v, b) in t["vals"]]
        t["else"] += boff
    elif k in ("call", "drop", "assert"):
        if "t" in t:
            t["t"] += boff
        if "u" in t:
            t["u"] += boff


def _split_top(s):
    out, depth, cur = [], 0, ""
    for ch in s:
        if ch in "([{<" and not (ch == "<" and (not cur or not (cur[-1].isalnum() or cur[-1] in ":_"))):
            depth += 1
        elif ch in ")]}" or (ch == ">" and depth > 0 and cur and cur[-1] != "-" and cur[-1] != "="):
            depth = max(0, depth - 1)
        if ch == "," and depth == 0:
            out.append(cur.strip())
            cur = ""
        else:
            cur += ch
    if cur.strip():
        out.append(cur.strip())
    return out


def call_arg_texts(snip, argc):
    """source text of the arguments of a call expression (`recv.method(a, b)` -> [recv, a, b]; `path::f(a, b)` -> [a, b]);
    None when the text cannot be split into exactly argc arguments"""
    s = (snip or "").strip()
    if s.endswith("?"):
        s = s[:-1].rstrip()
    if not s.endswith(")"):
        return None
    depth = 0
    start = None
    for i in range(len(s) - 1, -1, -1):
        if s[i] == ")":
            depth += 1
        elif s[i] == "(":
            depth -= 1
            if depth == 0:
                start = i
                break
    if start is None:
        return None
    args = _split_top(s[start + 1 : -1])
    head = s[:start]
    if len(args) == argc:
        return args
    m = re.match(r"^(.*)\.\s*[A-Za-z_][A-Za-z0-9_]*(?:::<.*>)?\s*$", head, re.S)
    if m and len(args) == argc - 1:
        return [m.group(1).strip()] + args
    return None


def _subst_snips(blocks, names, texts):
    if not names:
        return
    mp = {n: t for n, t in zip(names, texts) if n}
    if not mp:
        return
    rx = re.compile(r"(?<![A-Za-z0-9_.])(" + "|".join(re.escape(n) for n in sorted(mp, key=len, reverse=True)) + r")(?![A-Za-z0-9_])")
    for bl in blocks:
        tt = bl["t"]
        for key in ("snip", "fsnip"):
            if isinstance(tt.get(key), str):
                tt[key] = rx.sub(lambda m: mp[m.group(1)], tt[key])


def inline_call(cj, cb, hj):
    """splice a copy of callee JSON `hj` into caller JSON `cj` at the call terminating block `cb`; returns True if done"""
    t = cj["blocks"][cb]["t"]
    if t["k"] != "call" or "t" not in t or t.get("dest") is None:
        return False
    if len(t["args"]) != hj["argc"]:
        return False
    loff = len(cj["locals"])
    boff = len(cj["blocks"])
    hl = copy.deepcopy(hj["locals"])
    hb = copy.deepcopy(hj["blocks"])
    for bl in hb:
        bl.setdefault("from", hj["id"])  # the function the code was written in (ownership rules ask for it)
        _shift(bl.get("s", []), loff, boff)
        tt = bl["t"]
        # operands / places of the terminator
        for key in ("d", "args", "dest", "pl", "cond"):
            if key in tt:
                _shift(tt[key], loff, boff)
        _retarget(tt, boff)
    # the helper's expressions, re-written in the caller's terms: `self.nodes[n..]` at `siblings.skip(a + b)` reads
    # `siblings.nodes[a + b..]`
    texts = call_arg_texts(t.get("snip"), hj["argc"])
    if texts:
        _subst_snips(hb, [hl[1 + i].get("n") for i in range(hj["argc"])], texts)
    target, unwind, dest, ln = t["t"], t.get("u"), t["dest"], t.get("ln")
    for bl in hb:
        tt = bl["t"]
        if tt["k"] == "return":
            bl.setdefault("s", []).append({"k": "assign", "pl": copy.deepcopy(dest), "rv": {"k": "use", "op": {"k": "move", "pl": {"l": loff}}}, "ln": ln})
            bl["t"] = {"k": "goto", "t": target}
        elif tt["k"] == "resume" and unwind is not None:
            bl["t"] = {"k": "goto", "t": unwind}
    cj["locals"].extend(hl)
    blk = cj["blocks"][cb]
    blk.setdefault("s", [])
    for i, a in enumerate(t["args"]):
        blk["s"].append({"k": "assign", "pl": {"l": loff + 1 + i}, "rv": {"k": "use", "op": copy.deepcopy(a)}, "ln": ln, "inl": hj["id"]})
    blk["t"] = {"k": "goto", "t": boff, "inlined": hj["id"], "ln": ln}
    cj["blocks"].extend(hb)
    cj.setdefault("inlined", []).append(hj["id"])
    return True


def _callees(body):
    return {(t.get("callee") or "") for _b, t in body.calls()}


def inline_into(facts, roots, want, max_depth=MAX_DEPTH):
    """returns (facts2, report): in every function of `roots` (ids), calls to functions for which want(callee_body) holds are
    inlined (transitively up to max_depth); facts2 shares the untouched bodies with `facts`."""
    f2 = copy.copy(facts)
    f2.bodies = dict(facts.bodies)
    f2._callers = None
    f2._trait_impls = None
    report = {}

    def reaches(a, b, seen=None):
        """a can call b (transitively, crate-local)"""
        seen = seen or set()
        if a in seen or a not in facts.bodies:
            return False
        seen.add(a)
        cs = _callees(facts.bodies[a])
        if b in cs:
            return True
        return any(reaches(c, b, seen) for c in cs if c in facts.bodies)

    for rid in sorted(roots):
        body = facts.bodies.get(rid)
        if body is None:
            continue
        cj = None
        done = []
        for _round in range(max_depth):
            cur = core.Body(cj, body.crate) if cj is not None else body
            todo = []
            for b, t in cur.calls():
                c = t.get("callee") or ""
                h = facts.bodies.get(c)
                if h is None or h.kind == "Closure" or c == rid or cur.is_cleanup(b):
                    continue
                if not want(h) or h.n > MAX_BLOCKS or reaches(c, c) or reaches(c, rid):
                    continue
                todo.append((b, c))
            if not todo:
                break
            if cj is None:
                cj = copy.deepcopy(body.j)
            for (b, c) in todo:
                if inline_call(cj, b, facts.bodies[c].j):
                    done.append(c)
        if cj is not None and done:
            f2.bodies[rid] = core.Body(cj, body.crate)
            report[rid] = done
    return f2, report
