# MIR-lite inlining of helper functions (a fact transformation, used by the C18 engine).
#
# The panic-site inventory and the termination rules are stated per function: a site is discharged by a guard that dominates
# it IN ITS FUNCTION.  Maintenance refactorings routinely move a few lines of a reviewed function into a new private helper
# (`siblings.skip(n)` for `&siblings[n..]`): the arithmetic is the same, its guard still sits in the caller, but the site is
# now in a function nobody has reviewed.  Instead of reporting it as new, the helper's body is spliced into each caller at the
# fact level - its blocks appended with renumbered locals, parameters assigned from the arguments, `return` replaced by an
# assignment to the call's destination and a jump to the call's target - so that the site is judged where its guards are.
#
# Which callees are inlined is decided by the caller (for C18: functions of the crate that the reviewed inventory has never
# seen, i.e. NEW helpers; functions the inventory lists keep their own entries).  Recursion is not inlined; depth and size are
# bounded; what is not inlined stays a function of its own and is judged as before.
import copy
import re

import core

MAX_BLOCKS = 120
MAX_DEPTH = 3
KNOWN_FILE = __import__("os").path.join(__import__("os").path.dirname(__import__("os").path.abspath(__file__)), "known_fns.json")


def load_known():
    import json, os

    if not os.path.exists(KNOWN_FILE):
        return None
    with open(KNOWN_FILE) as fh:
        return set(json.load(fh))


def _shift(x, loff, boff, is_term=False):
    """renumber locals (+loff) in places / operands / storage statements of a copied JSON fragment"""
    if isinstance(x, dict):
        if "l" in x and isinstance(x["l"], int):
            x["l"] += loff
        if "p" in x and isinstance(x["p"], list):
            x["p"] = [re.sub(r"^\[_(\d+)\]$", lambda m: "[_%d]" % (int(m.group(1)) + loff), e) for e in x["p"]]
        for k, v in x.items():
            if k in ("l", "p"):
                continue
            _shift(v, loff, boff)
    elif isinstance(x, list):
        for v in x:
            _shift(v, loff, boff)


def _retarget(t, boff):
    k = t["k"]
    if k == "goto":
        t["t"] += boff
    elif k == "switch":
        t["vals"] = [[v, b + boff] for (v, b) in t["vals"]]
        t["else"] += boff
    elif k in ("call", "drop", "assert"):
        if "t" in t:
            t["t"] += boff
        if "u" in t:
            t["u"] += boff


def _split_top(s):
    out, depth, cur = [], 0, ""
    for ch in s:
        if ch in "([{<" and not (ch == "<" and (not cur or not (cur[-1].isalnum() or cur[-1] in ":_"))):
            depth += 1
        elif ch in ")]}" or (ch == ">" and depth > 0 and cur and cur[-1] != "-" and cur[-1] != "="):
            depth = max(0, depth - 1)
        if ch == "," and depth == 0:
            out.append(cur.strip())
            cur = ""
        else:
            cur += ch
    if cur.strip():
        out.append(cur.strip())
    return out


def call_arg_texts(snip, argc):
    """source text of the arguments of a call expression (`recv.method(a, b)` -> [recv, a, b]; `path::f(a, b)` -> [a, b]);
    None when the text cannot be split into exactly argc arguments"""
    s = (snip or "").strip()
    if s.endswith("?"):
        s = s[:-1].rstrip()
    if not s.endswith(")"):
        return None
    depth = 0
    start = None
    for i in range(len(s) - 1, -1, -1):
        if s[i] == ")":
            depth += 1
        elif s[i] == "(":
            depth -= 1
            if depth == 0:
                start = i
                break
    if start is None:
        return None
    args = _split_top(s[start + 1 : -1])
    head = s[:start]
    if len(args) == argc:
        return args
    m = re.match(r"^(.*)\.\s*[A-Za-z_][A-Za-z0-9_]*(?:::<.*>)?\s*$", head, re.S)
    if m and len(args) == argc - 1:
        return [m.group(1).strip()] + args
    return None


def _subst_snips(blocks, names, texts):
    if not names:
        return
    mp = {n: t for n, t in zip(names, texts) if n}
    if not mp:
        return
    rx = re.compile(r"(?<![A-Za-z0-9_.])(" + "|".join(re.escape(n) for n in sorted(mp, key=len, reverse=True)) + r")(?![A-Za-z0-9_])")
    for bl in blocks:
        tt = bl["t"]
        for key in ("snip", "fsnip"):
            if isinstance(tt.get(key), str):
                tt[key] = rx.sub(lambda m: mp[m.group(1)], tt[key])


VARIANT_IDX = {"Ok": 0, "Err": 1, "None": 0, "Some": 1}
BREAK_SIDE = {"Err", "None"}


def _ret_sites(hj):
    """where the helper's return place is assigned: [(block, 'stmt'|'call', variant-or-None)]"""
    out = []
    for bi, bl in enumerate(hj["blocks"]):
        if bl.get("c") == 1:
            continue
        for s_ in bl.get("s", []):
            if s_["k"] == "assign" and s_["pl"]["l"] == 0 and not s_["pl"].get("p"):
                rv = s_["rv"]
                v = rv.get("variant") if rv["k"] == "agg" and rv.get("variant") in VARIANT_IDX else None
                out.append((bi, "stmt", v))
        tt = bl["t"]
        if tt["k"] == "call" and (tt.get("dest") or {}).get("l") == 0 and not (tt.get("dest") or {}).get("p"):
            c = tt.get("callee") or ""
            v = None
            if "from_residual" in c:
                v = "Err" if "result::Result" in c else ("None" if "option::Option" in c else None)
            out.append((bi, "call", v))
    return out


def _chain_to_return(hj, start):
    """blocks from `start` to the helper's return through single-successor goto / drop blocks that do not touch the return
    place; None if the shape is different"""
    chain, cur = [], start
    for _ in range(12):
        bl = hj["blocks"][cur]
        if any(s_["k"] == "assign" and s_["pl"]["l"] == 0 for s_ in bl.get("s", [])):
            return None
        chain.append(cur)
        tt = bl["t"]
        if tt["k"] == "return":
            return chain
        if tt["k"] not in ("goto", "drop") or "t" not in tt:
            return None
        cur = tt["t"]
    return None


def _continuation(cj, cb):
    """how the caller tests the call's result right away: ('direct', T, None, {variant idx: target}) for
    `match f() { .. }` / `let Some(x) = f() else ..`, ('branch', T, U, {0: continue target, 1: break target}) for `f()?`"""
    t = cj["blocks"][cb]["t"]
    dest, T = t["dest"], t["t"]
    if dest.get("p"):
        return None
    npred = 0
    for bl in cj["blocks"]:
        tt = bl["t"]
        succ = []
        if tt["k"] == "goto":
            succ = [tt["t"]]
        elif tt["k"] == "switch":
            succ = [b for (_v, b) in tt["vals"]] + [tt["else"]]
        elif tt["k"] in ("call", "drop", "assert") and "t" in tt:
            succ = [tt["t"]]
        npred += succ.count(T)
    if npred != 1:
        return None

    def switch_on_discr_of(bl, local):
        tt = bl["t"]
        if tt["k"] != "switch" or tt["d"].get("k") not in ("copy", "move") or tt["d"]["pl"].get("p"):
            return None
        dl = tt["d"]["pl"]["l"]
        for s_ in bl.get("s", []):
            if s_["k"] == "assign" and s_["pl"]["l"] == dl and not s_["pl"].get("p") and s_["rv"]["k"] == "discr" and s_["rv"]["pl"]["l"] == local and not s_["rv"]["pl"].get("p"):
                tg = {int(v): b for (v, b) in tt["vals"] if str(v).lstrip("-").isdigit()}
                for k in (0, 1):
                    tg.setdefault(k, tt["else"])
                return tg
        return None

    Tb = cj["blocks"][T]
    tg = switch_on_discr_of(Tb, dest["l"])
    if tg is not None:
        return ("direct", T, None, tg)
    tt = Tb["t"]
    if tt["k"] == "call" and (tt.get("callee") or "").endswith("Try>::branch") and tt["args"] and tt["args"][0].get("k") == "move" and tt["args"][0]["pl"]["l"] == dest["l"] and not tt["args"][0]["pl"].get("p") and "t" in tt and not (tt.get("dest") or {}).get("p"):
        U = tt["t"]
        tg = switch_on_discr_of(cj["blocks"][U], tt["dest"]["l"])
        if tg is not None:
            return ("branch", T, U, tg)
    return None


def _only_handed_on(cj, cb):
    """the call's result is never looked INTO by the caller: no discriminant read, no projection, no `?` - it is only moved
    whole (into a call, an aggregate or, one hop, another local that is treated the same way)"""
    dest = cj["blocks"][cb]["t"]["dest"]
    if dest.get("p"):
        return False
    watch = {dest["l"]}
    for _hop in range(2):
        for bl in cj["blocks"]:
            for s_ in bl.get("s", []):
                if s_["k"] == "assign" and s_["rv"]["k"] == "use" and s_["rv"]["op"].get("k") in ("move", "copy") and s_["rv"]["op"]["pl"]["l"] in watch and not s_["rv"]["op"]["pl"].get("p") and not s_["pl"].get("p"):
                    watch.add(s_["pl"]["l"])
    for bl in cj["blocks"]:
        for s_ in bl.get("s", []):
            if s_["k"] != "assign":
                continue
            rv = s_["rv"]
            if rv["k"] in ("discr", "ref", "rawptr") and rv["pl"]["l"] in watch:
                return False
            for key in ("op", "a", "b"):
                o = rv.get(key)
                if isinstance(o, dict) and o.get("k") in ("move", "copy") and o["pl"]["l"] in watch and o["pl"].get("p"):
                    return False
            for o in rv.get("ops", []) or []:
                if o.get("k") in ("move", "copy") and o["pl"]["l"] in watch and o["pl"].get("p"):
                    return False
        tt = bl["t"]
        if tt["k"] == "switch" and tt["d"].get("pl", {}).get("l") in watch:
            return False
        if tt["k"] == "call":
            c = tt.get("callee") or ""
            for a in tt["args"]:
                if a.get("k") in ("move", "copy") and a["pl"]["l"] in watch:
                    if a["pl"].get("p") or c.endswith("Try>::branch") or c.startswith(("core::option::Option", "core::result::Result")):
                        return False
    return True


def thread_plan(cj, cb, hj):
    """'plain' (one way out, or not an Option / Result), a list of (site block, kind, variant, chain) to specialise, or None:
    the helper has several ways out whose variants merge and the merge cannot be undone -> do not inline"""
    ret_ty = hj["locals"][0]["ty"]
    if not (ret_ty.startswith("core::result::Result<") or ret_ty.startswith("core::option::Option<")):
        return "plain"
    sites = _ret_sites(hj)
    if len(sites) <= 1:
        return "plain"
    cont = _continuation(cj, cb)
    if cont is None:
        # the caller does not look at the result itself but hands it on whole (`set.extend(self.mark_full(..))`): the merge
        # of the helper's ways out loses nothing the caller could branch on
        return "plain" if _only_handed_on(cj, cb) else None
    plan = []
    for (bi, kind, v) in sites:
        if v is None:
            return None
        bl = hj["blocks"][bi]
        if kind == "stmt":
            if bl["t"]["k"] == "return":
                chain = []
                first = None
            elif bl["t"]["k"] in ("goto", "drop") and "t" in bl["t"]:
                chain = _chain_to_return(hj, bl["t"]["t"])
            else:
                chain = None
        else:
            chain = _chain_to_return(hj, bl["t"]["t"]) if "t" in bl["t"] else None
        if chain is None:
            return None
        plan.append((bi, kind, v, chain))
    return (cont, plan)


def inline_call(cj, cb, hj):
    """splice a copy of callee JSON `hj` into caller JSON `cj` at the call terminating block `cb`; returns True if done"""
    t = cj["blocks"][cb]["t"]
    if t["k"] != "call" or "t" not in t or t.get("dest") is None:
        return False
    if len(t["args"]) != hj["argc"]:
        return False
    plan = thread_plan(cj, cb, hj)
    if plan is None:
        return False
    loff = len(cj["locals"])
    boff = len(cj["blocks"])
    hl = copy.deepcopy(hj["locals"])
    hb = copy.deepcopy(hj["blocks"])
    for bl in hb:
        bl.setdefault("from", hj["id"])  # the function the code was written in (ownership rules ask for it)
        _shift(bl.get("s", []), loff, boff)
        tt = bl["t"]
        # operands / places of the terminator
        for key in ("d", "args", "dest", "pl", "cond"):
            if key in tt:
                _shift(tt[key], loff, boff)
        _retarget(tt, boff)
    # the helper's expressions, re-written in the caller's terms: `self.nodes[n..]` at `siblings.skip(a + b)` reads
    # `siblings.nodes[a + b..]`
    texts = call_arg_texts(t.get("snip"), hj["argc"])
    if texts:
        _subst_snips(hb, [hl[1 + i].get("n") for i in range(hj["argc"])], texts)
    target, unwind, dest, ln = t["t"], t.get("u"), t["dest"], t.get("ln")
    for bl in hb:
        tt = bl["t"]
        if tt["k"] == "return":
            bl.setdefault("s", []).append({"k": "assign", "pl": copy.deepcopy(dest), "rv": {"k": "use", "op": {"k": "move", "pl": {"l": loff}}}, "ln": ln})
            bl["t"] = {"k": "goto", "t": target}
        elif tt["k"] == "resume" and unwind is not None:
            bl["t"] = {"k": "goto", "t": unwind}
    cj["locals"].extend(hl)
    blk = cj["blocks"][cb]
    blk.setdefault("s", [])
    for i, a in enumerate(t["args"]):
        blk["s"].append({"k": "assign", "pl": {"l": loff + 1 + i}, "rv": {"k": "use", "op": copy.deepcopy(a)}, "ln": ln, "inl": hj["id"]})
    blk["t"] = {"k": "goto", "t": boff, "inlined": hj["id"], "ln": ln}
    cj["blocks"].extend(hb)
    cj.setdefault("inlined", []).append(hj["id"])
    if plan != "plain":
        # undo the merge of the helper's ways out: each one gets its own copy of the blocks up to the caller's test of the
        # result, which then jumps straight to the arm for the variant that way out produces (`return Err(..)` in the helper
        # continues on the caller's error path and nowhere else)
        (cont, sites) = plan
        (shape, T, U, tg) = cont

        def clone(bidx, new_term=None):
            nb = copy.deepcopy(cj["blocks"][bidx])
            if new_term is not None:
                nb["t"] = new_term
            cj["blocks"].append(nb)
            return len(cj["blocks"]) - 1

        for (bi, kind, v, chain) in sites:
            idx = VARIANT_IDX[v]
            arm = tg[idx] if shape == "direct" else tg[1 if v in BREAK_SIDE else 0]
            # the caller's test, specialised
            if shape == "direct":
                first_c = clone(T, {"k": "goto", "t": arm})
            else:
                u2 = clone(U, {"k": "goto", "t": arm})
                first_c = clone(T)
                cj["blocks"][first_c]["t"]["t"] = u2
            # the helper's way out (drops, the copy of the result into the call's destination), back to front
            nxt = first_c
            for hb_i in reversed(chain):
                c2 = clone(boff + hb_i)
                tt2 = cj["blocks"][c2]["t"]
                tt2["t"] = nxt
                nxt = c2
            a = cj["blocks"][boff + bi]
            if kind == "stmt" and hj["blocks"][bi]["t"]["k"] == "return":
                a["t"] = {"k": "goto", "t": nxt}
            else:
                a["t"]["t"] = nxt
    return True


def prune_known_variant_switches(cj, adts):
    """after splicing, a helper's `match mode { Mode::A => .., Mode::B => .. }` on a parameter that the caller passes as a
    CONSTANT variant (`helper(x, Mode::B)`) has one feasible arm only.  The switch becomes a goto to that arm, so that the
    rules see what the caller does, not what the helper could do for other callers.  Only for: a switch on
    `discriminant(local)`, the local (through whole-local moves / copies, each assigned exactly once) built by ONE aggregate of
    a field-less variant of an enum of the analysed crates whose switch values are the variant indices."""
    blocks = cj["blocks"]
    defs = {}
    borrowed = set()
    for bi, bl in enumerate(blocks):
        for st in bl["s"]:
            if st["k"] == "assign":
                if not st["pl"].get("p"):
                    defs.setdefault(st["pl"]["l"], []).append(st["rv"])
                else:
                    defs.setdefault(st["pl"]["l"], []).append(None)
                if st["rv"]["k"] in ("ref", "rawptr") and st["rv"].get("mut", True):
                    borrowed.add(st["rv"]["pl"]["l"])
        t = bl["t"]
        if t["k"] == "call" and t.get("dest") is not None:
            defs.setdefault(t["dest"]["l"], []).append(None)
    argc = cj.get("argc", 0)

    def variant_of(l, depth=0):
        if depth > 8 or l in borrowed or 1 <= l <= argc:
            return None
        ds = defs.get(l, [])
        if len(ds) != 1 or ds[0] is None:
            return None
        rv = ds[0]
        if rv["k"] == "use" and rv["op"].get("k") in ("copy", "move") and not rv["op"]["pl"].get("p"):
            return variant_of(rv["op"]["pl"]["l"], depth + 1)
        if rv["k"] == "agg" and rv.get("ak") == "adt" and not rv.get("ops") and rv.get("variant") and rv.get("name") in adts:
            names = [v["name"] for v in adts[rv["name"]].get("variants", [])]
            if len(names) > 1 and rv["variant"] in names:
                return (rv["name"], names.index(rv["variant"]), len(names))
        return None

    def const_of(l, depth=0):
        """the constant a local holds: assigned exactly once, from a constant or (transitively) from such a local"""
        if depth > 8 or l in borrowed or 1 <= l <= argc:
            return None
        ds = defs.get(l, [])
        if len(ds) != 1 or ds[0] is None:
            return None
        rv = ds[0]
        if rv["k"] == "use" and rv["op"].get("k") == "const" and rv["op"].get("int") is not None and rv["op"].get("ty") == "bool":
            return str(rv["op"]["int"])
        if rv["k"] == "use" and rv["op"].get("k") in ("copy", "move") and not rv["op"]["pl"].get("p"):
            return const_of(rv["op"]["pl"]["l"], depth + 1)
        return None

    n = 0
    for bl in blocks:
        t = bl["t"]
        if t["k"] != "switch" or t["d"].get("k") not in ("copy", "move") or t["d"]["pl"].get("p"):
            continue
        dl = t["d"]["pl"]["l"]
        cv = const_of(dl)
        if cv is not None and bl.get("from"):
            # `helper(x, true)`: the helper's `if flag { .. }` on a parameter the caller passes as a constant
            target = None
            for (v, tb) in t["vals"]:
                if str(v) == cv:
                    target = tb
            if target is None:
                target = t["else"]
            bl["t"] = {"k": "goto", "t": target, "ln": t.get("ln"), "pruned": "constant %s" % cv}
            n += 1
            continue
        dd = [st for st in bl["s"] if st["k"] == "assign" and not st["pl"].get("p") and st["pl"]["l"] == dl]
        if len(dd) != 1 or dd[0]["rv"]["k"] != "discr" or dd[0]["rv"]["pl"].get("p") or len(defs.get(dl, [])) != 1:
            continue
        kv = variant_of(dd[0]["rv"]["pl"]["l"])
        if kv is None:
            continue
        (_adt, idx, nvar) = kv
        vals = [str(v) for (v, _tb) in t["vals"]]
        if not all(v.isdigit() and int(v) < nvar for v in vals):
            continue  # explicit discriminants: the mapping to variant indices is not known
        target = None
        for (v, tb) in t["vals"]:
            if str(v) == str(idx):
                target = tb
        if target is None:
            target = t["else"]
        bl["t"] = {"k": "goto", "t": target, "ln": t.get("ln"), "pruned": "variant %d of %s" % (idx, _adt)}
        n += 1
    if n:
        # the arms nobody can enter any more are emptied, so that rules that scan all blocks do not see them
        def succs(t):
            out = []
            k = t["k"]
            if k == "goto":
                out.append(t["t"])
            elif k == "switch":
                out += [tb for (_v, tb) in t["vals"]] + [t["else"]]
            else:
                if isinstance(t.get("t"), int):
                    out.append(t["t"])
                for key in ("unwind", "u", "cleanup"):
                    if isinstance(t.get(key), int):
                        out.append(t[key])
            return out

        seen, st = set(), [0]
        while st:
            b = st.pop()
            if b in seen or not (0 <= b < len(blocks)):
                continue
            seen.add(b)
            st += succs(blocks[b]["t"])
        for bi, bl in enumerate(blocks):
            if bi not in seen and not bl.get("c"):
                bl["s"] = []
                bl["t"] = {"k": "unreachable", "pruned": True}
    return n


def _callees(body):
    return {(t.get("callee") or "") for _b, t in body.calls()}


def inline_into(facts, roots, want, max_depth=MAX_DEPTH):
    """returns (facts2, report): in every function of `roots` (ids), calls to functions for which want(callee_body) holds are
    inlined (transitively up to max_depth); facts2 shares the untouched bodies with `facts`."""
    f2 = copy.copy(facts)
    f2.bodies = dict(facts.bodies)
    f2._callers = None
    f2._trait_impls = None
    report = {}

    def reaches(a, b, seen=None):
        """a can call b (transitively, crate-local)"""
        seen = seen or set()
        if a in seen or a not in facts.bodies:
            return False
        seen.add(a)
        cs = _callees(facts.bodies[a])
        if b in cs:
            return True
        return any(reaches(c, b, seen) for c in cs if c in facts.bodies)

    for rid in sorted(roots):
        body = facts.bodies.get(rid)
        if body is None:
            continue
        cj = None
        done = []
        for _round in range(max_depth):
            cur = core.Body(cj, body.crate) if cj is not None else body
            todo = []
            for b, t in cur.calls():
                c = t.get("callee") or ""
                h = facts.bodies.get(c)
                if h is None or h.kind == "Closure" or c == rid or cur.is_cleanup(b):
                    continue
                if not want(h) or h.n > MAX_BLOCKS or reaches(c, c) or reaches(c, rid):
                    continue
                todo.append((b, c))
            if not todo:
                break
            if cj is None:
                cj = copy.deepcopy(body.j)
            for (b, c) in todo:
                if inline_call(cj, b, facts.bodies[c].j):
                    done.append(c)
        if cj is not None and done:
            prune_known_variant_switches(cj, getattr(facts, "adts", {}))
            f2.bodies[rid] = core.Body(cj, body.crate)
            report[rid] = done
    return f2, report
