# P1/P2 overlay status domain (C11: "building on an incomplete ... chain ... is refused", "dropped overlays have no effect")
#
# The status of an overlay is one atomic word with three named values (OverlayStatus::LIVE / DROPPED / COMMITTED).  Every
# decision the crate takes on it is a boolean function of that word, so it is decided by ENUMERATION of the domain: the MIR of
# the predicate (and of the closures / helpers it goes through) is evaluated for each of the three values.
#   P1  LiveOverlay::new refuses with InvalidAncestors::Incomplete exactly when the status of the oldest supplied ancestor's
#       parent is not COMMITTED (refused for LIVE and for DROPPED, accepted for COMMITTED).
#   P2  who may store: the status word is written only by OverlayStatus::commit (stores COMMITTED), OverlayStatus::drop
#       (compare_exchange LIVE -> DROPPED only) and the constructor (LIVE).
from core import trace, CheckBroken
import panicfree

STATUS = "nomt::overlay::OverlayStatus"
U = "unknown"


def status_consts(facts):
    """name -> value of the associated constants of OverlayStatus, read off the constant operands in the crate"""
    out = {}

    def visit(op):
        if isinstance(op, dict) and op.get("k") == "const":
            nm = op.get("uneval") or op.get("def") or op.get("s") or ""
            if nm.startswith(STATUS + "::") and op.get("int") is not None:
                out[nm.rsplit("::", 1)[1]] = int(op["int"])

    for body in facts.bodies.values():
        if "nomt::overlay::" not in body.id:
            continue
        for b in range(body.n):
            for s in body.stmts(b):
                if s["k"] == "assign":
                    rv = s["rv"]
                    for k in ("op", "a", "b"):
                        visit(rv.get(k))
                    for o in rv.get("ops", []) or []:
                        visit(o)
            t = body.term(b)
            if t["k"] == "call":
                for a in t["args"]:
                    visit(a)
    return out


def is_load(callee):
    return callee.startswith("core::sync::atomic::") and callee.endswith("::load")


PASS_THROUGH = ("::deref", "::as_ref", "::borrow", "::clone")
OPTION_PREDICATES = ("is_some_and", "map_or", "is_none_or")


def interp(facts, body, v, depth=0):
    """evaluate a small pure predicate for status word v; returns an int/bool, or U"""
    if depth > 4:
        return U
    env = {}
    b = 0
    for _ in range(300):
        for s in body.stmts(b):
            if s["k"] != "assign" or s["pl"].get("p"):
                continue
            if s["rv"]["k"] == "agg" and s["rv"].get("ak") == "closure":
                env[s["pl"]["l"]] = ("closure", s["rv"].get("name"))
                continue
            env[s["pl"]["l"]] = ev_rv(s["rv"], env)
        t = body.term(b)
        k = t["k"]
        if k == "goto":
            b = t["t"]
        elif k == "return":
            return _as_int(env.get(0, U))
        elif k == "switch":
            d = _as_int(ev_op(t["d"], env))
            if d is U:
                return U
            nxt = None
            for (val, tb) in t["vals"]:
                if int(val) == d:
                    nxt = tb
            b = nxt if nxt is not None else t["else"]
        elif k == "call":
            callee = t.get("callee") or ""
            if is_load(callee):
                val = v
            elif callee in facts.bodies and facts.bodies[callee].crate == "nomt":
                val = interp(facts, facts.bodies[callee], v, depth + 1)
            elif callee.rsplit("::", 1)[-1] in OPTION_PREDICATES and callee.startswith("core::option::Option"):
                # Option::is_some_and(opt, f) / map_or(opt, default, f) / is_none_or(opt, f): the value in the Some case is f(x)
                val = U
                clo = ev_op(t["args"][-1], env) if t["args"] else U
                if isinstance(clo, tuple) and clo[0] == "closure" and clo[1] in facts.bodies:
                    val = interp(facts, facts.bodies[clo[1]], v, depth + 1)
            else:
                val = U
            if not t["dest"].get("p"):
                env[t["dest"]["l"]] = val
            if t.get("t") is None:
                return U
            b = t["t"]
        elif k in ("drop", "assert"):
            b = t.get("t") if t.get("t") is not None else t.get("target")
            if b is None:
                return U
        else:
            return U
    return U


def ev_op(op, env):
    if op is None:
        return U
    if op["k"] == "const":
        if op.get("int") is not None:
            return int(op["int"])
        return U
    if op["k"] in ("copy", "move"):
        if op["pl"].get("p"):
            return U
        return env.get(op["pl"]["l"], U)
    return U


def _as_int(x):
    return U if (x is U or isinstance(x, tuple)) else int(x)


def ev_rv(rv, env):
    k = rv["k"]
    if k in ("use", "cast"):
        return ev_op(rv["op"], env)
    if k == "bin":
        a, b = _as_int(ev_op(rv["a"], env)), _as_int(ev_op(rv["b"], env))
        if a is U or b is U:
            return U
        op = rv["op"]
        table = {"Eq": a == b, "Ne": a != b, "Lt": a < b, "Le": a <= b, "Gt": a > b, "Ge": a >= b, "BitAnd": a & b, "BitOr": a | b, "BitXor": a ^ b}
        if op in table:
            return int(table[op])
        return U
    if k == "un":
        a = _as_int(ev_op(rv.get("a") or rv.get("op"), env)) if isinstance(rv.get("a") or rv.get("op"), dict) else U
        if a is U:
            return U
        if rv.get("op") == "Not" or rv.get("un") == "Not":
            return int(not int(a))
        return U
    return U


def eval_cond(facts, body, op, v, depth=0):
    """truth value of a branch condition of `body` for status word v, or U when it does not depend (only) on the status"""
    if depth > 4:
        return U
    vals = set()
    for r in trace(body, op):
        if r.kind == "via":
            continue
        if r.kind == "const" and r.obj is not None and r.obj.get("int") is not None:
            vals.add(int(r.obj["int"]))
        elif r.kind == "binop" and r.obj is not None:
            rv = r.obj
            if rv["k"] == "un":
                inner = rv.get("a") or rv.get("op")
                x = eval_cond(facts, body, inner, v, depth + 1) if isinstance(inner, dict) else U
                if x is U:
                    return U
                vals.add(int(not int(x)))
            elif rv["k"] == "bin" and rv["op"] in ("Eq", "Ne"):
                a = eval_cond(facts, body, rv["a"], v, depth + 1)
                b = eval_cond(facts, body, rv["b"], v, depth + 1)
                if a is U or b is U:
                    return U
                vals.add(int((int(a) == int(b)) == (rv["op"] == "Eq")))
            else:
                return U
        elif r.kind == "call" and not r.fields:
            callee = str(r.what)
            t = r.obj
            if is_load(callee):
                vals.add(v)
            elif callee.rsplit("::", 1)[-1] in OPTION_PREDICATES and callee.startswith("core::option::Option") and t is not None and len(t["args"]) >= 2:
                # Option::map_or(opt, default, f): the Some case is f(x); the None case (no parent at all) is the default
                clo = [x for x in trace(body, t["args"][-1]) if x.kind == "agg" and x.obj is not None and x.obj.get("ak") == "closure"]
                if len(clo) != 1 or clo[0].obj.get("name") not in facts.bodies:
                    return U
                x = interp(facts, facts.bodies[clo[0].obj["name"]], v)
                if x is U:
                    return U
                vals.add(int(x))
            elif callee in facts.bodies and facts.bodies[callee].crate == "nomt":
                x = interp(facts, facts.bodies[callee], v)
                if x is U:
                    return U
                vals.add(int(x))
            else:
                return U
        else:
            return U
    if len(vals) != 1:
        return U
    return vals.pop()


def p1(facts, rep):
    body = facts.body("nomt::overlay::LiveOverlay::new")
    consts = status_consts(facts)
    short = "overlay::LiveOverlay::new"
    if not {"LIVE", "DROPPED", "COMMITTED"} <= set(consts):
        raise CheckBroken("ANCHOR-MISSING constants of %s (found %s)" % (STATUS, sorted(consts)))
    n = 0
    status_guards = []
    for (sw, err_edge) in panicfree.guard_switches(body, "Incomplete"):
        t = body.term(sw)
        table = {}
        for name in ("LIVE", "DROPPED", "COMMITTED"):
            c = eval_cond(facts, body, t["d"], consts[name])
            if c is U:
                table = None
                break
            tg = {int(val): tb for (val, tb) in t["vals"]}
            nxt = tg.get(int(c), t["else"])
            table[name] = nxt == err_edge or err_edge in body.reachable([nxt]) and not any(x in body.reachable([nxt]) for x in body.ok_returns())
        if table is not None:
            status_guards.append((sw, table))
    n += 1
    if not rep.check(bool(status_guards), "P1", short, "status-guard", "no branch returning Err(Incomplete) is decided by the status of the oldest ancestor's parent: a chain whose next ancestor is uncommitted would be accepted as complete", site=body.span, detail="guard at bb%s" % [g[0] for g in status_guards]):
        return n
    for (sw, table) in status_guards:
        for name, want in (("LIVE", True), ("DROPPED", True), ("COMMITTED", False)):
            n += 1
            rep.check(table[name] == want, "P1", short, "refuse(%s)=%s" % (name, want), "LiveOverlay::new %s a chain whose oldest supplied ancestor has a %s parent; the chain is complete only when that parent is COMMITTED" % ("accepts" if want else "refuses", name), site=body.term(sw).get("ln") or body.span, detail="evaluated the guard at bb%d for status=%s: refused=%s" % (sw, name, table[name]))
    return n


def p2(facts, rep):
    consts = status_consts(facts)
    n = 0
    writers = {"store": [], "compare_exchange": [], "other": []}
    for body in facts.bodies.values():
        if body.crate != "nomt" or "::tests::" in body.id:
            continue
        for b, t in body.calls():
            callee = t.get("callee") or ""
            if not callee.startswith("core::sync::atomic::") or not t["args"]:
                continue
            m = callee.rsplit("::", 1)[1]
            if m in ("load", "new", "fmt", "as_ptr", "into_inner"):
                continue
            # is the receiver the status word?  (field .0 of an OverlayStatus)
            recv = False
            for r in trace(body, t["args"][0]):
                if STATUS in r.owners:
                    recv = True
            if not recv:
                continue
            short = body.id.split("::", 1)[1]
            n += 1
            if m == "store":
                ok = body.origin(b).startswith(STATUS + "::") and t["args"][1].get("k") == "const" and int(t["args"][1].get("int", -1)) == consts.get("COMMITTED")
                rep.check(ok, "P2", short, "store", "the overlay status word is stored outside the methods of OverlayStatus, or with a value other than COMMITTED", site=t.get("ln"), detail="a method of OverlayStatus stores COMMITTED")
            elif m == "compare_exchange":
                a = [x.get("int") for x in t["args"][1:3]]
                ok = body.origin(b).startswith(STATUS + "::") and a[0] is not None and a[1] is not None and int(a[0]) == consts.get("LIVE") and int(a[1]) == consts.get("DROPPED")
                rep.check(ok, "P2", short, "compare_exchange", "the overlay status word is changed by a compare_exchange other than LIVE -> DROPPED inside a method of OverlayStatus: a committed overlay could be un-committed, or a dropped one revived", site=t.get("ln"), detail="a method of OverlayStatus: LIVE -> DROPPED only")
            else:
                rep.violation("P2", short, m, "the overlay status word is modified with `%s` outside the listed transitions (commit: -> COMMITTED, drop: LIVE -> DROPPED)" % m, site=t.get("ln"))
    return n


def run(facts, rep):
    return p1(facts, rep), p2(facts, rep)
