# M1 ownership of the rollback log's in-memory image (C09: "rolling back n commits ... leaves values and root exactly as they
# were before those n commits ... whatever mix of ... reopenings preceded it")
#
# `rollback::InMemory.log` is the deque of reverse deltas that `Nomt::rollback` pops; what is in it decides what a rollback
# restores.  Rule (who-may-mutate / who-may-call, instances frozen from the tree):
#   M1a  the field is assigned or mutably borrowed only inside methods of `InMemory` itself;
#   M1b  those methods touch it only with push_back (newest end grows), pop_back (newest end shrinks), pop_front (oldest end
#        shrinks) and read-only methods - nothing that drops or reorders records in bulk (truncate, clear, drain, retain,
#        push_front, insert, remove, swap, rotate ...);
#   M1c  growing the newest end is reachable only from the two commit paths and the replay on open; shrinking the newest end
#        only from `Rollback::truncate` (a rollback); shrinking the oldest end only from `writeout_start` (pruning to the limit).
from core import trace, CheckBroken

OWNER = "nomt::rollback::InMemory"
FIELD = "log"
READ_ONLY = ("len", "is_empty", "iter", "front", "back", "get", "capacity", "as_slices", "contains", "range")
ROLE_OF = {"push_back": "grow-newest", "pop_back": "shrink-newest", "pop_front": "shrink-oldest"}
ALLOWED_ROOTS = {
    "grow-newest": ("nomt::rollback::Rollback::commit", "nomt::rollback::Rollback::commit_nonblocking", "nomt::rollback::Rollback::read"),
    "shrink-newest": ("nomt::rollback::Rollback::truncate",),
    "shrink-oldest": ("nomt::rollback::Rollback::writeout_start",),
}


def field_index(pl):
    p = pl.get("p", ())
    o = pl.get("o", ())
    for i, e in enumerate(p):
        if e == "." + FIELD and i < len(o) and o[i] == OWNER:
            return i
    return None


def run(facts, rep):
    if OWNER not in facts.adts:
        raise CheckBroken("ANCHOR-MISSING type %s" % OWNER)
    n = 0
    roles = {}  # InMemory method -> set of roles
    for body in facts.bodies.values():
        if body.crate != "nomt" or "::tests::" in body.id:
            continue
        short = body.id.split("::", 1)[1]
        inside = body.id.startswith(OWNER + "::")
        for b in range(body.n):
            for s in body.stmts(b):
                if s["k"] != "assign":
                    continue
                rv = s["rv"]
                # direct store
                if field_index(s["pl"]) is not None:
                    n += 1
                    rep.check(inside and body.id.endswith("::new"), "M1", short, "store(InMemory.log)", "the in-memory rollback log is assigned outside InMemory's constructor: what a later rollback restores no longer follows the commit history", site=s.get("ln"), detail="store in the constructor")
                if rv["k"] == "ref" and rv.get("mut") and field_index(rv["pl"]) is not None:
                    n += 1
                    rep.check(inside, "M1", short, "borrow-mut(InMemory.log)", "the in-memory rollback log is mutably borrowed outside the methods of InMemory: records can be dropped or reordered behind the back of commit / truncate / prune", site=s.get("ln"), detail="mutable borrow inside an InMemory method")
                    if inside:
                        # which deque method receives the borrow
                        dest = s["pl"]["l"]
                        for cb, t in body.calls():
                            if any(a["k"] in ("move", "copy") and a["pl"]["l"] == dest for a in t["args"][:1]):
                                m = (t.get("callee") or "").rsplit("::", 1)[-1]
                                n += 1
                                if m in ROLE_OF:
                                    roles.setdefault(body.id, set()).add(ROLE_OF[m])
                                    rep.ok("M1", short, "method=" + m, "one-record operation on one end of the log")
                                elif m in READ_ONLY:
                                    rep.ok("M1", short, "method=" + m)
                                else:
                                    rep.violation("M1", short, "method=" + m, "InMemory.log is modified with `%s`, which is not a one-record push/pop at a known end of the log: records of commits can be lost or reordered" % m, site=t.get("ln"))
    found = {r for v in roles.values() for r in v}
    for role in sorted(ALLOWED_ROOTS):
        n += 1
        rep.check(role in found, "M1", "rollback::InMemory", "role=" + role, "no method of InMemory performs `%s` on the log any more (push_back = commit appends the newest record, pop_back = rollback takes the newest, pop_front = pruning drops the oldest)" % role, detail="present")
    # M1c: who reaches each role
    for meth, rs in sorted(roles.items()):
        for role in sorted(rs):
            allowed = ALLOWED_ROOTS[role]
            seen, st = set(), [meth]
            while st:
                cur = st.pop()
                if cur in seen:
                    continue
                seen.add(cur)
                callers = [c for c in facts.callers().get(cur, []) if c[2] in ("call", "candidate", "closure")] if cur != meth or True else []
                cb = facts.bodies.get(cur)
                ups = [c[0] for c in callers]
                if cb is not None and cb.kind == "Closure" and cb.parent:
                    ups.append(cb.parent)
                if cur != meth and cur in allowed:
                    n += 1
                    rep.ok("M1", cur.split("::", 1)[1], "reaches=" + role)
                    continue
                if cur != meth and not cur.startswith("nomt::rollback::"):
                    n += 1
                    rep.violation("M1", cur.split("::", 1)[1], "reaches=" + role, "%s of the in-memory rollback log is reachable from %s, which is not one of %s" % (role, cur, ", ".join(a.rsplit("::", 1)[-1] for a in allowed)), site=facts.bodies[cur].span if cur in facts.bodies else None)
                    continue
                if not ups and cur != meth:
                    n += 1
                    rep.violation("M1", cur.split("::", 1)[1], "reaches=" + role, "%s of the in-memory rollback log is reachable from %s, which is not one of %s" % (role, cur, ", ".join(a.rsplit("::", 1)[-1] for a in allowed)), site=facts.bodies[cur].span if cur in facts.bodies else None)
                    continue
                st.extend(ups)
    return n
