# E1 / E2 (C09): the reverse delta's persistent form keeps the difference between "the key did not exist" and "the key held
# a value" - including the EMPTY value.
#
# A rollback restores values from deltas; after a reopening the deltas come from `Delta::decode` of what `Delta::encode` wrote.
# `priors: HashMap<KeyPath, Option<Vec<u8>>>` - None means "erase the key on rollback", Some(v) "reinstate v", and v may be
# empty.  Whatever the layout, the encoder has to LOOK at the variant: if every use of a prior in `encode` goes through a
# combinator that replaces None by a value of the payload's own type (`unwrap_or(&[])`, `unwrap_or_default()`,
# `map_or(0, |v| v.len())` ..) and the variant is inspected nowhere, then None and Some(default) produce the same bytes and a
# rollback across a reopening turns an empty value into an absent key (or the reverse).
#
#   E1  in Delta::encode (with its closures and the crate helpers it hands a prior to) either the variant of a prior is
#       inspected (a match / if-let on it, is_some / is_none, Option::iter) or no variant-forgetting combinator feeds the output.
#       Shapes the rule cannot judge (the prior goes through `map` / `and_then` first, e.g. towards an out-of-band sentinel)
#       are recorded as a note.
#   E2  Delta::decode can produce both variants: a `None` and a `Some(..)` of the prior type each reach the map insertion.
import re
from core import trace, CheckBroken

ENC = "nomt::rollback::delta::Delta::encode"
DEC = "nomt::rollback::delta::Delta::decode"
PRIOR_OPT = re.compile(r"^(?:&(?:mut )?)*core::option::Option<(?:&(?:mut )?)?(?:alloc::vec::Vec<u8>|\[u8\])>$")
PLUMBING = ("as_ref", "as_deref", "as_slice", "cloned", "copied", "clone", "as_mut", "as_deref_mut", "deref", "borrow")
FORGETTING = ("unwrap_or", "unwrap_or_default", "unwrap_or_else", "map_or", "map_or_else")
INSPECTING = ("is_some", "is_none", "is_some_and", "is_none_or", "iter", "into_iter", "ok_or", "ok_or_else", "expect", "unwrap", "unwrap_unchecked")
WRITES = ("extend_from_slice", "push", "extend", "write_all", "write", "put_slice", "append", "insert")


def _is_prior(ty):
    return bool(ty) and bool(PRIOR_OPT.match(ty))


def _family(facts, root_id):
    """the function, its closures, and crate helpers that receive a prior"""
    out, work = [], [root_id]
    while work:
        i = work.pop()
        b = facts.bodies.get(i)
        if b is None or b in out:
            continue
        out.append(b)
        for j in facts.bodies:
            if j.startswith(i + "::{closure"):
                work.append(j)
        for _bb, t in b.calls():
            c = t.get("callee") or ""
            if c in facts.bodies and facts.bodies[c].crate == "nomt" and any(_is_prior(_op_ty(b, a)) for a in t["args"]) and len(out) < 12:
                work.append(c)
    return out


def _op_ty(body, op):
    if op.get("k") in ("copy", "move"):
        return body.place_ty(op["pl"]) or ""
    return op.get("ty") or ""


def e1(facts, rep):
    root = facts.bodies.get(ENC)
    if root is None:
        raise CheckBroken("anchor missing: %s" % ENC)
    short = ENC.split("::", 1)[1]
    inspected, forgetting, undecided = [], [], []
    for body in _family(facts, ENC):
        for b in range(body.n):
            if body.is_cleanup(b):
                continue
            for s in body.stmts(b):
                if s["k"] == "assign" and s["rv"]["k"] == "discr" and _is_prior(body.place_ty(s["rv"]["pl"]) or ""):
                    inspected.append("match at %s" % s.get("ln"))
            t = body.term(b)
            if t["k"] != "call" or not t["args"]:
                continue
            c = t.get("callee") or ""
            if not _is_prior(_op_ty(body, t["args"][0])) or "option::Option" not in c:
                continue
            m = c.rsplit("::", 1)[-1]
            if m in PLUMBING:
                continue
            if m in INSPECTING:
                inspected.append("%s at %s" % (m, t.get("ln")))
            elif m in FORGETTING:
                forgetting.append((body, b, t, m))
            else:
                undecided.append("%s at %s" % (m, t.get("ln")))
    feeding = []
    for (body, b, t, m) in forgetting:
        # does the combinator's result reach a write into a buffer?
        d = t.get("dest")
        if d is None or d.get("p"):
            continue
        for wb, wt in body.calls():
            wc = (wt.get("callee") or "").rsplit("::", 1)[-1]
            if wc not in WRITES or body.is_cleanup(wb):
                continue
            import shadow

            if any(r.kind == "call" and r.bb == b for a in wt["args"][1:] for r in shadow._deep_roots(body, a)):
                feeding.append("%s at %s feeds %s at %s" % (m, t.get("ln"), wc, wt.get("ln")))
    if inspected:
        rep.ok("E1", short, "presence-of-prior-encoded", detail="the variant of a prior is inspected: %s" % "; ".join(sorted(set(inspected))[:4]))
    elif feeding and not undecided:
        rep.violation("E1", short, "presence-of-prior-encoded", "Delta::encode never looks at whether a prior value exists and writes %s: a key that did not exist and a key that held the EMPTY value are encoded alike, so a rollback across a reopening erases a key that must come back empty (or the reverse)" % "; ".join(sorted(set(feeding))[:3]), site=root.span)
    else:
        rep.notes.append("E1: Delta::encode neither matches on a prior nor feeds a variant-forgetting combinator into the output (%s): presence encoding not decided" % ("; ".join(undecided[:3]) or "no use of a prior found"))
    return 1


def _variants(body, op):
    """the Option variants a value may have, following plain moves only ('?' when it comes from anywhere else)"""
    out, work, seen = set(), [op], set()
    while work:
        o = work.pop()
        if o.get("k") not in ("copy", "move") or o["pl"].get("p"):
            out.add("?")
            continue
        l = o["pl"]["l"]
        if l in seen:
            continue
        seen.add(l)
        ds = body.defs().get(l, [])
        if not ds:
            out.add("?")
        for (_b, _i, kind, obj) in ds:
            if kind != "assign":
                out.add("?")
            elif obj["rv"]["k"] == "use":
                work.append(obj["rv"]["op"])
            elif obj["rv"]["k"] == "agg" and obj["rv"].get("name") == "core::option::Option":
                out.add(obj["rv"].get("variant", "?"))
            else:
                out.add("?")
    return out


def e2(facts, rep):
    body = facts.bodies.get(DEC)
    if body is None:
        raise CheckBroken("anchor missing: %s" % DEC)
    short = DEC.split("::", 1)[1]
    variants = set()
    n_ins = 0
    fam = _family(facts, DEC)
    for bd in fam:
        for b, t in bd.calls():
            c = t.get("callee") or ""
            if not c.endswith("::insert") or "HashMap" not in c or bd.is_cleanup(b) or len(t["args"]) < 3:
                continue
            if not _is_prior(_op_ty(bd, t["args"][2])):
                continue
            n_ins += 1
            variants |= _variants(bd, t["args"][2])
    if not n_ins:
        rep.notes.append("E2: Delta::decode no longer inserts priors into a HashMap directly: not decided")
        return 0
    ok = "?" in variants or {"None", "Some"} <= variants
    rep.check(ok, "E2", short, "both-variants-decodable", "Delta::decode only ever builds %s priors: after a reopening a rollback can no longer %s" % ("/".join(sorted(variants)) or "no", "erase a key that did not exist" if "None" not in variants else "reinstate a prior value"), site=body.span, detail="priors inserted by decode: %s" % sorted(variants))
    return 1


def run(facts, rep):
    return e1(facts, rep) + e2(facts, rep)
