# H1 hand-back integrity (C12: "a non-blocking commit that finds other sessions alive hands the changeset back ... exactly as
# if the attempt had never been made")
#
# A hand-back function takes `self` by value and returns `Result<Option<Self>, _>`; a hand-back point is a whole move of
# `self` (which then flows into `Ok(Some(self))`).  Rule: on every path from the entry to a hand-back point, no field of
# `self` has been moved out, assigned or mutably borrowed - unless the moved-out value was put back: the field is
# re-assigned from a value derived from the call that consumed it (`Ok(Some(delta)) => { self.rollback_delta =
# Some(delta); return Ok(Some(self)) }`).  Forward may-dataflow over the CFG, one state per top-level field.
from core import trace, CheckBroken


def handback_functions(facts):
    out = []
    for body in facts.bodies.values():
        if body.crate != "nomt" or body.kind == "Closure" or body.argc < 1 or "::tests::" in body.id:
            continue
        ls = body.j.get("locals", [])
        if len(ls) < 2:
            continue
        t0, t1 = ls[0]["ty"], ls[1]["ty"]
        if t1.startswith("&") or not t1.startswith("nomt::"):
            continue
        if t0.startswith("core::result::Result<core::option::Option<%s>" % t1):
            out.append(body)
    return out


def top_field(pl):
    for e in pl.get("p", ()):
        if e.startswith("."):
            return e[1:]
        if e == "*":
            continue
    return None


def operands_of_rv(rv):
    k = rv["k"]
    if k in ("use", "cast"):
        return [rv["op"]]
    if k == "bin":
        return [rv["a"], rv["b"]]
    if k == "un":
        return [rv["a"]] if "a" in rv else [rv.get("op")] if rv.get("op") and isinstance(rv.get("op"), dict) else []
    if k == "agg":
        return list(rv.get("ops", []))
    return []


def derived_locals(body, x):
    """locals that receive the value of local x through plain moves/copies"""
    out = {x}
    changed = True
    while changed:
        changed = False
        for b in range(body.n):
            for s in body.stmts(b):
                if s["k"] == "assign" and s["rv"]["k"] == "use":
                    op = s["rv"]["op"]
                    if op["k"] in ("move", "copy") and op["pl"]["l"] in out and not s["pl"].get("p") and s["pl"]["l"] not in out:
                        out.add(s["pl"]["l"])
                        changed = True
    return out


def restores(body, rv_ops, moved_to):
    """the assigned value derives from the local the field was moved to, or from a call that consumed it"""
    if isinstance(moved_to, tuple):  # moved directly into a call at block moved_to[1]
        call_bbs = {moved_to[1]}
        der = set()
    else:
        der = derived_locals(body, moved_to)
        call_bbs = set()
        for b, t in body.calls():
            for a in t["args"]:
                if a["k"] in ("move", "copy") and a["pl"]["l"] in der:
                    call_bbs.add(b)
    for op in rv_ops:
        if op is None:
            continue
        if op["k"] in ("move", "copy") and op["pl"]["l"] in der:
            return True
        for r in trace(body, op, deep=True):
            if r.kind == "call" and r.bb in call_bbs:
                return True
    return False


def transfer(body, b, state, points):
    """state: dict field -> frozenset of (kind, where, moved_to); returns new state; records hand-back points"""
    st = {k: set(v) for k, v in state.items()}

    def note_ops(ops, dest_local, where):
        for op in ops:
            if op is None or op["k"] != "move" or op["pl"]["l"] != 1:
                continue
            f = top_field(op["pl"])
            if f is None:
                continue
            st.setdefault(f, set()).add(("moved", where, dest_local))

    for i, s in enumerate(body.stmts(b)):
        if s["k"] != "assign":
            continue
        rv = s["rv"]
        ln = s.get("ln")
        # hand-back point: whole move of self
        if rv["k"] == "use" and rv["op"]["k"] == "move" and rv["op"]["pl"]["l"] == 1 and not rv["op"]["pl"].get("p"):
            points.append((b, ln, {k: set(v) for k, v in st.items() if v}))
            continue
        if rv["k"] == "ref" and rv.get("mut") and rv["pl"]["l"] == 1:
            f = top_field(rv["pl"])
            if f is not None:
                st.setdefault(f, set()).add(("mutably borrowed", ln, None))
            else:
                st.setdefault("<self>", set()).add(("mutably borrowed", ln, None))
        note_ops(operands_of_rv(rv), s["pl"]["l"], ln)
        if s["pl"]["l"] == 1 and s["pl"].get("p"):
            f = top_field(s["pl"])
            if f is not None:
                cur = st.get(f, set())
                moved = [x for x in cur if x[0] == "moved"]
                if moved and all(restores(body, operands_of_rv(rv), x[2]) for x in moved) and not [x for x in cur if x[0] != "moved"]:
                    st[f] = set()
                else:
                    st.setdefault(f, set()).add(("assigned", ln, None))
    t = body.term(b)
    if t["k"] == "call":
        note_ops(t["args"], ("call", b), t.get("ln"))
    return {k: frozenset(v) for k, v in st.items() if v}


def h1(facts, rep):
    fns = handback_functions(facts)
    n = 0
    for body in fns:
        short = body.id.split("::", 1)[1]
        rem = {b for b in range(body.n) if body.is_cleanup(b)}
        # forward may-dataflow
        inn = {0: {}}
        work = [0]
        points_at = {}
        iters = 0
        while work:
            iters += 1
            if iters > 20000:
                raise CheckBroken("H1 dataflow does not converge in %s" % body.id)
            b = work.pop()
            pts = []
            out = transfer(body, b, inn.get(b, {}), pts)
            points_at[b] = pts
            for s in body.succ(b):
                if s in rem:
                    continue
                cur = inn.get(s)
                if cur is None:
                    inn[s] = dict(out)
                    work.append(s)
                else:
                    new = dict(cur)
                    ch = False
                    for k, v in out.items():
                        u = new.get(k, frozenset()) | v
                        if u != new.get(k, frozenset()):
                            new[k] = u
                            ch = True
                    if ch:
                        inn[s] = new
                        work.append(s)
        for b in sorted(points_at):
            for (pb, ln, st) in points_at[b]:
                n += 1
                bad = sorted((f, sorted(str(x[0]) + "@" + str(x[1]) for x in v)) for f, v in st.items())
                rep.check(not bad, "H1", short, "hand-back-intact", "the changeset handed back is not the one that was passed in: field(s) %s of `self` were moved out, assigned or mutably borrowed on a path to the hand-back and not put back; a later commit of the returned changeset differs from the original attempt" % ", ".join("%s (%s)" % (f, "; ".join(w)) for f, w in bad), site=ln, detail="no field of self touched before the hand-back at %s (or the moved-out value restored)" % ln)
    return len(fns), n
