# Positive controls: for rules whose expected violation count on a healthy tree is zero, a tiny
# fact-level mutation of TODAY's extracted MIR (one call neutralised, one constant changed, one
# function renamed) is analysed on every run and must make the rule fire.  This shows that the rule
# is live against the current tree (a rule that silently matches nothing would pass forever).  The
# controls never touch /repo and never influence the verdict; a control that fails to fire is a
# broken check (exit 2).
import copy

import core


class ControlSkipped(Exception):
    """the construct the control mutates is not present in this tree (e.g. after a refactor)"""


def clone_with(facts, edits):
    f2 = copy.copy(facts)
    f2.bodies = dict(facts.bodies)
    f2._callers = None
    f2._trait_impls = None
    for (bid, fn) in edits:
        b = facts.bodies.get(bid)
        if b is None:
            raise ControlSkipped("function %s not present" % bid)
        j = copy.deepcopy(b.j)
        fn(j)
        nb = core.Body(j, b.crate)
        # renamed bodies move in the table
        if nb.id != bid:
            del f2.bodies[bid]
        f2.bodies[nb.id] = nb
    return f2


def neutralise_call(callee_suffix, nth=0, new="core::hint::black_box"):
    def fn(j):
        k = 0
        for bl in j["blocks"]:
            t = bl["t"]
            if t["k"] == "call" and (t.get("callee") or "").endswith(callee_suffix):
                if k == nth:
                    t["callee"] = new
                    t["orig"] = new
                    return
                k += 1
        raise ControlSkipped("no call to *%s in %s" % (callee_suffix, j["id"]))

    return fn


def retarget_call(callee_suffix, new, dest_ty, nth=0):
    """the nth call to *callee_suffix becomes a call to `new` whose result has type dest_ty"""
    def fn(j):
        k = 0
        for bl in j["blocks"]:
            t = bl["t"]
            if t["k"] == "call" and (t.get("callee") or "").endswith(callee_suffix):
                if k == nth:
                    t["callee"] = new
                    t["orig"] = new
                    d = t.get("dest") or {}
                    if "l" in d and not d.get("p"):
                        j["locals"][d["l"]]["ty"] = dest_ty
                    return
                k += 1
        raise ControlSkipped("no call to *%s in %s" % (callee_suffix, j["id"]))

    return fn


def rename(new_id):
    def fn(j):
        j["id"] = new_id

    return fn


def set_const_in_call(callee_suffix, arg, value):
    def fn(j):
        for bl in j["blocks"]:
            t = bl["t"]
            if t["k"] == "call" and (t.get("callee") or "").endswith(callee_suffix):
                t["args"][arg] = {"k": "const", "ty": "i32", "int": str(value), "s": str(value)}
                return
        raise ControlSkipped("no call to *%s in %s" % (callee_suffix, j["id"]))

    return fn


def set_arg_of_call(callee_suffix, nth, arg, operand):
    def fn(j):
        k = 0
        for bl in j["blocks"]:
            t = bl["t"]
            if t["k"] == "call" and (t.get("callee") or "").endswith(callee_suffix):
                if k == nth:
                    t["args"][arg] = operand
                    return
                k += 1
        raise ControlSkipped("no call to *%s in %s" % (callee_suffix, j["id"]))

    return fn


def copy_of_self_field_becomes_move():
    """the first `copy _1.<field>` of a body becomes a `move` (a field of `self` is moved out)"""

    def fn(j):
        for bl in j["blocks"]:
            for st in bl["s"]:
                if st.get("k") == "assign" and st["rv"].get("k") == "use":
                    op = st["rv"]["op"]
                    if op.get("k") == "copy" and op["pl"].get("l") == 1 and op["pl"].get("p"):
                        op["k"] = "move"
                        return
        raise ControlSkipped("no `copy _1.<field>` in %s" % j["id"])

    return fn


def replace_const(old_s, new_int, new_s):
    """the first constant operand printed as old_s (e.g. `-1_i32`) gets another value"""

    def fn(j):
        for bl in j["blocks"]:
            for st in bl["s"]:
                if st.get("k") == "assign":
                    rv = st["rv"]
                    for key in ("op", "a", "b"):
                        o = rv.get(key)
                        if isinstance(o, dict) and o.get("k") == "const" and o.get("s") == old_s:
                            o["int"] = str(new_int)
                            o["s"] = new_s
                            return
        raise ControlSkipped("no constant %s in %s" % (old_s, j["id"]))

    return fn


def swap_args_of_calls(callee_suffix):
    """swap the first operands of the first two calls to callee (e.g. the two lock() calls)"""

    def fn(j):
        ts = [bl["t"] for bl in j["blocks"] if bl["t"]["k"] == "call" and (bl["t"].get("callee") or "").endswith(callee_suffix)]
        if len(ts) < 2:
            raise ControlSkipped("fewer than two calls to *%s in %s" % (callee_suffix, j["id"]))
        # swap the defining statements of the two argument temporaries is involved; instead swap the
        # destinations' roles by exchanging the arg operands AND the dest places
        a, b = ts[0], ts[1]
        a["args"], b["args"] = b["args"], a["args"]

    return fn


CONTROLS = {
    "C03": [
        ("O1: join of the WAL writeout task neutralised", [("nomt::bitbox::SyncController::wait_pre_meta", neutralise_call("task::join_task", 1))], "O1|"),
        ("O7: sync_seqn comparison operand replaced", [("nomt::bitbox::recover", neutralise_call("WalBlobReader::sync_seqn"))], "O7|"),
        ("O13: the WAL Clear entry of prepare_sync neutralised", [("nomt::bitbox::DB::prepare_sync", neutralise_call("WalBlobBuilder::write_clear"))], "O13|"),
    ],
    "C04": [
        ("O2: fsync of the WAL neutralised", [("nomt::bitbox::writeout::write_wal", neutralise_call("File::sync_all"))], "O2|"),
        ("O4: fsync of the meta page neutralised", [("nomt::store::meta::Meta::write", neutralise_call("File::sync_all"))], "O4|"),
        ("O5: fsync of the hash table neutralised", [("nomt::bitbox::writeout::write_ht", neutralise_call("File::sync_all"))], "O5|"),
        ("O9: fsync of the rollback segment neutralised", [("nomt::seglog::segment_rw::SegmentFileWriter::fsync", neutralise_call("File::sync_data"))], "O9|"),
    ],
    "C08": [
        ("S1: root comparison neutralised", [("nomt_core::proof::path_proof::PathProof::verify", neutralise_call("::eq"))], "S1|"),
        ("S2: scope predicate neutralised", [("nomt_core::proof::multi_proof::VerifiedMultiProof::confirm_value", neutralise_call("find_index_for"))], "S2|"),
    ],
    "C09": [
        ("M1: the newest-end pop moved out of InMemory", [("nomt::rollback::InMemory::pop_recent", rename("nomt::rollback::pop_recent_free"))], "M1|"),
        ("guardfx: enough-logged comparison source neutralised", [("nomt::rollback::Rollback::truncate", neutralise_call("InMemory::total_len"))], "guardfx|rollback::Rollback::truncate|guard=enough_logged"),
    ],
    "C11": [
        ("P1: status predicate behind the completeness guard neutralised", [("nomt::overlay::LiveOverlay::new::{closure#1}", neutralise_call("OverlayStatus::is_committed"))], "P1|"),
        ("guardfx: parent-marker check neutralised", [("nomt::overlay::Overlay::commit", neutralise_call("parent_matches_marker"))], "guard=parent_marker"),
        ("S2: the copy of the remaining stored leaves after the merge loop neutralised", [("nomt::merkle::seek::SeekRequest::continue_leaves_fetch", neutralise_call("Vec::extend_from_slice", 1))], "S2|"),
    ],
    "C12": [
        ("H1: a field of self is moved out before the hand-back", [("nomt::FinishedSession::try_commit_nonblocking", copy_of_self_field_becomes_move())], "H1|"),
        ("guardfx: previous-root comparison neutralised", [("nomt::FinishedSession::commit", neutralise_call("PartialEq::ne"))], "guard=root_eq"),
    ],
    "C14": [
        ("R1: `?` on the WAL fsync replaced by a drop", [("nomt::bitbox::writeout::write_wal", neutralise_call("Try>::branch", 3, "core::mem::drop"))], "R1|bitbox::writeout::write_wal"),
        ("R2: `?` on the completion result neutralised", [("nomt::bitbox::writeout::write_ht", neutralise_call("Try>::branch", 0, "core::mem::drop"))], "R2|bitbox::writeout::write_ht"),
        ("R6: classification of the syscall result neutralised", [("nomt::io::platform::run_worker", neutralise_call("IoKind::get_result"))], "R6|"),
        ("R6c: a failed completion is normalised to -9 instead of -1", [("nomt::io::platform::run_worker", replace_const("-1_i32", 4294967287, "-9_i32"))], "failed-completion-can-fail"),
        ("R4: poisoning store neutralised", [("nomt::store::Store::commit", neutralise_call("::store"))], "R4|store::Store::commit"),
        ("R9: fallocate behind cvt_r becomes posix_fallocate (which returns the error number)", [("nomt::sys::linux::falloc_zero_file::{closure#0}", retarget_call("::fallocate", "libc::posix_fallocate", "i32"))], "R9|"),
        ("R8: write_all of the rollback record becomes a plain write whose count is dropped", [("nomt::seglog::segment_rw::SegmentFileWriter::write_payload", retarget_call("::write_all", "<std::fs::File as std::io::Write>::write", "core::result::Result<usize, std::io::error::Error>"))], "R8|"),
    ],
    "C15": [
        ("L1: lock order of Rollback::commit reversed", [("nomt::rollback::Rollback::commit", swap_args_of_calls("mutex::Mutex::lock"))], "L1|lock-order|cycle"),
        ("L7: block_until_zero neutralised", [("nomt::beatree::Tree::prepare_sync", neutralise_call("block_until_zero"))], "L7|"),
    ],
    "C17": [
        ("W1: hash-table writer moved to another module", [("nomt::bitbox::writeout::write_ht", rename("nomt::merkle::write_ht"))], "W1|"),
        ("W3: free-list mutator called from allocate", [("nomt::beatree::allocator::SyncAllocator::allocate", neutralise_call("FreeList::as_clean", 0, "nomt::beatree::allocator::free_list::FreeList::pop"))], "W3|"),
    ],
    "C18": [
        ("T1: the next() driving the loop of hash_path neutralised", [("nomt_core::proof::path_proof::hash_path", neutralise_call("Iterator>::next"))], "T1|proof::path_proof::hash_path"),
        ("T2: a recursive call of verify_range passes start_depth unchanged", [("nomt_core::proof::multi_proof::verify_range", set_arg_of_call("multi_proof::verify_range", 0, 0, {"k": "copy", "pl": {"l": 1}}))], "T2|"),
        ("inventory: a new unwrap appears", [("nomt_core::proof::path_proof::hash_path", neutralise_call("::rev", 0, "core::option::Option::unwrap"))], "panicfree|proof::path_proof::hash_path|site|"),
    ],
    "C19": [
        ("U1: the set_tombstone of prepare_sync neutralised", [("nomt::bitbox::DB::prepare_sync", neutralise_call("MetaMap::set_tombstone"))], "U1|"),
        ("U2: FreeList::commit in finish neutralised", [("nomt::beatree::allocator::SyncFinisher::finish", neutralise_call("FreeList::commit"))], "U2|"),
        ("U5: the release of the emptied head page in FreeList::pop neutralised", [("nomt::beatree::allocator::free_list::FreeList::pop", neutralise_call("Vec::push"))], "U5|"),
        ("U4: the overflow test of keep_up_to neutralised", [("nomt::beatree::ops::update::leaf_updater::LeafUpdater::keep_up_to", neutralise_call("BaseLeaf::cell"))], "U4|"),
    ],
    "C20": [
        ("D2: flock flags changed to LOCK_EX", [("nomt::sys::unix::try_lock_exclusive::{closure#0}", set_const_in_call("::flock", 1, 2))], "D2|"),
        ("D1: Flock::lock in create neutralised", [("nomt::store::create", neutralise_call("Flock::lock"))], "D1|store::create"),
        ("D6: a raw dup of a descriptor appears", [("nomt::sys::unix::unlock::{closure#0}", neutralise_call("::flock", 0, "libc::unix::dup"))], "D6|"),
    ],
}


def run_for(prop, facts=None, runner=None):
    """returns a dict name -> status; raises CheckBroken if a control does not fire"""
    out = {}
    if facts is None or runner is None:
        return {"status": "no facts"}
    for (name, edits, expect) in CONTROLS.get(prop, []):
        if expect is None:
            continue
        try:
            f2 = clone_with(facts, edits)
        except ControlSkipped as e:
            out[name] = "skipped: %s (the construct this control mutates is not present; the control is not applicable to this tree)" % e
            continue
        rep = core.Report(prop, "quick")
        try:
            runner(f2, rep, "control")
        except core.CheckBroken as e:
            # a floor tripping on the mutated facts is also a firing (the rule noticed) only if it names the rule
            raise core.CheckBroken("positive control `%s` could not be evaluated: %s" % (name, e))
        keys = [v["key"] for v in rep.violations]
        hit = [k for k in keys if expect in k]
        if not hit:
            # not fatal: on a tree that differs from the one the control was calibrated on, the construct it
            # mutates may have moved.  It is recorded and printed so that a reader sees it.
            out[name] = "DID NOT FIRE (expected a violation containing `%s`; got %s)" % (expect, keys[:3])
            print("note: positive control `%s` did not fire on this tree" % name)
            continue
        out[name] = "fired: " + hit[0]
    return out
