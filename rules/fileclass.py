# File events of crate nomt and their file class.
#   event kinds: write | resize | sync | unlink | create | open
#   classes: meta wal ht ln bbn lnbbn seglog dir lock  (lnbbn = a beatree store file, ln or bbn)
# Classification is by provenance of the File/RawFd/path operand (xtrace through locals, fields,
# captures, parameters and returns) down to either an open/create call whose path derives from
# Path::join(<literal>) / segment_filename::format, or a field listed in FILE_FIELDS (frozen,
# cross-checked against the derived provenance on every run).
import re
from core import xtrace, roots, trace, CheckBroken

LITERAL_CLASS = {"meta": "meta", "ln": "ln", "bbn": "bbn", "ht": "ht", "wal": "wal", ".lock": "lock"}

# frozen table: (owner ADT, field) -> class.  One line of reason each.
FILE_FIELDS = {
    ("nomt::bitbox::Shared", "wal_fd"): "wal",  # DB::open(.., ht_fd, wal_fd) from Store::open join("wal")
    ("nomt::bitbox::Shared", "ht_fd"): "ht",  # join("ht")
    ("nomt::store::Shared", "meta_fd"): "meta",  # join("meta")
    ("nomt::store::Shared", "_db_dir_fd"): "dir",  # directory handle
    ("nomt::beatree::allocator::Store", "file"): "lnbbn",  # Store::open(file) from Tree::open(bbn_fd, ln_fd)
    ("nomt::beatree::allocator::SyncAllocator", "file"): "lnbbn",  # clone of Store.file in start_sync
    ("nomt::beatree::allocator::SyncFinisher", "file"): "lnbbn",  # clone of Store.file in start_sync
    ("nomt::seglog::segment_rw::SegmentFileWriter", "file"): "seglog",  # create_segment / truncate_head_segment
    ("nomt::seglog::segment_rw::SegmentFileReader", "file"): "seglog",
    ("nomt::seglog::SegmentedLog", "root_dir_fd"): "dir",  # Rollback::read(.., db_dir_fd, ..)
    ("nomt::store::flock::Flock", "lock_fd"): "lock",  # Flock::lock join(".lock")
}


def effective_fields(facts):
    """FILE_FIELDS with private-field renames followed: a listed field that no longer exists is matched to the one
    File-typed field of the same struct that the table does not list (unambiguous cases only; otherwise the check is broken)"""
    if getattr(facts, "_file_fields", None) is not None:
        return facts._file_fields
    eff, names = {}, {}
    by_owner = {}
    for (o, f), cls in FILE_FIELDS.items():
        by_owner.setdefault(o, []).append((f, cls))
    for o, lst in by_owner.items():
        adt = facts.adts.get(o)
        if adt is None:
            # the owner type itself is gone: the events that relied on it become unclassified and fail closed there
            for f, cls in lst:
                eff[(o, f)] = cls
                names[(o, f)] = f
            continue
        fields = [(x["n"], x["ty"]) for v in adt.get("variants", []) for x in v.get("fields", [])]
        have = {n for n, _ in fields}
        missing = [(f, cls) for f, cls in lst if f not in have]
        listed = {f for f, _ in lst}
        cands = [n for n, ty in fields if n not in listed and ("std::fs::File" in ty or "RawFd" in ty or "OwnedFd" in ty)]
        for f, cls in lst:
            if f in have:
                eff[(o, f)] = cls
                names[(o, f)] = f
        if missing:
            if len(missing) == 1 and len(cands) == 1:
                eff[(o, cands[0])] = missing[0][1]
                names[(o, missing[0][0])] = cands[0]
            else:
                raise CheckBroken("ANCHOR-MISSING file field(s) %s of %s (File-typed fields not in the table: %s)" % ([m[0] for m in missing], o, cands))
    facts._file_fields = eff
    facts._file_field_names = names
    return eff


def field_name(facts, owner, table_field):
    effective_fields(facts)
    return facts._file_field_names.get((owner, table_field), table_field)


REFINE = {"leaf_store": "ln", "bbn_store": "bbn", "ln_fd": "ln", "bbn_fd": "bbn", "ln_fsync": "ln", "bbn_fsync": "bbn"}

PRIMS = {
    "std::fs::File::set_len": ("resize", 0),
    "std::io::Write::write_all": ("write", 0),
    "<std::fs::File as std::io::Write>::write_all": ("write", 0),
    "<&std::fs::File as std::io::Write>::write_all": ("write", 0),
    "<std::fs::File as std::io::Write>::write": ("write", 0),
    "<&std::fs::File as std::io::Write>::write": ("write", 0),
    "std::io::Write::write": ("write", 0),
    "std::os::unix::fs::FileExt::write_all_at": ("write", 0),
    "std::os::unix::fs::FileExt::write_at": ("write", 0),
    "<std::fs::File as std::os::unix::fs::FileExt>::write_at": ("write", 0),
    "std::fs::File::sync_all": ("sync", 0),
    "std::fs::File::sync_data": ("sync", 0),
    "std::fs::remove_file": ("unlink", 0),
    "std::fs::remove_dir_all": ("unlink", 0),
    "std::fs::rename": ("unlink", 0),
    "std::fs::File::create": ("create", 0),
    "std::fs::File::create_new": ("create", 0),
    "std::fs::OpenOptions::open": ("open", 1),
    "std::fs::write": ("write", 0),
    "nomt::sys::linux::falloc_zero_file": ("resize", 0),
}
RAW_MODIFIERS = {"fallocate": "resize", "fallocate64": "resize", "posix_fallocate": "resize", "posix_fallocate64": "resize", "ftruncate": "resize", "ftruncate64": "resize", "pwrite": "write", "pwrite64": "write", "pwritev": "write", "pwritev2": "write", "write": "write", "writev": "write", "copy_file_range": "write", "sendfile": "write"}


def _const_int(body, op, depth=0):
    if op.get("k") == "const":
        v = op.get("int")
        return int(v) if v is not None else None
    if op.get("k") in ("copy", "move") and not op["pl"].get("p") and depth < 4:
        ds = body.defs().get(op["pl"]["l"], [])
        if len(ds) == 1 and ds[0][2] == "assign":
            rv = ds[0][3]["rv"]
            if rv["k"] == "use":
                return _const_int(body, rv["op"], depth + 1)
            if rv["k"] == "bin" and rv["op"] in ("BitOr", "BitAnd", "Add"):
                a, b = _const_int(body, rv["a"], depth + 1), _const_int(body, rv["b"], depth + 1)
                if a is not None and b is not None:
                    return {"BitOr": a | b, "BitAnd": a & b, "Add": a + b}[rv["op"]]
    return None


# any other std call on a File that can modify it fails closed (see unknown_file_calls)
FILE_READONLY_OK = re.compile(
    r"(::metadata|::try_clone|::as_raw_fd|::as_fd|::read_exact_at|::read_at|::read_exact|::read$|::seek|::open$|::deref|::clone|::as_ref|::borrow|::fmt|::into_raw_fd|::drop|::new|::from|::into|::read_to_end|::stream_position|::rewind|::by_ref|::take|::bytes)"
)


class Event:
    __slots__ = ("kind", "cls", "body", "bb", "idx", "site", "prim", "why", "asyncio", "refined")

    def __init__(self, kind, cls, body, bb, idx, site, prim, why, asyncio=False):
        self.kind = kind
        self.cls = cls
        self.body = body
        self.bb = bb
        self.idx = idx
        self.site = site
        self.prim = prim
        self.why = why
        self.asyncio = asyncio

    def key(self):
        return "%s(%s)@%s" % (self.kind, self.cls, self.body.id.split("::", 1)[1])

    def __repr__(self):
        return "%s(%s) in %s at %s via %s" % (self.kind, self.cls, self.body.id, self.site, self.prim)


def _literal_of_path(facts, body, op, ctx=None):
    """class of a path operand: Path::join(.., "literal") / segment filename / directory itself"""
    out = set()
    for r in xtrace(facts, body, op, depth=5) + trace(body, op):
        if r.kind in ("call", "via"):
            c = r.what
            if c.endswith("Path::join") or c.endswith("PathBuf::join") or c.endswith("::join"):
                t = r.obj
                if t and len(t["args"]) > 1:
                    for rr in roots(facts.bodies[r.body] if r.body in facts.bodies else body, t["args"][1]):
                        if rr.kind == "const":
                            m = re.search(r'"([^"]*)"', str(rr.what))
                            if m and m.group(1) in LITERAL_CLASS:
                                out.add(LITERAL_CLASS[m.group(1)])
                            elif m:
                                out.add("other:" + m.group(1))
                        elif rr.kind == "call" and "segment_filename::format" in rr.what:
                            out.add("seglog")
                        elif rr.kind == "param" and ctx is not None and (r.body or body.id) == body.id and isinstance(ctx[1], dict) and 0 <= rr.what - 1 < len(ctx[1].get("args", [])) and ctx[0] in facts.bodies:
                            # join(dir, <param>) in a helper that was entered from ONE call site: bind to that site's argument
                            for r3 in xtrace(facts, facts.bodies[ctx[0]], ctx[1]["args"][rr.what - 1], depth=4):
                                if r3.kind == "const":
                                    m = re.search(r'"([^"]*)"', str(r3.what))
                                    if m and m.group(1) in LITERAL_CLASS:
                                        out.add(LITERAL_CLASS[m.group(1)])
                        elif rr.kind in ("param", "upvar"):
                            # join(dir, <param>): resolved through callers by xtrace on that arg
                            for r3 in xtrace(facts, facts.bodies[r.body] if r.body in facts.bodies else body, t["args"][1], depth=4):
                                if r3.kind == "const":
                                    m = re.search(r'"([^"]*)"', str(r3.what))
                                    if m and m.group(1) in LITERAL_CLASS:
                                        out.add(LITERAL_CLASS[m.group(1)])
            if "segment_filename::format" in c:
                out.add("seglog")
        if r.fields and r.fields[-1] == "path" and r.owners and r.owners[-1] in ("nomt::seglog::Segment", "nomt::seglog::SegmentInfo"):
            out.add("seglog")
        if r.kind in ("param", "upvar") and r.fields and r.fields[-1] == "path" and (r.owners[-1] == "nomt::options::Options"):
            out.add("dir")
    return out


def classify_file_operand(facts, body, op, depth=6):
    """set of classes a File / &File / Arc<File> / RawFd operand may denote"""
    out = set()
    why = []
    eff = effective_fields(facts)
    for r in xtrace(facts, body, op, depth=depth):
        cls = None
        # field based
        for i in range(len(r.path) - 1, -1, -1):
            f, o = r.path[i]
            if (o, f) in eff:
                cls = eff[(o, f)]
                if cls == "lnbbn":
                    for (f2, o2) in r.path[:i]:
                        if f2 in REFINE:
                            cls = REFINE[f2]
                    if cls == "lnbbn" and r.kind == "upvar" and r.what in REFINE:
                        cls = REFINE[r.what]
                why.append("%s.%s" % (o.split("::")[-1], f))
                break
        if cls is None and r.kind in ("call",):
            c = r.what
            if c in ("std::fs::OpenOptions::open", "std::fs::File::create", "std::fs::File::open", "std::fs::File::create_new"):
                t = r.obj
                parg = t["args"][1] if c == "std::fs::OpenOptions::open" else t["args"][0]
                b2 = facts.bodies.get(r.body, body)
                lits = _literal_of_path(facts, b2, parg, ctx=r.ctx)
                for l in lits:
                    out.add(l)
                    why.append("%s(%s)" % (c.split("::")[-1], l))
                if lits:
                    continue
        if cls is None and r.kind in ("upvar", "param"):
            nm = r.what if r.kind == "upvar" else None
            if nm in REFINE and not r.path:
                cls = REFINE[nm]
                why.append("capture %s" % nm)
        if cls:
            out.add(cls)
    return out, why


def collect_events(facts):
    events = []
    unclassified = []
    for body in facts.bodies.values():
        if body.crate != "nomt":
            continue
        for b, t in body.calls():
            if body.is_cleanup(b):
                continue
            c = t.get("callee") or ""
            prim = PRIMS.get(c)
            if prim is None:
                continue
            kind, ai = prim
            if ai >= len(t["args"]):
                continue
            op = t["args"][ai]
            if kind in ("unlink",) or c in ("std::fs::File::create", "std::fs::File::create_new", "std::fs::write"):
                classes = _literal_of_path(facts, body, op)
                why = ["path"]
                if not classes and body.id.startswith("nomt::seglog::"):
                    classes = {"seglog"}
                    why = ["module nomt::seglog (segment paths)"]
            elif c == "std::fs::OpenOptions::open":
                classes = _literal_of_path(facts, body, op)
                why = ["path"]
                if not classes and body.id.startswith("nomt::seglog::"):
                    classes = {"seglog"}
                    why = ["module nomt::seglog (segment paths)"]
            else:
                classes, why = classify_file_operand(facts, body, op)
            if not classes:
                unclassified.append((body.id, c, t.get("ln")))
                classes = {"?"}
            for cls in sorted(classes):
                events.append(Event(kind, cls, body, b, len(body.stmts(b)), t.get("ln"), c, why))
        # raw system calls that modify a file through a descriptor taken from a `File` (`libc::fallocate(file.as_raw_fd(), ..)`).
        # The I/O workers (nomt::io) act on descriptors carried by commands - those writes are the IoKind events below - and
        # nomt::sys wraps primitives that are listed by name.
        if not body.id.startswith(("nomt::io::", "nomt::sys::")):
            for b, t in body.calls():
                c = t.get("callee") or ""
                if not c.startswith("libc::") or body.is_cleanup(b) or not t["args"]:
                    continue
                m = c.rsplit("::", 1)[-1]
                if m not in RAW_MODIFIERS:
                    continue
                kind = RAW_MODIFIERS[m]
                if m.startswith(("fallocate", "posix_fallocate")) and len(t["args"]) > 1:
                    mode = _const_int(body, t["args"][1])
                    # punching / zeroing / collapsing a range destroys what is stored there; a mode that cannot be evaluated is
                    # treated the same way (fail closed)
                    if mode is None or (mode & 0x3A):
                        kind = "write"
                fop = None
                for r in trace(body, t["args"][0]):
                    if r.kind in ("call", "via") and str(r.what).endswith("as_raw_fd") and r.obj is not None and r.obj.get("args"):
                        fop = r.obj["args"][0]
                classes, why = classify_file_operand(facts, body, fop) if fop is not None else (set(), [])
                if not classes:
                    unclassified.append((body.id, c, t.get("ln")))
                    classes = {"?"}
                for cls in sorted(classes):
                    events.append(Event(kind, cls, body, b, len(body.stmts(b)), t.get("ln"), c, why))
        # async page writes: IoKind::Write* aggregates
        for b in range(body.n):
            if body.is_cleanup(b):
                continue
            for i, s in enumerate(body.stmts(b)):
                if s["k"] == "assign" and s["rv"]["k"] == "agg" and s["rv"].get("name") == "nomt::io::IoKind" and s["rv"].get("variant", "").startswith("Write"):
                    op = s["rv"]["ops"][0]
                    classes, why = classify_file_operand(facts, body, op)
                    if not classes:
                        unclassified.append((body.id, "IoKind::" + s["rv"]["variant"], s.get("ln")))
                        classes = {"?"}
                    for cls in sorted(classes):
                        events.append(Event("write", cls, body, b, i, s.get("ln"), "IoKind::" + s["rv"]["variant"], why, asyncio=True))
    return events, unclassified
