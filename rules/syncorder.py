# E1 syncorder — protocol order (C03), durability (C04), write discipline (C17), log pruning (C09)
import re
from core import xtrace, roots, trace, fields_of, CheckBroken
import fileclass
import strands as strands_mod
import syncmodel

SYNC = "nomt::store::sync::Sync::sync"
META_WRITE = "nomt::store::meta::Meta::write"
LNBBN = ("ln", "bbn", "lnbbn")


def short(fn):
    return fn.split("::", 1)[1] if fn.startswith("nomt::") else fn


def chain_str(it):
    return " -> ".join("%s@%s" % (short(c[0]).split("::")[-1] if "::" in c[0] else c[0], c[1].split(":")[-1]) for c in it.chain)


def pend_str(pend):
    out = []
    for p in sorted(pend, key=str):
        if p[0] == "task":
            out.append("task spawned on channel %s not joined" % sorted(p[1]))
        elif p[0] == "fsync":
            out.append("fsync request on %s.%s not waited" % (p[1].split("::")[-1], p[2]))
        elif p[0] == "io":
            out.append("async page write %s not drained (result-checked recv loop)" % p[1].split("@")[-1])
        elif p[0] == "unchecked":
            out.append("result of %s unchecked in %s" % (short(p[2]), short(p[1])))
        elif p[0] == "detached":
            out.append("closure %s handed to a pool without completion handle" % short(p[1]))
        else:
            out.append(str(p))
    return "; ".join(out)


class Ctx:
    def __init__(self, facts):
        self.facts = facts
        self.st = strands_mod.Strands(facts)
        self.events, self.unclassified = fileclass.collect_events(facts)
        self.model = syncmodel.SyncModel(facts, self.st, self.events)
        self.R = facts.body(SYNC)
        bs = [b for b, t in self.R.calls() if t.get("callee") == META_WRITE]
        if not bs:
            # the switch-over may sit in a helper of Sync::sync: the barrier is the call through which
            # Meta::write is reached synchronously
            for ed in self.model.edges(self.R):
                if ed.kind in ("sync", "closure") and ed.target and META_WRITE in reach_sync(self, ed.target):
                    bs.append(ed.bb)
        if len(bs) != 1:
            raise CheckBroken("ANCHOR-MISSING: Sync::sync must reach Meta::write through exactly one call site (found %d)" % len(bs))
        self.B = bs[0]


def reach_sync(ctx, fn, depth=0, seen=None):
    seen = seen if seen is not None else set()
    if fn in seen or depth > 3 or fn not in ctx.facts.bodies:
        return seen
    seen.add(fn)
    for ed in ctx.model.edges(ctx.facts.bodies[fn]):
        if ed.kind in ("sync", "closure") and ed.target:
            reach_sync(ctx, ed.target, depth + 1, seen)
    return seen


def event_class_in(e, classes):
    return e.cls in classes


def dedup(items):
    seen = {}
    for it in items:
        k = (it.event.kind, it.event.cls, it.event.body.id, it.event.site, it.pend)
        if k not in seen:
            seen[k] = it
    return list(seen.values())


def norm_items(items):
    """drop the generic `lnbbn` twin of an event when a refined (ln / bbn) classification of the
    same site exists in the same item list"""
    refined = {(it.event.body.id, it.event.site) for it in items if it.event.cls in ("ln", "bbn")}
    return [it for it in items if not (it.event.cls == "lnbbn" and (it.event.body.id, it.event.site) in refined)]


# ---- generic: "every write/resize(F) that may precede point q is complete and covered by a
#      completed, result-checked sync(F) that starts after the write completed" -----------------


def lca(w, s):
    """first index at which the chains diverge"""
    k = 0
    while k < len(w.chain) and k < len(s.chain) and w.chain[k][0] == s.chain[k][0] and w.chain[k][2] == s.chain[k][2]:
        k += 1
    return k


def sync_is_must_below(ctx, s, k):
    """below the LCA level the chain of the sync event must be unconditional: each next site is passed
    on every success path from the entry of its function to its Ok return"""
    m = ctx.model
    for i in range(k + 1, len(s.chain)):
        fn, ln, bb = s.chain[i]
        body = ctx.facts.bodies[fn]
        g, why = m.gate(body, bb, None)
        if g is None or not must_pass_flags(m, body, None, g, "ret"):
            return False, "%s at %s is conditional inside %s" % (s.event.key(), ln, short(fn))
    return True, ""


def result_variant_pruning(ctx, A, cw, below):
    """the event lies in a helper H called at block cw of A, and H tells its caller what it did through a fieldless enum in
    its result (`Ok(HeadRollover::Created)`): arms of A's `match` on that value for variants H cannot return once the event
    has happened are not executable on paths that start at the event.  Returns the arm blocks to ignore."""
    facts = ctx.facts
    (hid, _site, hbb) = below
    H = facts.bodies.get(hid)
    if H is None or A.term(cw)["k"] != "call" or (A.term(cw).get("callee") or "") != hid:
        return set()
    # return sites of H with a constant unit variant as (payload of) the value
    sites = {}
    for b in range(H.n):
        if H.is_cleanup(b):
            continue
        for st in H.stmts(b):
            if st["k"] == "assign" and st["pl"]["l"] == 0 and not st["pl"].get("p"):
                ops = [st["rv"]["op"]] if st["rv"]["k"] == "use" else (st["rv"].get("ops", []) if st["rv"]["k"] == "agg" else [])
                if st["rv"]["k"] == "agg" and not ops and st["rv"].get("ak") == "adt":
                    sites.setdefault(b, set()).add((st["rv"].get("name"), st["rv"].get("variant")))
                for o in ops:
                    for r in trace(H, o):
                        if r.kind == "agg" and r.obj is not None and r.obj.get("ak") == "adt" and not r.obj.get("ops") and not r.fields:
                            sites.setdefault(b, set()).add((r.obj.get("name"), r.obj.get("variant")))
    if not sites:
        return set()
    enums = {n_ for vs in sites.values() for (n_, _v) in vs}
    if len(enums) != 1:
        return set()
    enum = enums.pop()
    adt = facts.adts.get(enum)
    if adt is None or any(v.get("fields") for v in adt.get("variants", [])):
        return set()
    names = [v["name"] for v in adt["variants"]]
    after = H.reachable(H.succ(hbb), set(H.ok_removed()))
    possible = {v for b, vs in sites.items() if b in after or b == hbb for (_n, v) in vs}
    impossible = [names.index(v) for v in names if v not in possible]
    if not impossible:
        return set()
    out = set()
    preds = A.preds()
    for sb in range(A.n):
        t = A.term(sb)
        if t["k"] != "switch" or A.is_cleanup(sb):
            continue
        hit = False
        for st in A.stmts(sb):
            if st["k"] == "assign" and st["rv"]["k"] == "discr" and A.place_ty(st["rv"]["pl"]) == enum and t["d"].get("pl", {}).get("l") == st["pl"]["l"]:
                if any(r.kind in ("call", "via") and r.bb == cw for r in trace(A, st["rv"]["pl"], deep=True)) or any(r.kind == "call" and r.bb == cw for r in xtrace(facts, A, st["rv"]["pl"], depth=1)):
                    hit = True
        if not hit:
            continue
        listed = {int(v): tb for (v, tb) in t["vals"] if str(v).isdigit()}
        for iv in impossible:
            tb = listed.get(iv)
            if tb is None:
                # falls under `else`: only removable when every variant going there is impossible
                others = [i for i in range(len(names)) if i not in listed]
                if all(i in impossible for i in others):
                    tb = t["else"]
            if tb is not None and preds[tb] == [sb]:
                out.add(tb)
    return out


def must_pass_flags(m, body, c, gate, P, stmt_event=False, extra_removed=frozenset()):
    rem = set(body.ok_removed()) | set(extra_removed)
    targets = set(body.return_blocks()) if P == "ret" else {P}
    if c is None:
        starts = [0]
    elif stmt_event:
        starts = [c]
    else:
        starts = body.succ(c)
    if not (body.reachable(starts, rem) & targets):
        return True
    if stmt_event and gate == c:
        return True
    reach = body.reachable_flags([s for s in starts if s != gate], rem | {gate})
    return not (reach & targets)


def covered_by_sync(ctx, root, q, w, syncs):
    """w: write item (complete at q).  Is there a sync item s (complete at q, result checked) such that
    w is complete when s starts and s lies on every success path from w to q ?  returns (ok, why)"""
    m = ctx.model
    why = "no sync(%s) event is complete at the barrier" % w.event.cls
    for s in syncs:
        if s.pend:
            why = "sync %s is itself not complete at the barrier: %s" % (s.event.key(), pend_str(s.pend))
            continue
        k = lca(w, s)
        if k >= len(w.chain) or k >= len(s.chain):
            continue
        fn = w.chain[k][0]
        if s.chain[k][0] != fn:
            continue
        A = ctx.facts.bodies[fn]
        cw, cs = w.chain[k][2], s.chain[k][2]
        P_A = q if (k == 0) else "ret"
        w_stmt = (k == len(w.chain) - 1) and w.event.asyncio
        # (1) w complete when s starts: no pendings of w at point cs, looking only at site cw
        its = [i for i in m.items_at(A, cs, only_sites={cw}) if i.event.site == w.event.site and i.event.body.id == w.event.body.id]
        if not its:
            why = "%s does not precede %s in %s" % (w.event.key(), s.event.key(), short(fn))
            continue
        bad = [i for i in its if i.pend]
        if bad:
            why = "%s is not complete when %s starts in %s: %s" % (w.event.key(), s.event.key(), short(fn), pend_str(bad[0].pend))
            continue
        # (2) s lies on every success path from w to the barrier, at this level and below
        g, gw = m.gate(A, cs, cw)
        extra = result_variant_pruning(ctx, A, cw, w.chain[k + 1]) if k + 1 < len(w.chain) else set()
        if g is None or not must_pass_flags(m, A, cw, g, P_A, stmt_event=w_stmt, extra_removed=extra):
            why = "a success path from %s to the barrier avoids %s in %s" % (w.event.key(), s.event.key(), short(fn))
            continue
        ok, wy = sync_is_must_below(ctx, s, k)
        if not ok:
            why = wy
            continue
        # (3) the sync's own result is checked
        sb = s.event.body
        if s.event.prim.startswith("Fsyncer"):
            pass  # checked at the wait site (ok_implied in dischargers)
        elif not m.ok_implied(sb, s.event.bb):
            why = "result of %s at %s is not checked" % (s.event.key(), s.event.site)
            continue
        return True, "%s complete before %s starts in %s; %s on every success path to the barrier" % (w.event.key(), s.event.key(), short(fn), s.event.key())
    return False, why


def durable_before(ctx, rep, rule, root, q, classes, label, prop_note=""):
    m = ctx.model
    items = norm_items(dedup(m.items_at(root, q)))
    W = [i for i in items if i.event.kind in ("write", "resize") and i.event.cls in classes]
    S = [i for i in items if i.event.kind == "sync" and i.event.cls in classes]
    n = 0
    for w in W:
        n += 1
        inst = "%s|%s" % (label, w.event.key())
        if w.pend:
            rep.violation(rule, short(root.id), inst + "|complete", "%s (at %s) may still be in flight at %s: %s [path: %s]" % (w.event.key(), w.event.site, label, pend_str(w.pend), chain_str(w)), site=w.event.site)
            continue
        same = [s for s in S if s.event.cls == w.event.cls or "lnbbn" in (s.event.cls, w.event.cls)]
        ok, why = covered_by_sync(ctx, root, q, w, same)
        rep.check(
            ok, rule, short(root.id), inst + "|synced",
            "%s (at %s) is not made durable before %s: %s [path: %s]" % (w.event.key(), w.event.site, label, why, chain_str(w)),
            site=w.event.site,
            detail="%s: %s [path: %s]" % (label, why, chain_str(w)),
        )
    return n, len(S)


# ---- O1 / O2: pre-meta writes complete and durable before Meta::write --------------------------


def o1_o2(ctx, rep, which):
    m = ctx.model
    R, B = ctx.R, ctx.B
    items = norm_items(dedup(m.items_at(R, B)))
    pre = [i for i in items if i.event.kind in ("write", "resize") and i.event.cls in ("wal",) + LNBBN]
    n = 0
    if which == "O1":
        for it in pre:
            n += 1
            rep.check(
                not it.pend, "O1", "store::sync::Sync::sync", "pre-meta|%s" % it.event.key(),
                "%s (at %s) is not guaranteed complete when Meta::write starts: %s [path: %s]" % (it.event.key(), it.event.site, pend_str(it.pend), chain_str(it)),
                site=it.event.site,
                detail="complete before Meta::write: %s" % chain_str(it),
            )
        return n
    # O2
    nw, ns = durable_before(ctx, rep, "O2", R, B, ("wal",) + LNBBN, "Meta::write")
    for cls in ("wal", "ln", "bbn"):
        S = [i for i in items if i.event.kind == "sync" and i.event.cls == cls and not i.pend]
        rep.check(
            bool(S), "O2", "store::sync::Sync::sync", "sync(%s)|complete-before-meta" % cls,
            "no completed, waited-for fsync of the %s file precedes Meta::write" % cls,
            detail="sync(%s) complete before Meta::write: %s" % (cls, [chain_str(s) for s in S][:2]),
        )
    return nw


# ---- O3: post-meta effects cannot start before Meta::write completed ---------------------------

POST_ONLY_FUNCS = ("nomt::bitbox::writeout::truncate_wal",)


def o3(ctx, rep):
    m = ctx.model
    R, B = ctx.R, ctx.B
    rem = R.ok_removed()
    n = 0
    items = norm_items(dedup(m.items_at(R, "ret") + m.items_at(R, B)))
    # functions that write the WAL themselves: a truncation of the WAL reached through one of them is the first step of
    # REWRITING the WAL before the switch-over (`write_wal` calling `truncate_wal`), not the discarding of a completed sync's WAL
    wal_writers = {ev.body.id for ev in ctx.events if ev.cls == "wal" and ev.kind == "write"}
    for it in items:
        e = it.event
        if e.cls == "wal" and e.body.id in POST_ONLY_FUNCS and any(c[0] in wal_writers and c[0] != e.body.id for c in it.chain):
            continue
        post = (
            (e.cls == "ht" and e.kind in ("write", "resize"))
            or (e.cls == "seglog" and e.kind in ("unlink", "resize", "open", "write"))
            or (e.body.id in POST_ONLY_FUNCS)
            or (e.cls == "meta" and e.body.id != META_WRITE and not any(c[0] == META_WRITE for c in it.chain))
        )
        if not post:
            continue
        n += 1
        c0 = it.chain[0][2]
        ok = c0 != B and R.dominates(B, c0, removed=rem)
        rep.check(
            ok, "O3", "store::sync::Sync::sync", "post-meta|%s" % e.key(),
            "%s (at %s) can start before the meta page is durable: its entry site in Sync::sync (%s) is not dominated by the success edge of Meta::write [path: %s]" % (e.key(), e.site, it.chain[0][1], chain_str(it)),
            site=e.site,
            detail="starts only after Meta::write: %s" % chain_str(it),
        )
    # marker call: Tree::finish_sync (index swap) only post-meta
    targets = ("nomt::beatree::Tree::finish_sync",)
    for ed in m.edges(R):
        reach = reach_edges(ctx, ed)
        for t in targets:
            if t in reach:
                n += 1
                ok = ed.bb != B and R.dominates(B, ed.bb, removed=rem)
                rep.check(
                    ok, "O3", "store::sync::Sync::sync", "post-meta|call %s" % short(t),
                    "%s is reachable from %s, which is not dominated by the success edge of Meta::write" % (short(t), ed.ln),
                    site=ed.ln,
                    detail="%s reached only via %s (post-meta)" % (short(t), ed.ln),
                )
    return n


def reach_edges(ctx, ed):
    m = ctx.model
    seen = set()
    st = [ed.target] if ed.target else []
    while st:
        x = st.pop()
        if x in seen or x not in ctx.facts.bodies:
            continue
        seen.add(x)
        for e2 in m.edges(ctx.facts.bodies[x]):
            if e2.target and e2.target not in seen:
                st.append(e2.target)
    return seen


# ---- O4: Meta::write is one write at offset 0 followed by a checked sync ------------------------


def o4(ctx, rep):
    body = ctx.facts.body(META_WRITE)
    m = ctx.model
    fn = "store::meta::Meta::write"
    items = dedup(m.items_at(body, "ret"))
    W = [i for i in items if i.event.kind == "write"]
    S = [i for i in items if i.event.kind == "sync" and not i.pend]
    sites = {(i.event.body.id, i.event.site) for i in W}
    rep.check(len(sites) == 1, "O4", fn, "single-write", "Meta::write performs %d write sites (the switch-over must be one page write)" % len(sites), site=body.span, detail="one write_all_at")
    for w in W[:1]:
        e = w.event
        t = e.body.term(e.bb)
        off = t["args"][2] if len(t["args"]) > 2 else None
        rep.check(off is not None and off["k"] == "const" and off.get("int") == "0", "O4", fn, "offset-0", "the meta page is not written at constant offset 0", site=e.site, detail="write_all_at(page, 0)")
        rep.check(m.ok_implied(e.body, e.bb), "O4", fn, "write-checked", "the result of the meta page write is not checked", site=e.site, detail="`?`")
        ok, why = covered_by_sync(ctx, body, "ret", w, S)
        rep.check(ok, "O4", fn, "write-then-sync", "the meta page write is not followed by a result-checked fsync on every success path: %s" % why, site=e.site, detail=why)
        # nothing is written to the meta file after its fsync
        for s_ in S:
            k = lca(w, s_)
            if k < len(w.chain) and k < len(s_.chain) and w.chain[k][0] == s_.chain[k][0]:
                A = ctx.facts.bodies[w.chain[k][0]]
                later = w.chain[k][2] in A.reachable(A.succ(s_.chain[k][2]), A.ok_removed())
                rep.check(not later, "O4", fn, "no-write-after-sync", "a write to the meta file can follow its fsync", site=s_.event.site, detail="nothing after the fsync")
    callers = {c[0] for c in ctx.facts.callers().get(META_WRITE, [])}
    okp = ("nomt::store::sync::", "nomt::store::create", "nomt::store::meta::")
    bad = sorted(c for c in callers if not c.startswith(okp))
    reaches = META_WRITE in reach_sync(ctx, SYNC)
    rep.check(not bad and reaches, "O4", fn, "callers", "Meta::write is called from %s (only the sync coordinator in store::sync and store::create may switch the meta page over)" % bad, detail="callers = %s" % sorted(callers))
    return 6


# ---- O5 / O6: hash-table pages durable before the WAL is truncated ------------------------------


def o5_o6(ctx, rep):
    n = 0
    for fn, rule in (("nomt::bitbox::SyncController::post_meta", "O5"), ("nomt::bitbox::recover", "O6")):
        body = ctx.facts.body(fn)
        qs = [b for b, t in body.calls() if t.get("callee") == "nomt::bitbox::writeout::truncate_wal"]
        if not qs:
            n += 1  # counted, so that the floor does not turn a removed truncation into a broken check
            rep.notes.append("%s: %s no longer truncates the WAL; whether the next WAL blob is still written into an empty file is decided by O17" % (rule, short(fn)))
            continue
        for q in qs:
            n += 1
            nw, ns = durable_before(ctx, rep, rule, body, q, ("ht",), "truncate_wal@%s" % body.term(q).get("ln", "").split(":")[-1])
            # no hash-table write may start after the WAL was truncated (it would not be redoable)
            after = body.reachable(body.succ(q), body.ok_removed())
            for it in norm_items(dedup(ctx.model.items_at(body, "ret"))):
                if it.event.kind in ("write", "resize") and it.event.cls == "ht" and it.chain[0][2] in after:
                    rep.violation(rule, short(fn), "truncate_wal|then|%s" % it.event.key(), "%s (at %s) can start after the WAL was truncated at %s: the page would not be redoable after a crash [path: %s]" % (it.event.key(), it.event.site, body.term(q).get("ln"), chain_str(it)), site=it.event.site)
    return n


# ---- O7: WAL redo is gated by sequence-number equality -------------------------------------------


def o7(ctx, rep):
    body = ctx.facts.body("nomt::bitbox::recover")
    fn = "bitbox::recover"
    # the comparison: one side from WalBlobReader::sync_seqn(), the other from the sync_seqn parameter
    gates = []
    seq_params = set()
    for b in range(body.n):
        for i, s in enumerate(body.stmts(b)):
            if s["k"] == "assign" and s["rv"]["k"] == "bin" and s["rv"]["op"] in ("Eq", "Ne"):
                la = trace(body, s["rv"]["a"])
                lb = trace(body, s["rv"]["b"])

                def is_wal(rs):
                    return any(r.kind == "call" and r.what.endswith("WalBlobReader::sync_seqn") for r in rs)

                def is_param(rs):
                    # the sequence number handed in by the opener: a `u32` parameter (its position changes when the redo
                    # becomes a method)
                    hits = [r.what for r in rs if r.kind == "param" and not r.fields and body.local_ty(r.what) == "u32"]
                    if hits:
                        seq_params.add(hits[0])
                    return bool(hits)

                if (is_wal(la) and is_param(lb)) or (is_wal(lb) and is_param(la)):
                    import guardfx

                    for sw in guardfx.switches_on_stmt(body, b, i):
                        gates.append((sw, s.get("ln"), s["rv"]["op"]))
    if not rep.check(len(gates) == 1, "O7", fn, "seqn-gate", "recover has %d branches comparing the WAL's sync_seqn with the meta sync_seqn (expected exactly 1): redo is no longer gated" % len(gates), site=body.span, detail="gate at %s" % [g[1] for g in gates]):
        return 1
    sw, ln, op = gates[0]
    t = body.term(sw)
    # which edge is "equal"?  Eq: value 1 -> equal ; Ne: value 0 -> equal
    eq_val = "1" if op == "Eq" else "0"
    eq_edge = None
    ne_edge = None
    for v, tb in t["vals"]:
        if v == eq_val:
            eq_edge = tb
        else:
            ne_edge = tb
    if eq_edge is None:
        eq_edge = t["else"]
    if ne_edge is None:
        ne_edge = t["else"]
    region = owned_region(ctx.facts, body.id)
    redo_sites = []  # (block IN recover through which the site is reached, what, site)
    for rb in [body] + [ctx.facts.bodies[x] for x in sorted(region)]:
        local = []
        for b, tt in rb.calls():
            c = tt.get("callee") or ""
            if c.endswith("WalBlobReader::read_entry") or c.endswith("MetaMap::set_full") or c.endswith("MetaMap::set_tombstone"):
                local.append((b, c, tt.get("ln")))
        for e in ctx.model.ev_by_body.get(rb.id, []):
            if e.kind == "write" and e.cls == "ht":
                local.append((e.bb, "write(ht)", e.site))
        for (b, c, site) in local:
            if rb.id == body.id:
                redo_sites.append((b, c, site))
            else:
                ebs = entry_blocks(ctx.facts, body, rb.id.split("::{closure")[0], region)
                if not ebs:
                    redo_sites.append((None, c, site))
                for eb in ebs:
                    redo_sites.append((eb, c + " via " + short(rb.id), site))
    reach_ne = body.reachable([ne_edge])
    n = 1
    for (b, c, site) in redo_sites:
        n += 1
        ok = b is not None and body.dominates(sw, b) and b not in reach_ne and b in body.reachable([eq_edge])
        rep.check(ok, "O7", fn, "redo|%s" % short(c), "%s at %s is not confined to the branch on which the WAL's sequence number equals the meta page's: a stale WAL could be re-applied" % (short(c), site), site=site, detail="%s at %s only on the `==` edge of the gate at %s" % (short(c), site, ln))
    rep.floor("O7 redo sites", len(redo_sites), 3)
    # the not-equal edge discards: reaches truncate_wal and returns without redo
    trunc = [b for b, tt in body.calls() if tt.get("callee") == "nomt::bitbox::writeout::truncate_wal" and b in reach_ne and not body.dominates(eq_edge, b)]
    rep.check(bool(trunc), "O7", fn, "stale-discard", "the stale-WAL branch does not truncate the WAL", site=ln, detail="`!=` edge -> truncate_wal -> return")
    # provenance of the parameter: Meta.sync_seqn read in Store::open
    prov = False
    for r in [x for sp in (sorted(seq_params) or [1]) for x in xtrace(ctx.facts, body, {"l": sp}, depth=4)]:
        if r.fields and r.fields[-1] == "sync_seqn" and "meta::Meta" in "".join(r.owners[-1:]):
            prov = True
        if r.kind == "call" and r.what.endswith("Meta::read") and "sync_seqn" in r.fields:
            prov = True
    rep.check(prov, "O7", fn, "seqn-provenance", "the sync_seqn handed to recover does not derive from the meta page read at open", site=body.span, detail="recover(sync_seqn) <- DB::open <- Store::open: Meta::read(..).sync_seqn")
    return n + 2


# ---- O8: the WAL is tagged with the value put in the meta page; counter advanced after the swap --


def o8(ctx, rep):
    R, B = ctx.R, ctx.B
    fn = "store::sync::Sync::sync"
    begin = [(b, t) for b, t in R.calls() if t.get("callee") == "nomt::bitbox::SyncController::begin_sync"]
    if not begin:
        rep.violation("O8", fn, "bitbox.begin_sync|missing", "Sync::sync no longer calls bitbox begin_sync", site=R.span)
        return 1
    (bb, t) = begin[0]

    def in_R(rs):
        return {(r.kind, r.bb, str(r.what)) for r in rs if r.body == R.id and r.kind in ("binop", "param", "call", "const") and not (r.kind == "call" and str(r.what) in ctx.facts.bodies)}

    a = in_R(xtrace(ctx.facts, R, t["args"][1]))
    # every construction of a Meta whose sync_seqn field is computed in Sync::sync (directly, or in a helper it calls)
    meta_val = None
    for body in ctx.facts.bodies.values():
        if body.crate != "nomt" or "::tests::" in body.id:
            continue
        for b in range(body.n):
            for s in body.stmts(b):
                if s["k"] == "assign" and s["rv"]["k"] == "agg" and s["rv"].get("name") == "nomt::store::meta::Meta":
                    fl = s["rv"]["fields"]
                    rs = xtrace(ctx.facts, body, s["rv"]["ops"][fl.index("sync_seqn")])
                    if body.id != R.id and not any(r.body == R.id for r in rs):
                        continue
                    v = in_R(rs)
                    meta_val = v if meta_val is None else (meta_val | v)
    ok = meta_val is not None and a == meta_val and any(k == "binop" for (k, _b, _w) in a)
    rep.check(ok, "O8", fn, "same-seqn", "the sequence number written into the WAL (%s) and the one put into the meta page (%s) are not the same value" % (sorted(a), sorted(meta_val or [])), site=t.get("ln"), detail="both are the value `self.sync_seqn + 1` computed at one site")
    # self.sync_seqn stores only after Meta::write succeeded
    rem = R.ok_removed()
    n = 1
    region = owned_region(ctx.facts, R.id)
    for body in [R] + [ctx.facts.bodies[x] for x in sorted(region) if ctx.facts.bodies[x].kind != "Closure"]:
        for b in range(body.n):
            if body.is_cleanup(b):
                continue
            for s in body.stmts(b):
                if s["k"] == "assign" and fields_of(s["pl"]) == ("sync_seqn",) and s["pl"].get("o", [""])[-1] == "nomt::store::sync::Sync":
                    n += 1
                    if body.id == R.id:
                        ok = b != B and R.dominates(B, b, removed=rem)
                    else:
                        # a private phase of Sync::sync (`write_meta`): behind Meta::write inside the phase, or the whole
                        # phase behind it in Sync::sync
                        inner = [x for x, t_ in body.calls() if t_.get("callee") == META_WRITE]
                        if inner:
                            ok = any(x != b and body.dominates(x, b, removed=body.ok_removed()) for x in inner)
                        else:
                            ebs = entry_blocks(ctx.facts, R, body.id, region)
                            ok = bool(ebs) and all(eb != B and R.dominates(B, eb, removed=rem) for eb in ebs)
                    rep.check(ok, "O8", fn, "seqn-advance-after-meta", "self.sync_seqn is advanced at %s, not after the meta page was written" % s.get("ln"), site=s.get("ln"), detail="store to self.sync_seqn at %s dominated by Meta::write's success edge" % s.get("ln"))
    rep.floor("O8 sync_seqn stores", n - 1, 1)
    return n


# ---- O9-O11: rollback-log append, pruning, store creation ---------------------------------------


def o9(ctx, rep):
    """Rollback::commit[_nonblocking] returns Ok only after the record is written and fsynced, and a
    newly created segment file is followed by a directory fsync."""
    m = ctx.model
    n = 0
    for fn in ("nomt::rollback::Rollback::commit", "nomt::rollback::Rollback::commit_nonblocking"):
        body = ctx.facts.body(fn)
        nw, ns = durable_before(ctx, rep, "O9", body, "ret", ("seglog",), "Ok-return")
        n += nw
        rep.floor("O9 seglog writes in %s" % short(fn), nw, 2)
        # create => dir sync
        items = dedup(m.items_at(body, "ret"))
        creates = [i for i in items if i.event.kind in ("open", "create") and i.event.cls == "seglog"]
        dirs = [i for i in items if i.event.kind == "sync" and i.event.cls == "dir" and not i.pend]
        for c in creates:
            n += 1
            ok, why = covered_by_sync(ctx, body, "ret", c, dirs)
            rep.check(ok, "O9", short(fn), "create(seglog)=>sync(dir)", "a segment file created at %s is not followed by a directory fsync before Ok: %s" % (c.event.site, why), site=c.event.site, detail="create_segment -> root_dir_fd.sync_all (one-bit path sensitivity on the `root_dir_fsync` flag): %s" % why)
        rep.floor("O9 create sites in %s" % short(fn), len(creates), 1)
    return n


def o10(ctx, rep):
    """prune_recent: unlink newer segments -> dir sync -> head segment truncated (set_len) -> sync"""
    m = ctx.model
    n = 0
    body = ctx.facts.body("nomt::seglog::truncate_head_segment")
    nw, ns = durable_before(ctx, rep, "O10", body, "ret", ("seglog",), "Ok-return")
    n += nw
    rep.floor("O10 truncate_head_segment resize", nw, 1)
    pr = ctx.facts.body("nomt::seglog::SegmentedLog::prune_recent")
    qs = [b for b, t in pr.calls() if t.get("callee") == "nomt::seglog::truncate_head_segment"]
    for q in qs:
        items = dedup(m.items_at(pr, q))
        unl = [i for i in items if i.event.kind == "unlink" and i.event.body.id == pr.id]
        dirs = [i for i in items if i.event.kind == "sync" and i.event.cls == "dir" and not i.pend]
        for u in unl:
            n += 1
            ok, why = covered_by_sync(ctx, pr, q, u, dirs)
            rep.check(ok, "O10", short(pr.id), "unlink=>sync(dir)=>truncate", "segments unlinked at %s are not followed by a directory fsync before the head segment is truncated: %s" % (u.event.site, why), site=u.event.site, detail=why)
        rep.floor("O10 unlink sites before truncate_head_segment", len(unl), 1)
    return n


def o11(ctx, rep):
    """store::create: every created file is synced and the directory fsync follows all creations"""
    m = ctx.model
    body = ctx.facts.body("nomt::store::create")
    items = norm_items(dedup(m.items_at(body, "ret")))
    creates = [i for i in items if i.event.kind in ("create", "open") and i.event.cls in ("meta", "ln", "bbn", "ht", "wal")]
    n = 0
    dirs = [i for i in items if i.event.kind == "sync" and i.event.cls == "dir" and not i.pend]
    for c in creates:
        n += 1
        ok, why = covered_by_sync(ctx, body, "ret", c, dirs)
        rep.check(ok, "O11", "store::create", "create(%s)=>sync(dir)" % c.event.cls, "the %s file created at %s is not followed by a directory fsync before create returns Ok: %s" % (c.event.cls, c.event.site, why), site=c.event.site, detail=why)
    rep.floor("O11 created files", len({c.event.cls for c in creates}), 3)
    # every written file class synced before Ok
    nw, ns = durable_before(ctx, rep, "O11", body, "ret", ("meta", "ln", "bbn", "ht", "wal"), "Ok-return")
    return n + nw


# ---- W rules (C17): write discipline -----------------------------------------------------------

# who may perform a mutating primitive on which file class.  Entries are MODULE (or function) path prefixes,
# so that renaming or splitting a writer inside its module is not an alarm, while a writer that appears in
# another layer is.  (When and in which order the writers run is the business of the O-rules.)
# cls -> [(path prefix, allowed kinds or None = all, reason)]
ALLOWED = {
    "wal": [
        ("nomt::bitbox::writeout::", None, "WAL writeout (pre-meta) and WAL collapse (post-meta / recovery)"),
        ("nomt::bitbox::ht_file::", None, "creation of an empty store"),
    ],
    "ht": [
        ("nomt::bitbox::writeout::", None, "post-meta writeout of the buffered hash-table pages"),
        ("nomt::bitbox::recover", None, "redo of the WAL at open (gated by O7)"),
        ("nomt::bitbox::ht_file::", None, "creation / sizing of an empty store"),
    ],
    "meta": [
        ("nomt::store::meta::", None, "the single atomic switch-over write"),
        ("nomt::store::create", None, "creation of an empty store"),
    ],
    "lnbbn": [
        ("nomt::beatree::ops::update::", None, "new leaves / branch nodes to freshly allocated pages (W2)"),
        ("<nomt::beatree::ops::update::", None, "new leaves / branch nodes to freshly allocated pages (W2)"),
        ("nomt::beatree::ops::overflow::", None, "overflow pages to freshly allocated pages (W2)"),
        ("nomt::beatree::writeout::", None, "copy-on-write free-list pages produced by SyncFinisher::finish"),
        ("nomt::beatree::allocator::", ("resize",), "file extension (never shortens)"),
        ("nomt::beatree::create", None, "creation of an empty store"),
    ],
    "seglog": [
        ("nomt::seglog::", None, "the segmented log owns its segment files (append, prune, recovery)"),
    ],
    "lock": [("nomt::store::flock::", ("open", "create"), "creates the .lock file; it is never written, truncated or unlinked")],
    "dir": [("nomt::store::create", None, "create_dir_all")],
}
for _k in ("ln", "bbn"):
    ALLOWED[_k] = ALLOWED["lnbbn"]


def owned_region(facts, entry):
    """functions of the entry's module that are reachable only through `entry` (its private phases / helpers), closures
    included: a function is owned when every caller is the entry or an owned function"""
    cache = getattr(facts, "_owned", None)
    if cache is None:
        cache = facts._owned = {}
    if entry in cache:
        return cache[entry]
    # the module of the entry: for a method `m::Type::f` (or `m::Type<T>::f`) that is `m::`, not the type
    segs = re.sub(r"<[^<>]*>", "", entry).split("::")[:-1]
    while segs and segs[-1][:1].isupper():
        segs.pop()
    mod = "::".join(segs) + "::"
    # functions the reviewed tree already had keep the scope they were reviewed under (`<entry's path>::*`); what a
    # refactoring ADDS to the module (a `SyncBatch` with phases of `DB::prepare_sync`) is taken in by the wider, module rule
    old_mod = entry.rsplit("::", 1)[0] + "::"
    import inline

    known = inline.load_known() or set()
    owned = set()
    changed = True
    while changed:
        changed = False
        for body in facts.bodies.values():
            fid = body.id
            if fid in owned or fid == entry or not fid.startswith(mod):
                continue
            if not fid.startswith(old_mod) and re.sub(r"::\{closure.*$", "", fid) in known:
                continue
            if body.kind == "Closure":
                par = body.parent
                if par == entry or par in owned:
                    owned.add(fid)
                    changed = True
                continue
            callers = [c[0] for c in facts.callers().get(fid, []) if c[2] in ("call", "candidate")]
            if callers and all(c == entry or c in owned for c in callers):
                owned.add(fid)
                changed = True
    cache[entry] = owned
    return owned


def entry_blocks(facts, entry_body, target_fn, region):
    """blocks of the entry function whose call leads (through owned functions only) to target_fn"""
    out = []
    for b, t in entry_body.calls():
        c = t.get("callee") or ""
        seen, st = set(), [c]
        while st:
            cur = st.pop()
            if cur in seen:
                continue
            seen.add(cur)
            if cur == target_fn or cur.split("::{closure")[0] == target_fn:
                out.append(b)
                break
            if cur in region and cur in facts.bodies:
                for (_b, cc, _t, _k) in facts.callees(facts.bodies[cur]):
                    st.append(cc)
    return out


def w1_allowed(cls, fn, kind, facts=None):
    root = fn.split("::{closure")[0]
    for (prefix, kinds, reason) in ALLOWED.get(cls, []):
        if kinds is not None and kind not in kinds:
            continue
        if root.startswith(prefix):
            return reason
        # a private phase / helper of an allowed function (reachable only through it)
        if facts is not None and prefix in facts.bodies and root in owned_region(facts, prefix):
            return reason + " (private helper of %s)" % prefix.split("::", 1)[1]
    return None


OO_BUILDERS = ("read", "write", "append", "truncate", "create", "create_new", "custom_flags", "mode")


def open_options_flags(body, open_bb):
    """{flag: const value} set on the OpenOptions value used by the `open` call at open_bb"""
    t = body.term(open_bb)
    extra = tuple("std::fs::OpenOptions::%s" % m for m in OO_BUILDERS) + tuple("std::os::unix::fs::OpenOptionsExt::%s" % m for m in OO_BUILDERS) + ("<std::fs::OpenOptions as std::os::unix::fs::OpenOptionsExt>::custom_flags",)
    news = set()
    flags = {}
    for r in trace(body, t["args"][0], extra_transparent=extra):
        if r.kind == "call" and r.what == "std::fs::OpenOptions::new":
            news.add(r.bb)
        if r.kind == "via" and r.what.startswith("std::fs::OpenOptions::") and r.obj and len(r.obj["args"]) > 1:
            a = r.obj["args"][1]
            flags[r.what.rsplit("::", 1)[1]] = a.get("int") if a["k"] == "const" else "?"
    # builder calls in separate statements on the same OpenOptions value
    for b, tt in body.calls():
        c = tt.get("callee") or ""
        if c.startswith("std::fs::OpenOptions::") and c.rsplit("::", 1)[1] in OO_BUILDERS and tt["args"]:
            for r in trace(body, tt["args"][0], extra_transparent=extra):
                if r.kind == "call" and r.what == "std::fs::OpenOptions::new" and r.bb in news:
                    a = tt["args"][1] if len(tt["args"]) > 1 else None
                    if a is not None:
                        flags[c.rsplit("::", 1)[1]] = a.get("int") if a["k"] == "const" else "?"
    return flags


def w1(ctx, rep):
    n = 0
    for e in ctx.events:
        if e.kind in ("sync",):
            continue
        if e.kind == "open":
            fl = open_options_flags(e.body, e.bb)
            mutating = any(fl.get(k) not in (None, "0") for k in ("create", "create_new", "truncate"))
            if not mutating:
                continue
        n += 1
        cls = e.cls
        fn = e.body.id
        if cls == "?":
            rep.violation("W1", short(fn), "%s(?)" % e.kind, "a %s at %s acts on a file whose class cannot be determined (fail closed)" % (e.kind, e.site), site=e.site)
            continue
        reason = w1_allowed(cls, fn, e.kind, ctx.facts)
        rep.check(
            reason is not None, "W1", short(fn), "%s(%s)" % (e.kind, cls),
            "%s of the %s file at %s happens in %s, outside the modules allowed to modify that file class (%s)" % (e.kind, cls, e.site, short(fn), ", ".join(p for (p, k, r) in ALLOWED.get(cls, []))),
            site=e.site,
            detail="%s(%s) in %s: %s" % (e.kind, cls, short(fn), reason),
        )
    return n


PN = "nomt::beatree::allocator::PageNumber"
ALLOCATE = "nomt::beatree::allocator::SyncAllocator::allocate"


def w2(ctx, rep):
    """fresh pages only: inside a function that submits an ln/bbn page write, a PageNumber can only
    come from SyncAllocator::allocate or std plumbing over its results"""
    n = 0
    writers = sorted({e.body.id.split("::{closure")[0] for e in ctx.events if e.asyncio and e.cls in LNBBN})
    rep.floor("W2 ln/bbn page writers", len(writers), 2)
    FINISH_ = "nomt::beatree::allocator::SyncFinisher::finish"

    def from_finish(body, op, depth=0):
        """the operand is computed from the result of SyncFinisher::finish (through aggregates, calls and loops over it)"""
        import termination

        if termination.derives_from(body, op, lambda r: r.kind == "call" and r.what == FINISH_):
            return True
        if depth < 3:
            for r in trace(body, op):
                if r.kind == "agg" and r.obj is not None and any(from_finish(body, o, depth + 1) for o in r.obj.get("ops", [])):
                    return True
        return False

    def writes_finish_pages_only(fn):
        """every ln/bbn page write of fn writes what SyncFinisher::finish produced (the encoded free-list pages): the role of
        `submit_freelist_write`, wherever that code lives"""
        evs = [e for e in ctx.events if e.asyncio and e.cls in LNBBN and e.body.id.split("::{closure")[0] == fn]
        if not evs:
            return False
        for e in evs:
            t = e.body.term(e.bb)
            if t["k"] != "call" or not any(from_finish(e.body, a) for a in t["args"][1:]):
                return False
        return True

    for fn in writers:
        bodies = [ctx.facts.bodies[fn]] + ctx.facts.closures_of(fn)
        is_fl = fn == "nomt::beatree::writeout::submit_freelist_write"
        inline_fl = (not is_fl) and writes_finish_pages_only(fn)
        n_alloc = 0
        for body in bodies:
            sh = short(fn)
            for b in range(body.n):
                if body.is_cleanup(b):
                    continue
                ops = []
                for s in body.stmts(b):
                    if s["k"] != "assign":
                        continue
                    rv = s["rv"]
                    k = rv["k"]
                    if k == "agg" and rv.get("name") == PN:
                        n += 1
                        rep.violation("W2", sh, "construct PageNumber", "a PageNumber is constructed from a raw integer at %s inside a page writer: the written page need not come from the allocator" % s.get("ln"), site=s.get("ln"))
                    if k == "cast" and ("PageNumber" in rv.get("ty", "")):
                        n += 1
                        rep.violation("W2", sh, "cast to PageNumber", "a value is cast/transmuted to PageNumber at %s inside a page writer" % s.get("ln"), site=s.get("ln"))
                    for key in ("op", "a", "b"):
                        if key in rv and isinstance(rv[key], dict):
                            ops.append((rv[key], s.get("ln")))
                    for o in rv.get("ops", []):
                        ops.append((o, s.get("ln")))
                    if k in ("ref", "discr") and rv["pl"].get("p"):
                        ops.append(({"k": "copy", "pl": rv["pl"]}, s.get("ln")))
                t = body.term(b)
                if t["k"] == "call":
                    c = t.get("callee") or ""
                    dty = body.place_ty(t["dest"])
                    if c == ALLOCATE:
                        n_alloc += 1
                    elif inline_fl and c == FINISH_:
                        pass  # the free-list writer's source, checked below
                    elif (c.startswith("nomt::") or c.startswith("<nomt::")) and "PageNumber" in dty and not c.endswith("as core::clone::Clone>::clone"):
                        n += 1
                        rep.violation("W2", sh, "call=%s" % short(c), "%s (returning %s) is called at %s inside a page writer: page numbers may only be obtained from SyncAllocator::allocate there" % (short(c), dty, t.get("ln")), site=t.get("ln"))
                    for a in t["args"]:
                        ops.append((a, t.get("ln")))
                if is_fl or inline_fl:
                    continue
                for (o, ln) in ops:
                    if o["k"] not in ("copy", "move"):
                        continue
                    pl = o["pl"]
                    if not pl.get("p"):
                        continue
                    ty = body.place_ty(pl)
                    if "PageNumber" not in ty:
                        continue
                    for r in trace(body, pl):
                        if r.kind in ("param", "upvar") and (r.fields or r.kind == "upvar"):
                            n += 1
                            rep.violation("W2", sh, "read %s" % ".".join((str(r.what),) + r.fields), "a page number held by a parameter/capture (%s, type %s) is read at %s inside a page writer: an old page could be rewritten in place" % (".".join((str(r.what),) + r.fields), ty, ln), site=ln)
                            break
        if is_fl:
            # checked at the call sites: argument derives from SyncFinisher::finish
            for (cid, cb, kind) in ctx.facts.callers().get(fn, []):
                cbody = ctx.facts.bodies[cid]
                t = cbody.term(cb)
                n += 1
                ok = any(r.kind == "call" and r.what == "nomt::beatree::allocator::SyncFinisher::finish" for r in trace(cbody, t["args"][2]))
                rep.check(ok, "W2", short(cid), "submit_freelist_write arg", "the pages handed to submit_freelist_write at %s do not come from SyncFinisher::finish" % t.get("ln"), site=t.get("ln"), detail="free-list pages at %s derive from SyncFinisher::finish" % t.get("ln"))
        elif inline_fl:
            n += 1
            rep.ok("W2", short(fn), "writes-finish-pages", detail="every ln/bbn page write of %s writes a page produced by SyncFinisher::finish (the free-list pages)" % short(fn))
        else:
            n += 1
            rep.check(n_alloc >= 1, "W2", short(fn), "allocates", "page writer %s submits page writes but never calls SyncAllocator::allocate" % short(fn), site=ctx.facts.bodies[fn].span, detail="%d allocate call(s); no other source of PageNumber in scope" % n_alloc)
    return n


def w2_freelist(ctx, rep):
    """the page numbers at which the copy-on-write free-list pages are written pre-meta (the `new_pages`
    produced by FreeList::preallocate) can only originate from the clean free list (FreeList::pop), from a
    portion page that was itself drawn from the free list in this call (released_portions.pop, see the loop
    invariant in preallocate) or from the bump; never from the pages freed in this sync (`to_push`)."""
    fn = "nomt::beatree::allocator::free_list::FreeList::preallocate"
    body = ctx.facts.body(fn)
    sh = short(fn)
    n = 0
    # the returned vector
    ret_locals = set()
    for r in trace(body, {"l": 0}):
        pass
    pushes = []
    for b, t in body.calls():
        c = t.get("callee") or ""
        if c == "alloc::vec::Vec::push" and t["args"]:
            # receiver must be the returned vector: a local (not a parameter, not a field of self)
            rs = roots(body, t["args"][0])
            is_param = any(r.kind == "param" for r in rs)
            if not is_param:
                pushes.append((b, t))
    rep.floor("W2 free-list new_pages push sites", len(pushes), 3)
    ALLOWED_SRC = ("nomt::beatree::allocator::free_list::FreeList::pop",)
    for (b, t) in pushes:
        n += 1
        bad = []
        srcs = []
        for r in roots(body, t["args"][1]):
            if r.kind == "call" and r.what in ALLOWED_SRC:
                srcs.append("FreeList::pop")
            elif r.kind == "call" and r.what == "alloc::vec::Vec::pop" and r.obj and any("released_portions" in rr.fields for rr in roots(body, r.obj["args"][0])):
                srcs.append("released_portions.pop")
            elif r.kind == "param" and r.what == 3:
                srcs.append("*bump")
            elif r.kind in ("const", "agg") and not r.fields:
                continue
            else:
                what = r.what if r.kind != "param" else "parameter %s%s" % (body.local_name(r.what) or r.what, "".join("." + f for f in r.fields))
                if r.kind == "call" and r.obj and r.obj.get("args"):
                    inner = {body.local_name(rr.what) for rr in roots(body, r.obj["args"][0]) if rr.kind == "param"}
                    what = "%s on %s" % (what, sorted(x for x in inner if x))
                bad.append(str(what))
        rep.check(not bad and bool(srcs), "W2", sh, "new free-list page source", "a page number pushed into the set of free-list pages to be written pre-meta at %s derives from %s: only FreeList::pop, released_portions.pop and the bump may supply it (a page freed in this sync is still referenced by the previous image)" % (t.get("ln"), bad), site=t.get("ln"), detail="push at %s <- %s" % (t.get("ln"), sorted(set(srcs))))
    return n


def w5(ctx, rep):
    """the value files change size at one place only: the growth helper of the allocator (and the creation of an empty store).
    A second resize site - e.g. one that gives space back - could cut off pages the previous state still references before the
    switch-over."""
    fns = {}
    for e in ctx.events:
        if e.kind == "resize" and e.cls in ("ln", "bbn", "lnbbn"):
            # the function the resize was WRITTEN in: a growth helper spliced into its two callers (rules/inline.py) is
            # still one site
            root = e.body.origin(e.bb).split("::{closure")[0]
            if root.startswith("nomt::beatree::create") or root == "nomt::beatree::create":
                continue
            fns.setdefault(root, []).append(e.site)
    rep.check(len(fns) == 1, "W5", "beatree", "single-resize-site", "the value files (ln / bbn) are resized in %d functions (%s); only the allocator's growth helper may change their length during a sync" % (len(fns), ", ".join(sorted(short(f) for f in fns))), site=";".join(sorted(s for v in fns.values() for s in v))[:200], detail="resize(ln/bbn) only in %s" % ", ".join(sorted(short(f) for f in fns)))
    return 1


def w3(ctx, rep):
    """free-list mutators (&mut FreeList methods) are callable only from SyncFinisher::finish and FreeList itself"""
    FL = "nomt::beatree::allocator::free_list::FreeList"
    muts = []
    for body in ctx.facts.bodies.values():
        if body.id.startswith(FL + "::") and body.kind == "AssocFn" and body.argc >= 1:
            if body.local_ty(1).replace("'_ ", "").startswith("&mut " + FL) or body.local_ty(1).startswith("&'a mut " + FL) or ("&" in body.local_ty(1) and "mut " + FL in body.local_ty(1)):
                muts.append(body.id)
    rep.floor("W3 &mut FreeList methods", len(muts), 3)
    allowed_callers = ("nomt::beatree::allocator::SyncFinisher::finish",)
    n = 0
    for mfn in muts:
        for (cid, cb, kind) in ctx.facts.callers().get(mfn, []):
            n += 1
            ok = cid in allowed_callers or cid.startswith(FL + "::")
            rep.check(ok, "W3", short(cid), "call=%s" % short(mfn), "free-list mutator %s is called from %s at %s: only SyncFinisher::finish may change the free list (pages freed in this sync must not be handed out in it)" % (short(mfn), short(cid), ctx.facts.bodies[cid].term(cb).get("ln")), site=ctx.facts.bodies[cid].term(cb).get("ln"), detail="%s called from %s" % (short(mfn), short(cid)))
    rep.floor("W3 mutator call sites", n, 2)
    # allocate takes &self and reaches the free list through as_clean only
    al = ctx.facts.body(ALLOCATE)
    n += 1
    rep.check(al.local_ty(1).startswith("&") and "mut" not in al.local_ty(1).split("nomt::")[0], "W3", short(ALLOCATE), "&self", "SyncAllocator::allocate no longer takes &self", site=al.span, detail="allocate(&self)")
    fl_calls = [t.get("callee") for b, t in al.calls() if (t.get("callee") or "").startswith(FL + "::")]
    n += 1
    rep.check(bool(fl_calls) and all(c not in muts for c in fl_calls), "W3", short(ALLOCATE), "clean-free-list-only", "SyncAllocator::allocate calls a free-list mutator (%s)" % [short(c) for c in fl_calls if c in muts], site=al.span, detail="allocate uses %s" % sorted({short(c) for c in fl_calls}))
    return n


def w4(ctx, rep):
    """every OpenOptions chain that opens a rollback segment for writing sets append(true)"""
    n = 0
    for e in ctx.events:
        if e.kind == "open" and e.cls == "seglog":
            fl = open_options_flags(e.body, e.bb)
            writes = any(fl.get(k) not in (None, "0") for k in ("write", "append", "create", "create_new", "truncate"))
            if not writes:
                continue
            n += 1
            rep.check(fl.get("append") == "1", "W4", short(e.body.id), "open(seglog)|append", "a rollback segment is opened for writing without append(true) at %s (flags %s): existing records could be overwritten" % (e.site, fl), site=e.site, detail="flags %s" % fl)
    rep.floor("W4 segment open-for-write sites", n, 2)
    return n


# ---- R5 (C14): no wait without request, no join without spawn (never a hang) --------------------


FN_CALLS = ("core::ops::function::FnOnce::call_once", "core::ops::function::FnMut::call_mut", "core::ops::function::Fn::call")


def invokes_param(body, param):
    """every success return of `body` is dominated by a call of its closure parameter `param`"""
    rem = body.ok_removed()
    oks = [r for r in body.return_blocks() if r in body.reachable([0], rem)]
    if not oks:
        return False
    for b, t in body.calls():
        if body.is_cleanup(b) or not t["args"]:
            continue
        if (t.get("orig") or t.get("callee") or "") not in FN_CALLS and (t.get("callee") or "") not in FN_CALLS:
            continue
        if any(r.kind == "param" and r.what == param and not r.fields for r in trace(body, t["args"][0])):
            if all(body.dominates(b, r, removed=rem) for r in oks):
                return True
    return False


def must_started(ctx, body, P, sid, depth=0, seen=None):
    """on every success path to point P of `body`, a start of strand `sid` has happened"""
    m = ctx.model
    if seen is None:
        seen = set()
    key = (body.id, P, sid)
    if key in seen or depth > 8:
        return False, "recursion"
    seen.add(key)
    rem = body.ok_removed()
    targets = body.return_blocks() if P == "ret" else [P]

    def dominates_P(c):
        if P == "ret":
            oks = [r for r in targets if r in body.reachable([0], rem)]
            return bool(oks) and all(body.dominates(c, r, removed=rem) for r in oks)
        return c != P and body.dominates(c, P, removed=rem)

    loops = m.loops(body)
    for b, t in body.calls():
        if body.is_cleanup(b):
            continue
        c = t.get("callee") or ""
        dom = dominates_P(b)
        started = None
        if sid[0] == "task" and c == strands_mod.SPAWN:
            sp = m.spawn_at.get((body.id, b))
            if sp and (frozenset(sp["chan"]) & sid[1]):
                started = "spawn_task at %s" % t.get("ln")
        elif sid[0] == "fsync" and c == syncmodel.FSYNC_REQ and m.fsync_id(body, t["args"][0]) == sid:
            started = "Fsyncer::fsync at %s" % t.get("ln")
        if started:
            if dom:
                return True, started
            # loop-paired (A-count): start in a loop whose header dominates P
            for (h, blk, lat) in loops:
                if b in blk and (P == "ret" or P not in blk) and dominates_P(h):
                    m.note_count(body, b, sid)
                    return True, started + " (in a loop paired by count with the join loop)"
            continue
        if not dom:
            # a helper that spawns, called in a loop whose header dominates P (`for .. { spawn_updater(..) }`): paired by count
            if c in ctx.facts.bodies and ctx.facts.bodies[c].crate == "nomt" and c not in (strands_mod.SPAWN, strands_mod.JOIN):
                for (h, blk, lat) in loops:
                    if b in blk and (P == "ret" or P not in blk) and dominates_P(h):
                        ok, why = must_started(ctx, ctx.facts.bodies[c], "ret", sid, depth + 1, seen)
                        if ok:
                            m.note_count(body, b, sid)
                            return True, "%s via %s at %s (in a loop paired by count with the join loop)" % (why, short(c), t.get("ln"))
            continue
        if c == strands_mod.JOIN and m.checked_before(body, b, P):
            j = m.join_at.get((body.id, b))
            if j:
                for sp in ctx.st.spawns:
                    if sp["chan"] & j["chan"] and sp["task"] in ctx.facts.bodies:
                        ok, why = must_started(ctx, ctx.facts.bodies[sp["task"]], "ret", sid, depth + 1, seen)
                        if ok:
                            return True, "%s inside task %s joined (checked) at %s" % (why, short(sp["task"]), t.get("ln"))
        elif c in ctx.facts.bodies and ctx.facts.bodies[c].crate == "nomt" and c not in (strands_mod.SPAWN, strands_mod.JOIN):
            if m.checked_before(body, b, P):
                ok, why = must_started(ctx, ctx.facts.bodies[c], "ret", sid, depth + 1, seen)
                if ok:
                    return True, "%s via %s at %s" % (why, short(c), t.get("ln"))
                # a closure handed to the callee, which the callee invokes on every success path
                for k, a in enumerate(t["args"]):
                    for r in trace(body, a):
                        if r.kind == "agg" and r.obj is not None and r.obj.get("ak") == "closure" and r.obj.get("name") in ctx.facts.bodies:
                            if invokes_param(ctx.facts.bodies[c], k + 1):
                                ok, why = must_started(ctx, ctx.facts.bodies[r.obj["name"]], "ret", sid, depth + 1, seen)
                                if ok:
                                    return True, "%s inside the closure that %s invokes on every success path (%s)" % (why, short(c), t.get("ln"))
    # closures invoked synchronously are not followed; try the callers of this function
    if P != "ret" or depth == 0:
        callers = [x for x in ctx.facts.callers().get(body.id, []) if x[2] in ("call", "candidate")]
        if callers and body.kind != "Closure":
            whys = []
            for (cid, cb, kind) in callers:
                ok, why = must_started(ctx, ctx.facts.bodies[cid], cb, sid, depth + 1, seen)
                if not ok:
                    return False, "not started on the path through %s" % short(cid)
                whys.append(why)
            return True, "at every caller: " + "; ".join(whys[:2])
    return False, "no start site dominates"


# join sites whose guarantee is an object typestate or a correlated match, which this analysis cannot
# see (one line of reason each); everything else is decided.
R5_NOT_DECIDED = {
    "nomt::rollback::SyncController::wait_post_meta": "post_meta and wait_post_meta are called under two `if let Some(rollback_sync)` matches on the same unmodified Option (correlated branches)",
}


def handle_implies_spawn(ctx, body, b, sid):
    """the receiver joined at block b lives in a field of a handle struct, and every construction of that struct happens
    after the matching spawn: holding the handle implies the task was started (typestate by construction)"""
    t = body.term(b)
    owners = []
    for r in trace(body, t["args"][0]):
        if r.kind in ("param", "upvar") and r.path:
            # the struct that directly holds the receiver: the owner of the LAST field of the access path
            for (f, o) in reversed(r.path):
                if o.startswith("nomt::") and o in ctx.facts.adts:
                    owners.append((o, f))
                    break
    if not owners:
        return False, "the receiver is not held in a handle struct"
    whys = []
    for (adt, f) in sorted(set(owners)):
        sites = []
        for cb_ in ctx.facts.bodies.values():
            if cb_.crate != "nomt" or "::tests::" in cb_.id:
                continue
            for bb in range(cb_.n):
                for st in cb_.stmts(bb):
                    if st["k"] == "assign" and st["rv"]["k"] == "agg" and st["rv"].get("name") == adt and not cb_.is_cleanup(bb):
                        sites.append((cb_, bb, st.get("ln")))
        if not sites:
            return False, "no construction of %s found" % adt
        for (cb_, bb, ln) in sites:
            ok, why = must_started(ctx, cb_, bb, sid)
            if not ok:
                return False, "%s is constructed at %s where the task need not have been spawned (%s)" % (adt.split("::")[-1], ln, why)
            whys.append("%s built at %s after %s" % (adt.split("::")[-1], ln, why))
    return True, "handle existence implies spawn: " + "; ".join(whys[:2])


def r5(ctx, rep):
    n = 0
    m = ctx.model
    for body in ctx.facts.bodies.values():
        if body.crate != "nomt":
            continue
        for b, t in body.calls():
            if body.is_cleanup(b):
                continue
            c = t.get("callee") or ""
            sid = None
            if c == syncmodel.FSYNC_WAIT:
                sid = m.fsync_id(body, t["args"][0])
                what = "Fsyncer::wait(%s)" % sid[2]
            elif c == strands_mod.JOIN:
                j = m.join_at.get((body.id, b))
                if j and j["chan"]:
                    sid = ("task", frozenset(j["chan"]))
                    what = "join_task(channel %s)" % sorted(j["chan"])
            if sid is None:
                continue
            if body.id in R5_NOT_DECIDED:
                rep.notes.append("R5 not decided for %s at %s: %s" % (what, t.get("ln"), R5_NOT_DECIDED[body.id]))
                continue
            n += 1
            ok, why = must_started(ctx, body, b, sid)
            if not ok and sid[0] == "task":
                ok2, why2 = handle_implies_spawn(ctx, body, b, sid)
                if ok2:
                    ok, why = True, why2
            rep.check(ok, "R5", short(body.id), what.split("(")[0] + "|" + (sid[2] if sid[0] == "fsync" else sorted(sid[1])[0][0].split("::", 1)[1]), "%s at %s can be reached on a success path on which the matching request/spawn never happened: the caller would block forever (%s)" % (what, t.get("ln"), why), site=t.get("ln"), detail="%s at %s: %s" % (what, t.get("ln"), why))
    return n


def pending_truncate_consumers(ctx, rep):
    """C09 (iii): InMemory.pending_truncate is written only by Rollback::truncate and consumed only by writeout_start"""
    n = 0
    TR, WS = "nomt::rollback::Rollback::truncate", "nomt::rollback::Rollback::writeout_start"
    # the two functions with their private phases (`InMemory::truncate_recent` called only from truncate ..)
    region = {TR: {TR}, WS: {WS}}
    for e in (TR, WS):
        if e in ctx.facts.bodies:
            region[e] |= {x for x in owned_region(ctx.facts, e) if ctx.facts.bodies[x].kind != "Closure"}
    for body in ctx.facts.bodies.values():
        if body.crate != "nomt":
            continue
        for b in range(body.n):
            if body.is_cleanup(b):
                continue
            sites = []
            for s in body.stmts(b):
                if s["k"] == "assign":
                    pl = s["pl"]
                    if "pending_truncate" in fields_of(pl):
                        sites.append(("store", s.get("ln")))
                    rv = s["rv"]
                    if rv["k"] in ("ref",) and rv.get("mut") and "pending_truncate" in fields_of(rv["pl"]):
                        sites.append(("borrow_mut", s.get("ln")))
            for (k, ln) in sites:
                n += 1
                allowed = region[TR] | region[WS] | {"nomt::rollback::InMemory::new"}
                rep.check(body.id in allowed, "O3", short(body.id), "pending_truncate|%s" % k, "InMemory.pending_truncate is modified at %s in %s (only Rollback::truncate sets it and writeout_start consumes it)" % (ln, short(body.id)), site=ln, detail="%s in %s" % (k, short(body.id)))
    # set by truncate, and CONSUMED (cleared) by writeout_start: a pending truncation that is applied but never cleared is
    # applied again by every later sync and cuts the records of later commits out of the log
    roles = {}
    for body in ctx.facts.bodies.values():
        owner = TR if body.id in region[TR] else WS if body.id in region[WS] else None
        if owner is None:
            continue
        for b in range(body.n):
            if body.is_cleanup(b):
                continue
            for s in body.stmts(b):
                if s["k"] == "assign":
                    if "pending_truncate" in fields_of(s["pl"]):
                        roles.setdefault(owner, set()).add("store")
                    if s["rv"]["k"] == "ref" and s["rv"].get("mut") and "pending_truncate" in fields_of(s["rv"]["pl"]):
                        # &mut handed to Option::take / replace / mem::take
                        dest = s["pl"]["l"]
                        for cb_, t_ in body.calls():
                            if any(a["k"] in ("move", "copy") and a["pl"]["l"] == dest for a in t_["args"][:1]) and (t_.get("callee") or "").rsplit("::", 1)[-1] in ("take", "replace"):
                                roles.setdefault(owner, set()).add("clear")
    n += 1
    rep.check("store" in roles.get("nomt::rollback::Rollback::truncate", ()), "O3", "rollback::Rollback::truncate", "pending_truncate|set", "Rollback::truncate no longer records the pending truncation of the on-disk log", detail="in_memory.pending_truncate = Some(..)")
    n += 1
    ws = roles.get("nomt::rollback::Rollback::writeout_start", set())
    rep.check("clear" in ws or "store" in ws, "O3", "rollback::Rollback::writeout_start", "pending_truncate|consumed", "writeout_start reads the pending truncation without clearing it: every later sync truncates the log again at the old point and discards the records of the commits made since", detail="pending_truncate.take()")
    return n


# ---- O12 (C03): writer / redo agreement on the occupancy map ---------------------------------------


def _o12_queue_blocks(body):
    def from_page_index(op, depth=0):
        for r in trace(body, op):
            if r.kind == "call" and str(r.what).endswith("MetaMap::page_index"):
                return True
            if r.kind == "agg" and r.obj is not None and depth < 3 and any(from_page_index(o, depth + 1) for o in r.obj.get("ops", [])):
                return True
        return False

    out = []
    for b, t in body.calls():
        c = t.get("callee") or ""
        if c.rsplit("::", 1)[-1] in ("insert", "extend") and t["args"] and ("HashSet" in c or "hash" in c.lower() or "HashSet" in body.op_ty(t["args"][0])) and len(t["args"]) > 1 and from_page_index(t["args"][1]):
            out.append(b)
    return out


def _followed_in_entry(ctx, entry_id, helper_id, gates_of):
    """every call (direct or through owned helpers) of `helper_id` in the entry is followed, on every success path to the next
    iteration / return of the entry, by one of the entry's gate blocks"""
    facts = ctx.facts
    E = facts.body(entry_id)
    region = owned_region(facts, entry_id)
    ebs = entry_blocks(facts, E, helper_id.split("::{closure")[0], region)
    if not ebs:
        return False
    gates = set(gates_of(E))
    loops = ctx.model.loops(E)
    rem = set(E.ok_removed()) | gates
    for eb in ebs:
        cands = [(h, blk) for (h, blk, lat) in loops if eb in blk]
        inner = min(cands, key=lambda x: len(x[1]))[0] if cands else None
        targets = set(E.return_blocks()) | ({inner} if inner is not None else set())
        if E.reachable([x for x in E.succ(eb) if x not in rem], rem) & targets:
            return False
    return True


def o12(ctx, rep):
    """in the sync writer (DB::prepare_sync) and in the WAL redo (recover), every mutation of the in-memory
    occupancy map (MetaMap::set_tombstone / set_full) is followed, on every path to the next iteration or
    to the return, by queueing that bucket's meta page for writeout (insert of page_index(bucket)): a
    mutated but unwritten map page makes the file disagree with the state the commit / recovery stands for."""
    n = 0
    m = ctx.model
    total_muts = {}
    for (fn, body) in [(e, b) for e in ("nomt::bitbox::DB::prepare_sync", "nomt::bitbox::recover") for b in [ctx.facts.body(e)] + [ctx.facts.bodies[x] for x in sorted(owned_region(ctx.facts, e)) if ctx.facts.bodies[x].kind != "Closure"]]:
        muts = [(b, t) for b, t in body.calls() if (t.get("callee") or "") in ("nomt::bitbox::meta_map::MetaMap::set_tombstone", "nomt::bitbox::meta_map::MetaMap::set_full")]
        queues = []

        def from_page_index(op, depth=0):
            for r in trace(body, op):
                if r.kind == "call" and str(r.what).endswith("MetaMap::page_index"):
                    return True
                if r.kind == "agg" and r.obj is not None and depth < 3 and any(from_page_index(o, depth + 1) for o in r.obj.get("ops", [])):
                    return True  # `Some(page_index(..))` handed to `extend`
            return False

        for b, t in body.calls():
            c = t.get("callee") or ""
            m_ = c.rsplit("::", 1)[-1]
            if m_ in ("insert", "extend") and ("HashSet" in c or "hash" in c.lower() or "HashSet" in (t.get("gargs") or "") or "HashSet" in body.op_ty(t["args"][0]) if t["args"] else False):
                if len(t["args"]) > 1 and from_page_index(t["args"][1]):
                    queues.append(b)
        total_muts[fn] = total_muts.get(fn, 0) + len(muts)
        loops = m.loops(body)
        rem = set(body.ok_removed()) | set(queues)
        for (b, t) in muts:
            n += 1
            heads = [h for (h, blk, lat) in loops if b in blk]
            inner = None
            if heads:
                # innermost loop = smallest body
                inner = min(((h, blk) for (h, blk, lat) in loops if b in blk), key=lambda x: len(x[1]))[0]
            targets = set(body.return_blocks()) | ({inner} if inner is not None else set())
            reach = body.reachable(body.succ(b), rem)
            ok = not (reach & targets)
            if not ok and body.id != fn:
                # a helper that only marks the bucket (`allocate_bucket`): the page is queued by the entry after the call
                ok = _followed_in_entry(ctx, fn, body.id, _o12_queue_blocks)
            rep.check(ok, "O12", short(body.id), "%s=>queue-meta-page" % t["callee"].split("::")[-1], "after %s at %s a path reaches the next iteration / return without queueing the bucket's meta page for writeout: the hash-table file would keep the old occupancy byte" % (t["callee"].split("::")[-1], t.get("ln")), site=t.get("ln"), detail="%s at %s is followed on every path by insert(page_index(bucket))" % (t["callee"].split("::")[-1], t.get("ln")))
    for fn, k in sorted(total_muts.items()):
        rep.floor("O12 occupancy-map mutation sites in %s (and its private helpers)" % short(fn), k, 2)
    return n


# ---- O13 (C03): the WAL covers the hash-table writeout ---------------------------------------------


def o13(ctx, rep):
    """in the sync writer (DB::prepare_sync and its private helpers) every change that the post-meta hash-table writeout will
    make is first recorded in the WAL blob of this sync, so that a crash inside the writeout can be redone:
      (a) after MetaMap::set_tombstone every path to the next iteration / return passes WalBlobBuilder::write_clear, and the
          two are given the same bucket;
      (b) after MetaMap::set_full every path passes WalBlobBuilder::write_update (recovery re-creates the occupancy byte
          from the Update entry);
      (c) a data page is queued for the writeout (a push whose page number comes from data_page_index) only on paths that
          pass write_update in the same iteration, and write_update is given the bucket data_page_index was given;
      (d) WalBlobBuilder::reset(sync_seqn) runs before the first entry and finalize() on every success path after one."""
    from core import trace

    n = 0
    m = ctx.model
    facts = ctx.facts
    W_CLEAR = "nomt::bitbox::wal::write::WalBlobBuilder::write_clear"
    W_UPDATE = "nomt::bitbox::wal::write::WalBlobBuilder::write_update"
    W_RESET = "nomt::bitbox::wal::write::WalBlobBuilder::reset"
    W_FINALIZE = "nomt::bitbox::wal::write::WalBlobBuilder::finalize"
    for a in (W_CLEAR, W_UPDATE, W_RESET, W_FINALIZE):
        facts.body(a)  # fail closed (anchor missing) rather than report every change as unrecorded
    entry = "nomt::bitbox::DB::prepare_sync"
    region_all = owned_region(facts, entry)
    bodies = [facts.body(entry)] + [facts.bodies[x] for x in sorted(region_all) if facts.bodies[x].kind != "Closure"]
    seen = {"clear": 0, "update": 0, "data": 0}

    def bucket_roots(body, op):
        """value identity of a bucket operand: the roots it is computed from (looking through casts and the BucketIndex payload)"""
        out = set()
        for r in trace(body, op, deep=True):
            out.add((r.kind, str(r.what), r.bb, tuple(r.fields)))
            if r.kind in ("call", "via") and r.obj is not None and str(r.what).rsplit("::", 1)[-1] in ("from", "into", "try_into", "unwrap", "clone"):
                for a in r.obj.get("args", []):
                    out |= bucket_roots(body, a)
        return out

    for body in bodies:
        loops = m.loops(body)
        calls = list(body.calls())
        clears = [(b, t) for b, t in calls if t.get("callee") == W_CLEAR]
        updates = [(b, t) for b, t in calls if t.get("callee") == W_UPDATE]
        tombs = [(b, t) for b, t in calls if t.get("callee") == "nomt::bitbox::meta_map::MetaMap::set_tombstone"]
        fulls = [(b, t) for b, t in calls if t.get("callee") == "nomt::bitbox::meta_map::MetaMap::set_full"]
        datas = []
        for b, t in calls:
            c = t.get("callee") or ""
            if c.rsplit("::", 1)[-1] in ("push", "insert", "push_back", "extend") and len(t["args"]) >= 2:
                idx = [r for a in t["args"][1:] for r in trace(body, a, deep=True) if r.kind == "call" and str(r.what).endswith("::data_page_index")]
                if not idx:
                    # the tuple (pn, page): look through the aggregate
                    for a in t["args"][1:]:
                        for r in trace(body, a):
                            if r.kind == "agg" and r.obj is not None:
                                for o in r.obj.get("ops", []):
                                    idx += [x for x in trace(body, o, deep=True) if x.kind == "call" and str(x.what).endswith("::data_page_index")]
                if idx:
                    datas.append((b, t, idx))

        def iteration_targets(b):
            inner = None
            cands = [(h, blk) for (h, blk, lat) in loops if b in blk]
            if cands:
                inner = min(cands, key=lambda x: len(x[1]))
            return (set(body.return_blocks()) | ({inner[0]} if inner else set())), inner

        def followed(b, gates):
            targets, _inner = iteration_targets(b)
            rem = set(body.ok_removed()) | set(gates)
            return not (body.reachable([x for x in body.succ(b) if x not in rem], rem) & targets)

        def preceded(b, gates):
            """every path from the start of the iteration (or the function) to b passes a gate"""
            _t, inner = iteration_targets(b)
            start = inner[0] if inner else 0
            gs = set(gates)
            if b in gs:
                return True
            return b not in body.reachable([start], gs)

        for (b, t) in tombs:
            n += 1
            seen["clear"] += 1
            cb = [x for (x, _t) in clears]
            ok = followed(b, cb) or preceded(b, cb)
            rep.check(ok, "O13", short(body.id), "set_tombstone=>write_clear", "after MetaMap::set_tombstone at %s a path reaches the next iteration / return without a WAL Clear entry: a crash inside the post-meta writeout leaves the bucket occupied for ever" % t.get("ln"), site=t.get("ln"), detail="set_tombstone at %s is paired with write_clear on every path" % t.get("ln"))
            if ok and clears:
                n += 1
                same = any(bucket_roots(body, t["args"][1]) & bucket_roots(body, ct["args"][1]) for (_cb, ct) in clears if len(ct["args"]) > 1 and len(t["args"]) > 1)
                rep.check(same, "O13", short(body.id), "write_clear(same bucket)", "the WAL Clear entry does not name the bucket that set_tombstone at %s clears" % t.get("ln"), site=t.get("ln"), detail="write_clear and set_tombstone are given the same bucket value")
        for (b, t) in fulls:
            n += 1
            ub = [x for (x, _t) in updates]
            ok = followed(b, ub) or preceded(b, ub)
            if not ok and body.id != entry:
                ok = _followed_in_entry(ctx, entry, body.id, lambda E_: [x for x, t_ in E_.calls() if t_.get("callee") == W_UPDATE])
            rep.check(ok, "O13", short(body.id), "set_full=>write_update", "after MetaMap::set_full at %s a path reaches the next iteration / return without a WAL Update entry: recovery could not re-create the bucket" % t.get("ln"), site=t.get("ln"), detail="set_full at %s is paired with write_update on every path" % t.get("ln"))
        for (b, t, idx) in datas:
            n += 1
            seen["data"] += 1
            ub = [x for (x, _t) in updates]
            ok = preceded(b, ub) or followed(b, ub)
            rep.check(ok, "O13", short(body.id), "data-page=>write_update", "a data page is queued for the hash-table writeout at %s on a path without a WAL Update entry in the same iteration: a crash inside the writeout could tear the page with nothing to redo it from" % t.get("ln"), site=t.get("ln"), detail="the push at %s is paired with write_update on every path" % t.get("ln"))
            if ok and updates:
                n += 1
                want = set()
                for r in idx:
                    if r.obj is not None and r.obj.get("args"):
                        want |= bucket_roots(body, r.obj["args"][-1])
                same = any(want & bucket_roots(body, ut["args"][-1]) for (_ub, ut) in updates if ut["args"])
                rep.check(same, "O13", short(body.id), "write_update(same bucket)", "the WAL Update entry does not name the bucket whose data page is queued at %s" % t.get("ln"), site=t.get("ln"), detail="write_update and data_page_index are given the same bucket value")
        seen["update"] += len(updates)
        ent = clears + updates
        if ent:
            def phase_calls(target):
                """blocks that call `target`, directly or through a private phase that calls it on every path to its return"""
                out = [x for x, t in calls if t.get("callee") == target]
                for x, t in calls:
                    hb_ = facts.bodies.get(t.get("callee") or "")
                    if hb_ is not None and hb_.id in region_all and hb_.kind != "Closure":
                        inner = [y for y, t2 in hb_.calls() if t2.get("callee") == target]
                        if inner and not (hb_.reachable([0], set(inner)) & set(hb_.return_blocks())):
                            out.append(x)
                return out

            resets = phase_calls(W_RESET)
            fins = phase_calls(W_FINALIZE)
            if body.id == entry or resets or fins:
                n += 1
                rep.check(bool(resets) and all(any(body.dominates(r, e) for r in resets) for (e, _t) in ent), "O13", short(body.id), "reset-first", "a WAL entry can be written before WalBlobBuilder::reset(sync_seqn): the blob would carry entries of another sync or the wrong sequence number", site=body.span, detail="reset at bb%s dominates every entry" % resets)
                n += 1
                rem = set(body.ok_removed()) | set(fins)
                bad = [e for (e, _t) in ent if body.reachable([x for x in body.succ(e) if x not in rem], rem) & set(body.ok_returns())]
                rep.check(bool(fins) and not bad, "O13", short(body.id), "finalize-last", "prepare_sync can return Ok after writing WAL entries without WalBlobBuilder::finalize(): the blob has no terminator / padding and recovery reads garbage", site=body.span, detail="finalize at bb%s on every success path after an entry" % fins)
    rep.floor("O13 set_tombstone sites paired with the WAL", seen["clear"], 1)
    rep.floor("O13 data-page pushes paired with the WAL", seen["data"], 1)
    return n


# ---- O14 (C03): the redo applies every WAL entry ---------------------------------------------------


def o14(ctx, rep):
    """in the WAL redo (recover and its private phases) the loop over WalBlobReader::read_entry dispatches on the entry kind,
    and every arm reaches the next iteration, on its success paths, only through the effect that re-applies the entry:
    a Clear entry through MetaMap::set_tombstone, an Update entry through a write of the hash-table file (any further kind:
    through one of the two).  An arm that can `continue` without its effect silently skips a change the interrupted commit
    had promised."""
    from core import trace

    facts = ctx.facts
    entry = facts.body("nomt::bitbox::recover")
    fn = "bitbox::recover"
    region = owned_region(facts, entry.id)
    # the function holding the loop over the entries: recover itself or one of its private phases
    body = entry
    for rb in [entry] + [facts.bodies[x] for x in sorted(region) if facts.bodies[x].kind != "Closure"]:
        if any((t.get("callee") or "").endswith("WalBlobReader::read_entry") for _b, t in rb.calls()):
            body = rb
            break
    if body.id != entry.id:
        fn = short(body.id)
    sites = {"tomb": set(), "full": set(), "write": set()}
    for rb in [body] + [facts.bodies[x] for x in sorted(region) if x != body.id]:
        local = []
        for b, tt in rb.calls():
            c = tt.get("callee") or ""
            if c.endswith("MetaMap::set_tombstone"):
                local.append((b, "tomb"))
            elif c.endswith("MetaMap::set_full"):
                local.append((b, "full"))
        for e in ctx.model.ev_by_body.get(rb.id, []):
            if e.kind == "write" and e.cls == "ht":
                local.append((e.bb, "write"))
        for (b, k) in local:
            if rb.id == body.id:
                sites[k].add(b)
            else:
                for eb in entry_blocks(facts, body, rb.id.split("::{closure")[0], region):
                    sites[k].add(eb)
    reads = [b for b, t in body.calls() if (t.get("callee") or "").endswith("WalBlobReader::read_entry")]
    n = 1
    if not rep.check(bool(reads), "O14", fn, "reads-entries", "recover no longer reads the WAL entries (WalBlobReader::read_entry)", site=body.span, detail="while let Some(entry) = wal_reader.read_entry()?"):
        return n
    loops = ctx.model.loops(body)
    cands = [(h, blk) for (h, blk, lat) in loops if reads[0] in blk]
    n += 1
    if not rep.check(bool(cands), "O14", fn, "entry-loop", "the WAL entries are no longer read in a loop", site=body.span, detail="loop over read_entry"):
        return n
    (head, blk) = min(cands, key=lambda x: len(x[1]))
    adt = facts.adts.get("nomt::bitbox::wal::read::WalEntry")
    if adt is None:
        raise CheckBroken("ANCHOR-MISSING: type nomt::bitbox::wal::read::WalEntry")
    names = [v["name"] for v in adt.get("variants", [])]
    disp = []
    for sb in sorted(blk):
        t = body.term(sb)
        if t["k"] != "switch":
            continue
        for s_ in body.stmts(sb):
            if s_["k"] == "assign" and s_["rv"]["k"] == "discr" and (body.place_ty(s_["rv"]["pl"]) or "") == "nomt::bitbox::wal::read::WalEntry":
                if _bare_local(t["d"]) == s_["pl"]["l"]:
                    disp.append(sb)
    n += 1
    if not rep.check(len(disp) >= 1, "O14", fn, "dispatch-on-entry-kind", "recover no longer dispatches on the kind of the WAL entry", site=body.span, detail="match entry { Clear.., Update.. }"):
        return n
    rem = set(body.ok_removed())
    for sb in disp:
        t = body.term(sb)
        arms = [(str(v), tb) for (v, tb) in t["vals"]]
        for (v, tb) in arms:
            name = names[int(v)] if v.isdigit() and int(v) < len(names) else "#" + v
            want = sites["tomb"] if name == "Clear" else sites["write"] if name == "Update" else (sites["tomb"] | sites["write"] | sites["full"])
            label = "MetaMap::set_tombstone" if name == "Clear" else "a write of the hash-table file" if name == "Update" else "a redo effect"
            n += 1
            gates = set(want) | rem
            reach = body.reachable([tb] if tb not in gates else [], gates)
            ends = ({head} | {x for x in reach if x not in blk and x in set(body.ok_returns())}) & (reach | {head} if head in reach else reach)
            ok = bool(want) and not (reach & ({head} | set(body.ok_returns())))
            rep.check(ok, "O14", fn, "entry=%s=>redo" % name, "a WAL %s entry can be passed over: from its arm the next iteration (or a success return) is reachable without %s - the change the interrupted commit had logged is not re-applied" % (name, label), site=t.get("ln"), detail="every success path of the %s arm passes %s (bb%s)" % (name, label, sorted(want)))
    rep.floor("O14 entry kinds dispatched", len(names), 2)
    return n


def _bare_local(op):
    if op.get("k") in ("copy", "move") and not op["pl"].get("p"):
        return op["pl"]["l"]
    return None


# ---- O15 (C03, C14): the WAL outlives a failed hash-table writeout ---------------------------------


def o15(ctx, rep):
    """in the post-meta phase the WAL of a sync is discarded (truncate_wal) only once the hash-table writeout it covers has
    SUCCEEDED: the result of write_ht is checked (the error edge leaves) before the truncation can start.  A failed writeout
    leaves torn hash-table pages behind; with the WAL gone the reopened store has the new meta page and values on top of the
    old merkle pages."""
    facts = ctx.facts
    body = facts.body("nomt::bitbox::SyncController::post_meta")
    fn = short(body.id)
    n = 0
    region = owned_region(facts, body.id)

    def sites(target):
        out = [b for b, t in body.calls() if t.get("callee") == target and not body.is_cleanup(b)]
        for rb in [facts.bodies[x] for x in sorted(region) if facts.bodies[x].kind != "Closure"]:
            if any(t.get("callee") == target for _b, t in rb.calls()):
                out += entry_blocks(facts, body, rb.id, region)
        return sorted(set(out))

    W = sites("nomt::bitbox::writeout::write_ht")
    T = sites("nomt::bitbox::writeout::truncate_wal")
    n += 1
    if W and not T:
        rep.notes.append("O15: post_meta no longer truncates the WAL (a left-over WAL of the sync the meta page names is redone as a no-op); nothing to order, see O17 (C04)")
        return n
    if not rep.check(bool(W) and bool(T), "O15", fn, "writeout-then-truncate", "post_meta no longer performs the hash-table writeout followed by the WAL truncation", site=body.span, detail="write_ht at bb%s, truncate_wal at bb%s" % (W, T)):
        return n
    for w in W:
        for t in T:
            if t not in body.reachable(body.succ(w)):
                continue
            n += 1
            ok = ctx.model.checked_before(body, w, t, strict=True)
            rep.check(ok, "O15", fn, "truncate-only-after-successful-writeout", "the WAL can be truncated at %s although the hash-table writeout at %s failed: its result is not checked before the truncation - the failed sync would lose the only record from which the torn pages can be redone" % (body.term(t).get("ln"), body.term(w).get("ln")), site=body.term(t).get("ln"), detail="write_ht(..)? at %s precedes truncate_wal at %s" % (body.term(w).get("ln"), body.term(t).get("ln")))
    return n


# ---- O16 (C03): the redo decides by page identity ----------------------------------------------------


def o16(ctx, rep):
    """in the WAL redo, whether an Update entry's bucket is (re)marked as occupied may depend only on conditions that look at
    WHICH page the entry is about (the hash of its page id against the map's hint), never on the bucket's emptiness alone: the
    interrupted sync may have placed the page into a tombstoned bucket, or into a bucket whose map page had already reached the
    disk.  An unconditional set_full is fine."""
    import termination

    facts = ctx.facts
    entry = facts.body("nomt::bitbox::recover")
    region = owned_region(facts, entry.id)
    n = 0
    for body in [entry] + [facts.bodies[x] for x in sorted(region) if facts.bodies[x].kind != "Closure"]:
        sites = [b for b, t in body.calls() if (t.get("callee") or "").endswith("MetaMap::set_full") and not body.is_cleanup(b)]
        if not sites:
            continue
        loops = ctx.model.loops(body)

        def page_identity(r):
            if r.kind in ("call", "via") and ("page_id" in str(r.what).rsplit("::", 1)[-1] or str(r.what).rsplit("::", 1)[-1].startswith("hash")):
                return True
            return any(f == "page_id" for f in r.fields) or (r.kind == "param" and body.local_name(r.what) in ("page_id", "hash"))

        for b in sites:
            cands = [blk for (h, blk, lat) in loops if b in blk]
            scope = min(cands, key=len) if cands else set(range(body.n))
            for sb in sorted(scope):
                t = body.term(sb)
                if t["k"] != "switch" or body.is_cleanup(sb) or sb == b or not body.dominates(sb, b):
                    continue
                succs = set(body.succ(sb))
                through = [x for x in succs if x == b or body.dominates(x, b)]
                if not through or len(through) == len(succs):
                    continue  # b does not depend on this branch
                heads = [h for (h, blk, lat) in loops if b in blk]
                if all((x in set(body.ok_removed())) or (heads and not (set(heads) & body.reachable([x]))) for x in succs if x not in through):
                    continue  # a validity check whose other edge abandons the redo (error exit)
                # the dispatch on the entry kind and `?` checks are not conditions on the map
                is_plumbing = False
                for s_ in body.stmts(sb):
                    if s_["k"] == "assign" and s_["rv"]["k"] == "discr" and t["d"].get("pl", {}).get("l") == s_["pl"]["l"]:
                        ty = body.place_ty(s_["rv"]["pl"]) or ""
                        if ty.endswith("WalEntry") or ty.startswith("core::ops::control_flow::ControlFlow") or ty.startswith("core::option::Option<nomt::bitbox::wal") or ty.startswith("core::result::Result"):
                            is_plumbing = True
                if is_plumbing:
                    continue
                n += 1
                ok = termination.derives_from(body, t["d"], page_identity)
                rep.check(ok, "O16", short(body.id), "set_full-decided-by-page-identity", "in the WAL redo, MetaMap::set_full at %s depends on a condition (at %s) that does not look at which page the entry is about: a page the interrupted sync placed into a tombstoned bucket would stay unreachable after recovery" % (body.term(b).get("ln"), t.get("ln")), site=t.get("ln"), detail="the condition at %s derives from the entry's page id" % t.get("ln"))
    return n


# ---- O17 (C04): a WAL blob is only ever written into an EMPTY WAL file -------------------------------
# The redo trusts a WAL whose header carries the sequence number of the meta page.  While sync N+1 writes its blob, the meta
# page still says N - and so does the blob of sync N if it is still in the file.  Written over that blob in place, a power
# loss that keeps some later page of the new blob but not page 0 leaves a file whose header says N and whose body is a mixture:
# it is replayed.  Rule: every write into the WAL is made into an empty file, which is the case when
#   (A) a truncation to length 0 of the WAL dominates the write inside the writing function, or
#   (B) every way a sync or an open completes leaves the file empty: SyncController::post_meta and the redo (`recover`) pass
#       a truncation to 0 on every success path.
# Either alone suffices (the two halves of the seeded change C04-j are each harmless alone).


def o17(ctx, rep):
    import fileclass

    facts = ctx.facts
    n = 0

    def is_trunc0(e):
        if e.cls != "wal" or e.kind != "resize":
            return False
        t = e.body.term(e.bb)
        if t["k"] != "call" or len(t.get("args", [])) < 2:
            return False
        return fileclass._const_int(e.body, t["args"][1]) == 0

    truncs = [e for e in ctx.events if is_trunc0(e)]
    trunc_bodies = {}
    for e in truncs:
        trunc_bodies.setdefault(e.body.id, set()).add(e.bb)

    def always_truncates(fid, depth=0):
        """every success path of fid passes a truncation of the WAL to 0 (directly or through a callee that always does)"""
        b = facts.bodies.get(fid)
        if b is None or depth > 3:
            return False
        blocks = set(trunc_bodies.get(fid, ()))
        for bb, t in b.calls():
            c = t.get("callee") or ""
            if c != fid and c in facts.bodies and facts.bodies[c].crate == "nomt" and not b.is_cleanup(bb) and always_truncates(c, depth + 1):
                blocks.add(bb)
        if not blocks:
            return False
        rem = set(b.ok_removed())
        reach = b.reachable([0], rem | blocks) if 0 not in blocks else set()
        return not (reach & set(b.return_blocks()))

    glob = {fn: always_truncates(fn) for fn in ("nomt::bitbox::SyncController::post_meta", "nomt::bitbox::recover")}
    for e in ctx.events:
        if e.cls != "wal" or e.kind != "write" or "::tests" in e.body.id or e.body.crate != "nomt":
            continue
        n += 1
        b = e.body
        doms = set(trunc_bodies.get(b.id, ()))
        for bb, t in b.calls():
            c = t.get("callee") or ""
            if c in facts.bodies and c != b.id and not b.is_cleanup(bb) and always_truncates(c):
                doms.add(bb)
        local = any(d != e.bb and b.dominates(d, e.bb) for d in doms)
        ok = local or all(glob.values())
        why = "truncated to 0 in the same function before the write" if local else "post_meta and the redo leave the WAL empty on every success path"
        missing = ", ".join(short(k) for k, v in glob.items() if not v)
        rep.check(ok, "O17", short(b.id), "wal-written-into-empty-file", "the WAL blob is written at %s over whatever the file holds: no truncation to 0 precedes the write in %s, and %s no longer leave(s) the WAL empty - the blob of the previous sync (whose sequence number still matches the meta page) is overwritten in place, and a power loss that keeps a later page but not the first one leaves a mixture that the redo trusts" % (e.site, short(b.id), missing or "-"), site=e.site, detail=why)
    return n


# ---- O18 (C03): the redo applies the WHOLE Update entry -----------------------------------------------
# A WAL Update entry carries everything needed to rebuild the bucket page from whatever the interrupted writeout left there:
# the page id (the label probes look for), the diff and the changed nodes, the elided-children word, the bucket.  The redo
# may not assume that any part is "already there": the meta-map pages and the bucket pages of one sync are separate writes
# and a crash can fall between them.  Rule: for every field of the Update variant, every success path from the arm's entry to
# the write of the hash-table page passes a call that receives both that field and the page buffer being written (or the
# field feeds the write itself, as the bucket does through the page number).


def o18(ctx, rep):
    import shadow

    facts = ctx.facts
    entry = facts.body("nomt::bitbox::recover")
    region = owned_region(facts, entry.id)
    body = entry
    for rb in [entry] + [facts.bodies[x] for x in sorted(region) if facts.bodies[x].kind != "Closure"]:
        if any((t.get("callee") or "").endswith("WalBlobReader::read_entry") for _b, t in rb.calls()):
            body = rb
            break
    fn = short(body.id)
    adt = facts.adts.get("nomt::bitbox::wal::read::WalEntry")
    if adt is None:
        raise CheckBroken("ANCHOR-MISSING: type nomt::bitbox::wal::read::WalEntry")
    names = [v["name"] for v in adt.get("variants", [])]
    upd = [v for v in adt.get("variants", []) if v["name"] == "Update"]
    if not upd:
        rep.notes.append("O18: WalEntry has no Update variant any more: not decided")
        return 0
    fields = [f["n"] for f in upd[0].get("fields", [])]
    # the dispatch on the entry kind and the Update arm
    arm = None
    for sb in range(body.n):
        t = body.term(sb)
        if t["k"] != "switch" or body.is_cleanup(sb):
            continue
        for s_ in body.stmts(sb):
            if s_["k"] == "assign" and s_["rv"]["k"] == "discr" and (body.place_ty(s_["rv"]["pl"]) or "") == "nomt::bitbox::wal::read::WalEntry" and _bare_local(t["d"]) == s_["pl"]["l"]:
                for (v, tb) in t["vals"]:
                    if str(v).isdigit() and int(v) < len(names) and names[int(v)] == "Update":
                        arm = tb
    writes = [e.bb for e in ctx.model.ev_by_body.get(body.id, []) if e.kind == "write" and e.cls == "ht"]
    if arm is None or not writes:
        rep.notes.append("O18: the Update arm and the page write of the redo are not in one function (%s): not decided" % fn)
        return 0
    rem = set(body.ok_removed())
    reads = [b for b, t in body.calls() if (t.get("callee") or "").endswith("WalBlobReader::read_entry")]
    loops = [blk for (h, blk, lat) in ctx.model.loops(body) if reads and reads[0] in blk]
    loop = min(loops, key=len) if loops else set(range(body.n))
    inarm = body.reachable([arm], rem | (set(range(body.n)) - set(loop)))
    writes = [w for w in writes if w in inarm]
    if not writes:
        rep.notes.append("O18: no hash-table write is reachable from the Update arm in %s: judged by O14" % fn)
        return 0

    def is_entry_field(r, f):
        return f in r.fields and r.kind in ("call", "via")

    n = 0
    for w in writes:
        wt = body.term(w)
        # the buffer that is written: the call it comes from (`io::read_page(..)?`), looking through `?` / deref only
        data_roots = [r for a in wt["args"][1:2] for r in trace(body, a)]
        pkeys = {(r.bb, str(r.what)) for r in data_roots if r.kind == "call" and not any(f in r.fields for f in fields)}
        if not pkeys:
            rep.notes.append("O18: the buffer written at %s does not come from a call (read of the bucket page): not decided" % wt.get("ln"))
            continue
        for f in fields:
            n += 1
            apps = set()
            for b, t in body.calls():
                if b not in inarm or body.is_cleanup(b) or not t.get("args"):
                    continue
                roots = [r for a in t["args"] for r in shadow._deep_roots(body, a)]
                has_f = any(is_entry_field(r, f) for r in roots)
                if not has_f:
                    continue
                touches = b == w or any(r.kind == "call" and (r.bb, str(r.what)) in pkeys for r in roots)
                if touches:
                    apps.add(b)
            reach = body.reachable([arm] if arm not in apps else [], rem | apps)
            ok = bool(apps) and w not in reach
            if w in apps:
                ok = True
            rep.check(ok, "O18", fn, "update-entry-field=%s" % f, "the redo can write the bucket page at %s without applying the `%s` of the WAL Update entry to it (%s): whatever the interrupted writeout left in that part of the page is trusted, although the meta-map page and the bucket page of one sync are separate writes and a crash can fall between them" % (wt.get("ln"), f, "no call receives both the field and the page" if not apps else "a path from the arm to the write avoids bb%s" % sorted(apps)), site=wt.get("ln"), detail="`%s` is applied to the page at bb%s on every path to the write at %s" % (f, sorted(apps), wt.get("ln")))
    return n


# ---- W6 (C17, C03): where the allocator's page numbers come from -----------------------------------------
# W2 requires every ln / bbn page writer to take its page numbers from SyncAllocator::allocate; W6 closes the other half: what
# `allocate` hands out is either a page of the previous state's FREE list (`CleanFreeList::get_nth_pop`, pages the old image does
# not reference) or a page number at or beyond the previous state's bump (`PageNumber(sync.bump.0 + k)`).  Any other source -
# the pages the free list itself is stored in, a page released earlier in this very sync - is a page the old meta still
# references, written before the switch-over.


GET_NTH_POP = "nomt::beatree::allocator::free_list::CleanFreeList::get_nth_pop"


def _pn_sources(facts, body, op, depth=0, seen=None):
    """where a page number comes from: list of (ok, description, key)"""
    import termination

    out = []
    if seen is None:
        seen = set()
    if depth > 3:
        return [(False, "a value computed too deep in helpers to follow", "deep")]
    for r in trace(body, op):
        k = (body.id, r.kind, r.bb, str(r.what), r.fields)
        if k in seen:
            continue
        seen.add(k)
        what = str(r.what)
        if r.kind == "agg" and r.obj is not None and what.startswith(("core::result::Result", "core::option::Option")):
            continue  # trace goes on into the payload by itself
        if r.kind in ("call", "via") and what == GET_NTH_POP:
            out.append((True, "a page of the previous state's free list (get_nth_pop)", "get_nth_pop"))
        elif r.kind == "agg" and what.endswith("PageNumber") and r.obj is not None:
            if all(termination.derives_from(body, o, lambda x: "bump" in x.fields) for o in r.obj.get("ops", [])):
                out.append((True, "a page number computed from the previous state's bump", "PageNumber"))
            else:
                out.append((False, "a PageNumber not computed from the bump", "PageNumber"))
        elif r.kind == "agg" and r.obj is not None and what.startswith("nomt::") and r.obj.get("ops") and not r.fields:
            # a value of a helper type of the crate (`Allocation::Reused(pn)`): look at what it carries
            for o in r.obj["ops"]:
                ty = body.op_ty(o) if hasattr(body, "op_ty") else ""
                if "PageNumber" in (ty or "") or len(r.obj["ops"]) == 1:
                    out += _pn_sources(facts, body, o, depth + 1, seen)
        elif r.kind == "call" and what in facts.bodies and facts.bodies[what].crate == "nomt" and "PageNumber" in facts.bodies[what].local_ty(0):
            cb = facts.bodies[what]
            out += _pn_sources(facts, cb, {"k": "copy", "pl": {"l": 0}}, depth + 1, seen)
        elif r.kind in ("via",):
            continue
        else:
            out.append((False, "%s %s" % (r.kind, what), what.rsplit("::", 1)[-1]))
    return out


def w6(ctx, rep):
    facts = ctx.facts
    al = facts.body(ALLOCATE)
    fn = short(ALLOCATE)
    n = 0
    seen_src = set()
    for b in range(al.n):
        if al.is_cleanup(b):
            continue
        for s_ in al.stmts(b):
            if not (s_["k"] == "assign" and s_["pl"]["l"] == 0 and not s_["pl"].get("p") and s_["rv"]["k"] == "agg" and s_["rv"].get("name") == "core::result::Result" and s_["rv"].get("variant") == "Ok"):
                continue
            for (ok, why, key) in _pn_sources(facts, al, s_["rv"]["ops"][0]):
                if (ok, why, key) in seen_src:
                    continue
                seen_src.add((ok, why, key))
                n += 1
                rep.check(ok, "W6", fn, "source=%s" % key, "SyncAllocator::allocate can hand out %s at %s: neither a page of the previous state's free list nor a page at or beyond its bump - a page the old image may still reference would be written before the switch-over" % (why, s_.get("ln")), site=s_.get("ln"), detail=why)
    return n
