# E2 errflow — error discipline (C14)
#  R1 no dropped I/O-carrying Result       R2 CompleteIo.result checked on every success path
#  R3 every spawned task channel is joined  R4 error exits after an effect poison
#  (R5 wait-without-request lives in syncorder.py: it shares the strand model)
import re
from core import trace, roots, fields_of, CheckBroken

IO_ERR = ("std::io::error::Error", "anyhow::Error", "nomt::bitbox::BucketExhaustion")


def is_io_result(ty):
    if not ty.startswith("core::result::Result<"):
        return False
    return any(e in ty for e in IO_ERR)


# consumers that throw the error away (their own result carries no error)
DISCARDERS = {
    "core::mem::drop": "mem::drop",
    "core::result::Result::ok": "Result::ok",
    "core::result::Result::err": "Result::err",
    "core::result::Result::unwrap_or": "Result::unwrap_or",
    "core::result::Result::unwrap_or_default": "Result::unwrap_or_default",
    "core::result::Result::unwrap_or_else": "Result::unwrap_or_else",
    "core::result::Result::is_ok": "Result::is_ok",
    "core::result::Result::is_err": "Result::is_err",
    "core::result::Result::is_ok_and": "Result::is_ok_and",
    "core::result::Result::is_err_and": "Result::is_err_and",
    "core::result::Result::iter": "Result::iter",
    "core::result::Result::into_iter": "Result::into_iter",
    "core::mem::forget": "mem::forget",
    "core::result::Result::or": "Result::or (the receiver's error is dropped when the alternative is Ok)",
}
# of these, the ones whose boolean outcome may legitimately be branched on
OUTCOME_TESTS = ("core::result::Result::is_ok", "core::result::Result::is_err")


def _operand_locals(op):
    if op["k"] in ("copy", "move"):
        return op["pl"]["l"], op["pl"]
    return None, None


class UseIndex:
    """all uses of locals in a body (non-cleanup blocks)"""

    def __init__(self, body):
        self.body = body
        self.uses = {}
        for b in range(body.n):
            if body.is_cleanup(b):
                continue
            for i, s in enumerate(body.stmts(b)):
                if s["k"] != "assign":
                    continue
                rv = s["rv"]
                k = rv["k"]
                dest = s["pl"]
                if k == "use" or k == "cast" or k == "repeat":
                    l, pl = _operand_locals(rv["op"])
                    if l is not None:
                        self._add(l, ("assign", b, i, pl, dest, s))
                elif k in ("ref", "rawptr"):
                    self._add(rv["pl"]["l"], ("ref", b, i, rv["pl"], dest, s))
                elif k == "discr":
                    self._add(rv["pl"]["l"], ("discr", b, i, rv["pl"], dest, s))
                elif k == "agg":
                    for o in rv["ops"]:
                        l, pl = _operand_locals(o)
                        if l is not None:
                            self._add(l, ("agg", b, i, pl, dest, s))
                elif k in ("bin",):
                    for o in (rv["a"], rv["b"]):
                        l, pl = _operand_locals(o)
                        if l is not None:
                            self._add(l, ("binop", b, i, pl, dest, s))
                elif k == "un":
                    l, pl = _operand_locals(rv["a"])
                    if l is not None:
                        self._add(l, ("binop", b, i, pl, dest, s))
            t = body.term(b)
            if t["k"] == "call":
                for ai, a in enumerate(t["args"]):
                    l, pl = _operand_locals(a)
                    if l is not None:
                        self._add(l, ("arg", b, ai, pl, t["dest"], t))
                if "fnptr" in t:
                    l, pl = _operand_locals(t["fnptr"])
                    if l is not None:
                        self._add(l, ("arg", b, -1, pl, t["dest"], t))
            elif t["k"] == "switch":
                l, pl = _operand_locals(t["d"])
                if l is not None:
                    self._add(l, ("switch", b, 0, pl, None, t))
            elif t["k"] == "drop":
                self._add(t["pl"]["l"], ("drop", b, 0, t["pl"], None, t))

    def _add(self, l, u):
        self.uses.setdefault(l, []).append(u)

    def of(self, l):
        return self.uses.get(l, [])


ESCALATE_CALLS = ("nomt::store::Store::poison",)


# functions whose Err arm may carry on with an alternative fallible operation (confirmed by reading; one reason each)
FALLBACK_SITES = {
    "nomt::bitbox::ht_file::resize_and_prealloc": "fallocate failure falls back to zero-filling the file with checked writes (resize_and_zero_file(..)?)",
}
# read-only probes whose failure selects a conservative default instead of being an I/O failure of the store
PROBE_CALLS = {
    "nomt::sys::linux::fs_check": "statfs probe that decides O_DIRECT / tmpfs handling; on failure the conservative setting is used",
}


def err_arm_escalates(body, sw_bb, local, pl):
    """the value matched at switch sw_bb is a Result; is its Err arm an escalation?  On every path from the Err
    arm to a return, one of: an error is returned (`_0 = Err(..)`, `?`), the thread panics, the store is
    poisoned, or the error value itself is moved on (into a call other than formatting, an aggregate, a field)."""
    t = body.term(sw_bb)
    ty = body.place_ty(pl)
    if not ty.startswith("core::result::Result<"):
        return True, "not a Result"
    err_edges = [tb for (v, tb) in t["vals"] if v == "1"]
    if not err_edges:
        # `if let Ok(..)` style: the otherwise edge is the Err arm when the only listed value is 0
        if [v for (v, tb) in t["vals"]] == ["0"]:
            err_edges = [t["else"]]
        else:
            return True, "no Err edge"
    if body.id.endswith("as core::ops::drop::Drop>::drop"):
        return True, "inside Drop (nothing to return to)"
    for (db, di, dk, dobj) in body.defs().get(local, []):
        if dk == "call" and (dobj.get("callee") or "") in PROBE_CALLS:
            return True, "probe: " + PROBE_CALLS[dobj["callee"]]
    if not body.local_ty(0).startswith("core::result::Result<"):
        # the function cannot propagate an error: matching on the outcome and returning a value that depends on it
        # (a probe such as check_iou_permissions) is a way of reporting it
        return True, "function does not return a Result"
    esc = set(body.err_blocks())
    for b in range(body.n):
        tt = body.term(b)
        if tt["k"] == "call":
            c = tt.get("callee") or ""
            if c in ESCALATE_CALLS or (c.endswith("::store") and "atomic" in c):
                esc.add(b)
            # a fallback: the Err arm retries with another fallible I/O operation (itself subject to R1).  Listed sites only
            # (confirmed by reading): "some fallible call follows" would also accept carrying on as if nothing had failed.
            if body.id in FALLBACK_SITES and is_io_result(body.place_ty(tt["dest"])) and not c.endswith("::from_residual"):
                esc.add(b)
            # the error payload moved into a non-formatting call / channel / constructor
            for a in tt["args"]:
                if a["k"] == "move" and a["pl"]["l"] == local and "@Err" in (a["pl"].get("p") or []):
                    esc.add(b)
        for st in body.stmts(b):
            if st["k"] == "assign" and st["rv"]["k"] in ("use", "agg"):
                ops = st["rv"].get("ops", []) + ([st["rv"]["op"]] if "op" in st["rv"] else [])
                for o in ops:
                    if o["k"] == "move" and o["pl"]["l"] == local and "@Err" in (o["pl"].get("p") or []):
                        # follow one step: the moved error must end up somewhere other than a drop
                        dl = st["pl"]["l"]
                        if st["pl"].get("p") or dl == 0:
                            esc.add(b)
                        else:
                            esc.add(("local", dl))
    # locals that received the error payload: escalation if they are later moved into _0 / a call / an aggregate
    moved = {x[1] for x in esc if isinstance(x, tuple)}
    esc = {x for x in esc if not isinstance(x, tuple)}
    for b in range(body.n):
        tt = body.term(b)
        if tt["k"] == "call":
            c = tt.get("callee") or ""
            fmt = "fmt::" in c or c.endswith("_print") or "Argument" in c
            for a in tt["args"]:
                if a["k"] in ("move",) and not a["pl"].get("p") and a["pl"]["l"] in moved and not fmt:
                    esc.add(b)
        for st in body.stmts(b):
            if st["k"] == "assign" and st["rv"]["k"] in ("use", "agg"):
                ops = st["rv"].get("ops", []) + ([st["rv"]["op"]] if "op" in st["rv"] else [])
                for o in ops:
                    if o["k"] == "move" and not o["pl"].get("p") and o["pl"]["l"] in moved:
                        if st["pl"].get("p") or st["pl"]["l"] == 0 or st["rv"]["k"] == "agg":
                            esc.add(b)
                        else:
                            moved.add(st["pl"]["l"])
    rets = set(body.return_blocks())
    rem = {b for b in range(body.n) if body.is_cleanup(b)} | esc
    reach = body.reachable([e for e in err_edges if e not in esc], rem)
    if reach & rets:
        # classification by kind: `Err(e) if e.kind() == <one kind> => <not an error here>, Err(e) => <escalate>`.  The Err
        # arm asks io::Error::kind() of THIS error and branches on it; one side of that branch escalates on every path.
        for kb in sorted(reach):
            tk = body.term(kb)
            if tk["k"] != "call" or (tk.get("callee") or "") != "std::io::error::Error::kind" or not tk["args"]:
                continue
            if not any(("@Err" in "".join(str(x) for x in (st["rv"].get("pl", {}) or {}).get("p", []))) and st["rv"].get("pl", {}).get("l") == local for bb2 in reach for st in body.stmts(bb2) if st["k"] == "assign" and st["rv"]["k"] == "ref"):
                continue
            for sb in sorted(reach):
                ts = body.term(sb)
                if ts["k"] != "switch":
                    continue
                if not any(r.kind == "call" and r.bb == kb for r in _deep_call_roots(body, ts["d"])):
                    continue
                sides = body.succ(sb)
                esc_sides = [x for x in sides if x in esc or not (body.reachable([x], rem) & rets)]
                if esc_sides and len(esc_sides) < len(sides):
                    return True, "error classified by kind at %s: one kind is handled as a non-error, every other error escalates" % tk.get("ln")
        return False, "a path from the Err arm reaches the end of the function"
    return True, "Err arm escalates"


def _deep_call_roots(body, op, depth=0):
    """call roots of a value, looking through comparison calls (`PartialEq::eq(&kind, &CONST)`) and discriminant reads"""
    out = []
    if depth > 3:
        return out
    for r in trace(body, op):
        if r.kind == "call":
            out.append(r)
            if r.obj is not None and (str(r.what).endswith("::eq") or str(r.what).endswith("::ne")):
                for a in r.obj.get("args", []):
                    out.extend(_deep_call_roots(body, a, depth + 1))
    return out


def consumption(body, ui, local, fields=(), seen=None, depth=0):
    """Is the value held in `local` (optionally its sub-place `fields`) consumed by an accepted idiom?
    returns (consumed: bool, reasons: [str], discards: [str])"""
    if seen is None:
        seen = set()
    key = (local, tuple(fields))
    if key in seen or depth > 12:
        return False, [], []
    seen.add(key)
    reasons = []
    discards = []
    consumed = False
    for (kind, b, i, pl, dest, obj) in ui.of(local):
        pf = fields_of(pl)
        # the use must touch the tracked sub-place (prefix relation either way)
        n = min(len(pf), len(fields))
        if tuple(pf[:n]) != tuple(fields[:n]):
            continue
        if kind in ("assign", "ref", "agg", "binop") and any(e.startswith("@") for e in (pl.get("p") or [])) and not fields:
            # extraction of the Ok / Err payload happens after the match on the discriminant; what counts
            # is what that match does on its Err arm (judged at the `discr` use)
            continue
        if kind == "arg":
            callee = obj.get("callee") or "<fnptr>"
            if callee in DISCARDERS and i == 0:
                if callee in OUTCOME_TESTS:
                    # outcome observed if the boolean feeds a branch or is returned/stored
                    d = obj["dest"]
                    if not d.get("p"):
                        c2, r2, d2 = consumption(body, ui, d["l"], (), seen, depth + 1)
                        if c2:
                            consumed = True
                            reasons.append("outcome of %s observed (%s)" % (DISCARDERS[callee], "; ".join(r2[:2])))
                            continue
                discards.append("%s at %s" % (DISCARDERS[callee], obj.get("ln")))
                continue
            if callee.endswith("::deref") or callee.endswith("::as_ref") or callee.endswith("::as_mut") or callee.endswith("::by_ref") or callee.endswith("::borrow"):
                d = obj["dest"]
                if not d.get("p"):
                    c2, r2, d2 = consumption(body, ui, d["l"], (), seen, depth + 1)
                    consumed = consumed or c2
                    reasons += r2
                    discards += d2
                    continue
            consumed = True
            reasons.append("passed to %s at %s" % (callee, obj.get("ln")))
        elif kind == "assign":
            if dest["l"] == 0 or dest.get("p"):
                consumed = True
                reasons.append("returned/stored at %s" % obj.get("ln"))
            else:
                rest = tuple(fields[len(pf):]) if len(fields) > len(pf) else ()
                c2, r2, d2 = consumption(body, ui, dest["l"], rest, seen, depth + 1)
                consumed = consumed or c2
                reasons += r2
                discards += d2
        elif kind == "ref":
            if dest.get("p") or dest["l"] == 0:
                consumed = True
                reasons.append("reference stored at %s" % obj.get("ln"))
            else:
                c2, r2, d2 = consumption(body, ui, dest["l"], (), seen, depth + 1)
                consumed = consumed or c2
                reasons += r2
                discards += d2
        elif kind == "discr":
            # scrutinised if the discriminant feeds a switch
            dl = dest["l"]
            sws = [u for u in ui.of(dl) if u[0] == "switch"]
            if sws:
                ok_arm, why = err_arm_escalates(body, sws[0][1], local, pl)
                if ok_arm:
                    consumed = True
                    reasons.append("matched at %s (%s)" % (obj.get("ln"), why))
                else:
                    discards.append("match at %s whose Err arm neither returns an error, panics, poisons nor hands the error on (%s)" % (obj.get("ln"), why))
        elif kind == "agg":
            consumed = True
            reasons.append("moved into aggregate at %s" % obj.get("ln"))
        elif kind == "switch":
            consumed = True
            reasons.append("branched on")
        elif kind == "binop":
            consumed = True
            reasons.append("compared")
        elif kind == "drop":
            pass
    return consumed, reasons, discards


def r1_no_dropped_results(facts, rep):
    n_sites = 0
    for body in facts.bodies.values():
        if body.crate != "nomt":
            continue
        ui = None
        for b, t in body.calls():
            if body.is_cleanup(b):
                continue
            d = t["dest"]
            ty = body.place_ty(d)
            if not is_io_result(ty):
                continue
            if t.get("exp", "").startswith("macro:") and body.derived:
                continue
            n_sites += 1
            if ui is None:
                ui = UseIndex(body)
            callee = t.get("callee") or "<fnptr>"
            short = body.id.split("::", 1)[1] if "::" in body.id else body.id
            if d.get("p") or d["l"] == 0:
                rep.ok("R1", short, "call=%s" % callee)
                continue
            c, reasons, discards = consumption(body, ui, d["l"])
            # ordinal among identical callees in this function, for a stable key
            inst = "call=%s" % callee
            if c:
                rep.ok("R1", short, inst, detail=("%s -> %s" % (t.get("ln"), "; ".join(reasons[:2]))) if n_sites % 40 == 1 else None)
            else:
                how = ("discarded by " + ", ".join(discards)) if discards else "never used (dropped)"
                rep.violation(
                    "R1", short, inst,
                    "I/O-carrying result of %s (%s) is %s: a failure here is swallowed" % (callee, ty, how),
                    site=t.get("ln"),
                )
    rep.call_sites += n_sites
    return n_sites


COMPLETE_IO = "nomt::io::CompleteIo"


def _overwritten_unchecked(body, ui, d, def_bb, def_idx, depth=0):
    """the local `d`, assigned at (def_bb, def_idx), can be assigned again (there or elsewhere) before anything looked at it"""
    uses = []
    landing = set()
    for (kind, ub, ix, _pl, _dest, _obj) in ui.of(d):
        if kind == "drop":
            continue
        uses.append((ub, len(body.stmts(ub)) if kind in ("arg", "switch") else ix))
        if kind == "assign" and not _pl.get("p") and _dest is not None and not _dest.get("p") and _dest["l"] != 0 and depth < 3 and _dest["l"] != d:
            # moved on whole (`io_result = move tmp`): the question is asked of the place it lands in
            if _overwritten_unchecked(body, ui, _dest["l"], ub, ix, depth + 1):
                return True
            landing.add(_dest["l"])
    if any(ub == def_bb and ix > def_idx for (ub, ix) in uses):
        return False  # looked at right after it was assigned
    use_blocks = {ub for (ub, _ix) in uses}
    # a test of the variable the value would land in (`if first.is_ok() { first = r }`) counts: on the edge that skips the
    # move an earlier error is already held
    seen_l, work = set(), list(landing)
    while work:
        l2 = work.pop()
        if l2 in seen_l or len(seen_l) > 6:
            continue
        seen_l.add(l2)
        for (kind, ub, _ix, _pl, _dest, _obj) in ui.of(l2):
            if kind == "drop":
                continue
            use_blocks.add(ub)
            if kind == "assign" and not _pl.get("p") and _dest is not None and not _dest.get("p") and _dest["l"] != 0:
                work.append(_dest["l"])
    def_blocks = {x[0] for x in body.defs().get(d, [])} - use_blocks
    if def_bb in use_blocks:
        def_blocks.discard(def_bb)  # re-entering the block looks at the old value before it is replaced
    else:
        def_blocks.add(def_bb)
    reach = body.reachable(body.succ(def_bb), set(body.ok_removed()) | use_blocks)
    return bool(reach & def_blocks)


def r2_completions_checked(facts, rep):
    """every CompleteIo value has its `.result` read and consumed on every success path, or the
    whole value is handed on."""
    n = 0
    for body in facts.bodies.values():
        if body.crate != "nomt":
            continue
        cio_locals = [l for l in range(len(body.locals)) if body.local_ty(l) == COMPLETE_IO]
        if not cio_locals:
            continue
        ui = UseIndex(body)
        short = body.id.split("::", 1)[1]
        for l in cio_locals:
            defs = body.defs().get(l, [])
            if 1 <= l <= body.argc:
                defs = defs + [(0, -1, "param", None)]
            if not defs:
                continue
            # check blocks: read of .result (consumed per R1) or transfer of the whole value
            check_pos = []  # (bb, idx)
            whole_transfer = False
            for (kind, b, i, pl, dest, obj) in ui.of(l):
                pf = fields_of(pl)
                if pf[:1] == ("result",):
                    ok = False
                    if kind in ("assign", "ref") and dest is not None and not dest.get("p") and dest["l"] != 0:
                        c, _r, _d = consumption(body, ui, dest["l"])
                        ok = c
                        if ok and kind == "assign" and _overwritten_unchecked(body, ui, dest["l"], b, i):
                            # `last = recv().result` in a loop, looked at after the loop: only the last result counts
                            ok = False
                    elif kind in ("arg",):
                        callee = obj.get("callee") or ""
                        ok = callee not in DISCARDERS
                    elif kind == "discr":
                        ok = any(u[0] == "switch" for u in ui.of(dest["l"]))
                    else:
                        ok = kind in ("assign", "agg")
                    if ok:
                        idx = i if kind != "arg" else len(body.stmts(b))
                        check_pos.append((b, idx))
                elif not pf and kind in ("arg", "agg") or (not pf and kind == "assign" and (dest["l"] == 0 or dest.get("p"))):
                    if kind == "arg" and (obj.get("callee") or "") in DISCARDERS:
                        continue
                    idx = i if kind != "arg" else len(body.stmts(b))
                    check_pos.append((b, idx))
                    whole_transfer = True
                elif not pf and kind == "assign" and not dest.get("p"):
                    # moved to another CompleteIo local: that local is analysed on its own
                    if body.local_ty(dest["l"]) == COMPLETE_IO:
                        check_pos.append((b, i))
            for (db, di, dk, dobj) in defs:
                n += 1
                inst = "completion=%s" % (body.local_name(l) or "tmp")
                site = (dobj or {}).get("ln") if dobj else body.span
                # same-block later check?
                ok = any(cb == db and ci > di for (cb, ci) in check_pos)
                if not ok:
                    removed = set(body.ok_removed()) | {cb for (cb, ci) in check_pos}
                    if dk == "call":
                        starts = [dobj["t"]] if "t" in dobj else []
                    elif dk == "param":
                        starts = [0] if 0 not in {cb for (cb, ci) in check_pos} else []
                    else:
                        starts = body.succ(db)
                    reach = body.reachable(starts, removed)
                    bad = [r for r in reach if body.term(r)["k"] == "return"] + ([db] if db in reach and dk != "param" else [])
                    ok = not bad
                rep.check(
                    ok, "R2", short, inst,
                    "a CompleteIo obtained at %s can reach a success exit (or be overwritten) without its `.result` being checked: a failed page I/O is swallowed" % site,
                    site=site,
                    detail="CompleteIo at %s: .result checked/transferred at %s on every success path" % (site, sorted(set(check_pos))[:4]),
                )
    return n


def r3_tasks_joined(facts, rep, st):
    """each spawn_task channel has a join_task on the paired receiver (channel identity = the
    crossbeam constructor call both halves come from, followed through fields, captures, parameters
    and returns), and a join whose task result is fallible is consumed (R1 covers the latter)."""
    n = 0
    for sp in st.spawns:
        n += 1
        body = sp["body"]
        short = body.id.split("::", 1)[1]
        t = sp["term"]
        if not sp["chan"]:
            rep.violation("R3", short, "spawn_task|unidentified-channel", "cannot identify the channel of the task spawned at %s (fail closed)" % t.get("ln"), site=t.get("ln"))
            continue
        js = st.joins_of(sp["chan"])
        rep.check(
            bool(js), "R3", short, "spawn_task",
            "the task spawned at %s has no join_task on the paired receiver: its result (and any I/O error or panic in it) is never looked at" % t.get("ln"),
            site=t.get("ln"),
            detail="spawn at %s (task %s) on channel created at %s; joined at %s" % (t.get("ln"), sp["task"], sorted(sp["chan"]), [j["term"].get("ln") for j in js]),
        )
    for j in st.joins:
        if not j["chan"]:
            rep.violation("R3", j["body"].id.split("::", 1)[1], "join_task|unidentified-channel", "cannot identify the channel joined at %s (fail closed)" % j["term"].get("ln"), site=j["term"].get("ln"))
    return n, len(st.joins)


POISON_FIELD = "poisoned"
_facts_for_poison = [None]
_depth = [0]
POISON_FNS = set()  # functions verified (on every run) to store `true` into the poisoned flag on all paths


def find_poison_fns(facts):
    POISON_FNS.clear()
    _facts_for_poison[0] = facts
    # functions of the store that set the flag on every path (fixpoint: `Store::poison` may delegate to `Shared::poison`)
    cands = [i for i, b in facts.bodies.items() if b.crate == "nomt" and "::store::" in i and b.kind != "Closure" and b.n <= 40 and "::tests::" not in i]
    changed = True
    while changed:
        changed = False
        for cand in cands:
            if cand in POISON_FNS:
                continue
            body = facts.bodies[cand]
            pb = _poison_blocks(body)
            rets = body.return_blocks()
            if pb and rets and all(any(body.dominates(p, r) for p in pb) for r in rets):
                POISON_FNS.add(cand)
                changed = True


def _poison_blocks(body):
    out = set()
    for b, t in body.calls():
        c = t.get("callee") or ""
        if c.endswith("::store") and "atomic" in c and t["args"]:
            import guardfx as _g

            if any(_g.poison_fields(_facts_for_poison[0]) & set(r.fields) for r in trace(body, t["args"][0])):
                # and the stored value is constant true
                v = t["args"][1]
                if v["k"] == "const" and v.get("int") == "1":
                    out.add(b)
        if c in POISON_FNS:
            out.add(b)
        # `fallible(..).map_err(|e| { poison(); e })`: the Err value passes through a closure that always poisons
        if _facts_for_poison[0] is not None and c.rsplit("::", 1)[-1] in ("map_err", "or_else", "inspect_err") and c.startswith("core::result::Result") and len(t["args"]) >= 2 and _depth[0] < 2:
            facts = _facts_for_poison[0]
            for r in trace(body, t["args"][1]):
                if r.kind == "agg" and r.obj is not None and r.obj.get("ak") == "closure" and r.obj.get("name") in facts.bodies:
                    cb = facts.bodies[r.obj["name"]]
                    _depth[0] += 1
                    try:
                        cpb = _poison_blocks(cb)
                    finally:
                        _depth[0] -= 1
                    rets = cb.return_blocks()
                    if cpb and rets and all(any(cb.dominates(p, x) for p in cpb) for x in rets):
                        out.add(b)
    return out


def self_poisoning(facts, fn_id):
    """every Err return of fn reachable from its first effect call passes a poison block."""
    body = facts.bodies.get(fn_id)
    if body is None:
        return False
    pb = _poison_blocks(body)
    if not pb:
        return False
    import guardfx

    effs = [b for (n, b, i, s) in guardfx.find_effects(body) if n != "Store::poison" and b not in pb]
    if not effs:
        return False
    # from each effect call's successors (normal edges), reach an error block without passing a poison block?
    rets = set(body.return_blocks())
    errb = body.err_blocks()
    for e in effs:
        reach = body.reachable(body.succ(e), removed=pb)
        # an error exit: a reachable err block from which return is reachable w/o poison
        for r in reach:
            if r in errb:
                return False
    return True


def poison_propagating(facts, fn_id, selfp, depth=0):
    """a thin wrapper whose only sources of errors are self-poisoning callees: every I/O-carrying Result produced in it
    comes from such a callee (or from another wrapper of the same kind) or is std plumbing, and it builds no error of its own"""
    body = facts.bodies.get(fn_id)
    if body is None or body.crate != "nomt" or depth > 3:
        return False
    n_sp = 0
    for b, t in body.calls():
        if body.is_cleanup(b):
            continue
        c = t.get("callee") or ""
        if c.endswith("::from_residual") or c.endswith("Try>::branch") or c.endswith("::into") or c.endswith("From>::from"):
            continue
        if "anyhow" in c and ("format_err" in c or c.endswith("::msg") or c.endswith("::new") or "Error::construct" in c):
            return False  # builds an error of its own
        if not is_io_result(body.place_ty(t["dest"])):
            continue
        if c in selfp or poison_propagating(facts, c, selfp, depth + 1):
            n_sp += 1
            continue
        if (c.startswith("nomt::") or c.startswith("<nomt::")) and not may_return_err(facts, c):
            continue
        return False
    for b in range(body.n):
        if body.is_cleanup(b):
            continue
        for st in body.stmts(b):
            if st["k"] == "assign" and st["rv"]["k"] == "agg" and st["rv"].get("variant") == "Err" and st["rv"].get("name", "").endswith("Result"):
                return False
    return n_sp > 0


def may_return_err(facts, fn_id):
    body = facts.bodies.get(fn_id)
    if body is None:
        return True
    for b in range(body.n):
        if body.is_cleanup(b):
            continue
        t = body.term(b)
        if t["k"] == "call":
            if (t.get("callee") or "").endswith("::from_residual"):
                return True
            d = t["dest"]
            if d["l"] == 0 and not d.get("p") and is_io_result(body.place_ty(d)):
                return True
        for s in body.stmts(b):
            if s["k"] == "assign" and s["pl"]["l"] == 0 and not s["pl"].get("p"):
                rv = s["rv"]
                if rv["k"] == "agg" and rv.get("name") == "core::result::Result" and rv.get("variant") == "Err":
                    return True
                if rv["k"] == "use" and rv["op"]["k"] in ("copy", "move"):
                    return True  # returns a Result built elsewhere: assume fallible
    return False


def r4_error_exits_poison(facts, rep):
    import guardfx

    ENTRY = [
        "nomt::FinishedSession::commit",
        "nomt::FinishedSession::try_commit_nonblocking",
        "nomt::overlay::Overlay::commit",
        "nomt::overlay::Overlay::try_commit_nonblocking",
        "nomt::Nomt::rollback",
    ]
    n = 0
    find_poison_fns(facts)
    sp = self_poisoning(facts, "nomt::store::Store::commit")
    rep.check(
        sp, "R4", "store::Store::commit", "self-poisoning",
        "Store::commit has an error return after Sync::sync was started that does not set the poisoned flag",
        site=facts.body("nomt::store::Store::commit").span,
        detail="every error block reachable after the Sync::sync call passes poisoned.store(true)",
    )
    selfp = {"nomt::store::Store::commit"} if sp else set()
    # FinishedSession::commit is self-poisoning if all its own error exits poison (checked recursively below)
    results = {}
    for fn in ENTRY:
        body = facts.body(fn)
        short = fn.split("::", 1)[1]
        extra = guardfx.ROLLBACK_EXTRA if fn == "nomt::Nomt::rollback" else None
        effects = guardfx.find_effects(body, extra)
        eff_blocks = sorted({b for (nme, b, i, s) in effects})
        pb = _poison_blocks(body)
        ui = UseIndex(body)
        all_ok = True
        for b, t in body.calls():
            if body.is_cleanup(b):
                continue
            ty = body.place_ty(t["dest"])
            if not is_io_result(ty):
                continue
            callee = t.get("callee") or ""
            if callee.endswith("::from_residual") or callee.endswith("::branch") or not (callee.startswith("nomt::") or callee.startswith("<nomt::")):
                continue  # plumbing / std helpers: the fallible operation is the repo call that produced the value
            # is this call at or after an effect?   (the call itself may be the first effect)
            # is this call an effect itself, or at/after an effect?  (an I/O failure inside the first
            # effect - e.g. a half-written rollback record - must poison just the same)
            after = (b in eff_blocks) or any(b in body.reachable(body.succ(e)) for e in eff_blocks if e != b)
            if not after:
                continue
            n += 1
            inst = "fallible=%s" % callee
            if not may_return_err(facts, callee):
                rep.ok("R4", short, inst, detail="%s never constructs an Err (no `?`, no Err(..), no fallible tail call)" % callee)
                continue
            if callee in selfp or callee in ENTRY:
                rep.ok("R4", short, inst, detail="%s at %s is self-poisoning%s" % (callee, t.get("ln"), " (judged on its own row)" if callee in ENTRY else ""))
                continue
            if poison_propagating(facts, callee, selfp):
                rep.ok("R4", short, inst, detail="%s at %s only forwards the errors of self-poisoning callees" % (callee, t.get("ln")))
                continue
            # failure edge: error blocks reachable from the call's successor chain that consume this result
            # approximated as: error blocks reachable from the call target without passing another call that is an effect
            d = t["dest"]
            err_reached = []
            if "t" in t:
                reach = body.reachable([t["t"]], removed=pb)
                for r in reach:
                    if r in body.err_blocks():
                        # the residual must derive from this call's result
                        tt = body.term(r)
                        derived = False
                        if tt["k"] == "call" and tt["args"]:
                            for rr in trace(body, tt["args"][0]):
                                if rr.kind in ("call", "via") and rr.bb == b:
                                    derived = True
                        for s in body.stmts(r):
                            if s["k"] == "assign" and s["pl"]["l"] == 0 and s["rv"]["k"] == "agg":
                                for o in s["rv"]["ops"]:
                                    for rr in trace(body, o):
                                        if rr.kind in ("call", "via") and rr.bb == b:
                                            derived = True
                        if derived:
                            err_reached.append(r)
                # tail call: result returned directly
                for (kind, ub, ui_i, pl, dest, obj) in ui.of(d["l"]) if not d.get("p") else []:
                    if kind == "assign" and dest["l"] == 0:
                        err_reached.append(ub)
            if d["l"] == 0 and not d.get("p"):
                err_reached.append(b)
            ok = not err_reached
            all_ok = all_ok and ok
            rep.check(
                ok, "R4", short, inst,
                "the failure of %s (at %s) returns an error after an effect (%s) without poisoning the store: the handle keeps accepting commits on a state that no longer matches" % (callee, t.get("ln"), ", ".join(sorted({nme for (nme, bb, i, s) in effects if bb in eff_blocks})[:4])),
                site=t.get("ln"),
                detail="failure edge of %s at %s passes a poisoning site" % (callee, t.get("ln")),
            )
        results[fn] = all_ok
    return n


def r6_completion_source(facts, rep):
    """the I/O back-end reports `Ok(())` for a completion only on the arm where IoKind::get_result classified the
    syscall result as IoKindResult::Ok, and an Err on the IoKindResult::Err arm: a failed page I/O cannot be
    turned into a success where completions are produced."""
    n = 0
    adt = facts.adts.get("nomt::io::IoKindResult")
    if adt is None:
        raise CheckBroken("ANCHOR-MISSING type nomt::io::IoKindResult")
    vidx = {v["name"]: str(i) for i, v in enumerate(adt["variants"])}
    producers = []
    for body in facts.bodies.values():
        if body.crate != "nomt" or "::tests::" in body.id:
            continue
        for b in range(body.n):
            for s in body.stmts(b):
                if s["k"] == "assign" and s["rv"]["k"] == "agg" and s["rv"].get("name") == "nomt::io::CompleteIo":
                    producers.append((body, b, s))
    rep.floor("R6 CompleteIo construction sites", len(producers), 1)
    for (body, b, s) in producers:
        short = body.id.split("::", 1)[1]
        fl = s["rv"]["fields"]
        op = s["rv"]["ops"][fl.index("result")]
        oks, errs = [], []
        for r in trace(body, op):
            if r.kind == "agg" and str(r.what) == "core::result::Result::Ok":
                oks.append(r.bb)
            elif r.kind == "agg" and str(r.what) == "core::result::Result::Err":
                errs.append(r.bb)
        # the classification switch
        sws = []
        for sb in range(body.n):
            t = body.term(sb)
            if t["k"] == "switch" and any(r.kind == "call" and r.what.endswith("IoKind::get_result") and "<discr>" in r.fields for r in trace(body, t["d"])):
                sws.append((sb, t))
        n += 1
        if not rep.check(len(sws) == 1 and bool(oks), "R6", short, "classified-by-get_result", "the completion result built at %s is not derived from a match on IoKind::get_result" % s.get("ln"), site=s.get("ln"), detail="match on get_result at bb%s" % [x[0] for x in sws]):
            continue
        (sb, t) = sws[0]
        edge = {v: tb for (v, tb) in t["vals"]}
        ok_t = edge.get(vidx.get("Ok"))
        err_t = edge.get(vidx.get("Err"))
        for ob in oks:
            n += 1
            # dominance by the Ok arm's first block: every path that builds this Ok(()) took the Ok arm
            ok = ok_t is not None and ok_t != t["else"] and list(edge.values()).count(ok_t) == 1 and body.dominates(ok_t, ob)
            rep.check(ok, "R6", short, "Ok-only-on-Ok-arm", "a completion is reported as Ok(()) at a point that is not confined to the IoKindResult::Ok arm: a failed or short page I/O would be reported as success", site=s.get("ln"), detail="Ok(()) built only on the IoKindResult::Ok arm")
        n += 1
        ok = err_t is not None and any(body.dominates(err_t, eb) for eb in errs)
        rep.check(ok, "R6", short, "Err-on-Err-arm", "the IoKindResult::Err arm does not produce an Err completion", site=s.get("ln"), detail="Err(os error) built on the IoKindResult::Err arm")
    return n


def r6b_classifier(facts, rep):
    """IoKind::get_result classifies a syscall result as Ok only for `res == PAGE_SIZE`, or `res == 0` for a read (end of
    file): decided by ENUMERATION.  The function touches `res` only through comparisons with constants, so it is
    interpreted (rules/minterp.py) for every variant of IoKind and for the constants it compares with, their neighbours and
    extreme values; unknown values (errno) make a branch go both ways.  A negative or short result can never be `Ok`."""
    import minterp

    body = facts.bodies.get("nomt::io::IoKind::get_result")
    if body is None:
        raise CheckBroken("ANCHOR-MISSING function nomt::io::IoKind::get_result")
    adt = facts.adts.get("nomt::io::IoKind")
    if adt is None:
        raise CheckBroken("ANCHOR-MISSING type nomt::io::IoKind")
    short = "io::IoKind::get_result"
    # the page size, read off the constant operands of the function
    consts = set()
    page = None
    for b in range(body.n):
        for st in body.stmts(b):
            if st["k"] != "assign":
                continue
            rv = st["rv"]
            for key in ("op", "a", "b"):
                o = rv.get(key)
                if isinstance(o, dict) and o.get("k") == "const" and o.get("int") is not None:
                    v = minterp._wrap(int(o["int"]), o.get("ty", ""))
                    consts.add(v)
                    if "PAGE_SIZE" in (o.get("s") or "") or "PAGE_SIZE" in (o.get("uneval") or ""):
                        page = v
    if page is None:
        # not mentioned in the classifier (any more): take the crate's constant from wherever it is used
        for ob in facts.bodies.values():
            if ob.crate != "nomt" or page is not None:
                continue
            for b in range(ob.n):
                for st in ob.stmts(b):
                    if st["k"] == "assign":
                        for key in ("op", "a", "b"):
                            o = st["rv"].get(key)
                            if isinstance(o, dict) and o.get("k") == "const" and o.get("int") is not None and (o.get("s") == "nomt::io::PAGE_SIZE" or o.get("uneval") == "nomt::io::PAGE_SIZE"):
                                page = int(o["int"])
    if page is None:
        raise CheckBroken("ANCHOR-MISSING constant nomt::io::PAGE_SIZE")
    values = {-(1 << 63), -(1 << 31), -page, -2, -1, 0, 1, 2, page - 1, page, page + 1, 2 * page, (1 << 31), (1 << 62)}
    for c in consts:
        if isinstance(c, int) and abs(c) < (1 << 62):
            values |= {c - 1, c, c + 1}
    variants = [v["name"] for v in adt["variants"]]
    n = 0
    bad = []
    undecided = []
    ok_seen = 0
    for vi, vn in enumerate(variants):
        for res in sorted(values):
            outs = minterp.run(facts, body, {1: minterp.Variant("nomt::io::IoKind", vn, vi), 2: res})
            n += 1
            names = {o.name for o in outs if isinstance(o, minterp.Variant)}
            if minterp.U in outs or not names:
                undecided.append((vn, res))
                continue
            allowed = res == page or (res == 0 and vn.startswith("Read"))
            if "Ok" in names:
                ok_seen += 1
                if not allowed:
                    bad.append((vn, res))
            elif allowed and names == {"Err"}:
                pass
    if undecided:
        raise CheckBroken("R6: IoKind::get_result could not be evaluated for %s (it no longer is a pure function of comparisons)" % undecided[:3])
    rep.check(not bad, "R6", short, "Ok-needs-exact-length", "IoKind::get_result classifies as Ok a result that is not a full page (nor 0 for a read): %s - a failed or short page I/O would be reported as success" % ", ".join("%s with res=%d" % x for x in bad[:4]), site=body.span, detail="evaluated for %d (variant, res) pairs: Ok only for res == %d, or res == 0 for reads" % (n, page))
    rep.check(ok_seen > 0, "R6", short, "Ok-reachable", "IoKind::get_result never classifies a result as Ok", site=body.span, detail="%d (variant, res) pairs classified Ok" % ok_seen)
    return 2


NEG_ERRNO_SOURCES = ("io_uring::cqueue::Entry::result",)  # return -errno on failure (not -1 + errno)


def r6c_backend_feeds_classifier(facts, rep):
    """the I/O back-end and the classifier compose: for every call of IoKind::get_result whose `res` derives from an io_uring
    completion (`-errno` on failure), the value handed over and the classification it gets are evaluated together for
    representative completion results; a FAILED completion (negative) must be able to end as IoKindResult::Err and must never
    be Ok - it must not be classified Retry unconditionally, which would resubmit the failed command forever (a hang)."""
    import minterp

    gr = facts.bodies.get("nomt::io::IoKind::get_result")
    adt = facts.adts.get("nomt::io::IoKind")
    if gr is None or adt is None:
        raise CheckBroken("ANCHOR-MISSING nomt::io::IoKind::get_result")
    variants = [v["name"] for v in adt["variants"]]
    n = 0
    sites = 0
    for body in facts.bodies.values():
        if body.crate != "nomt" or "::tests::" in body.id:
            continue
        for gb, t in body.calls():
            if t.get("callee") != "nomt::io::IoKind::get_result" or len(t["args"]) < 2:
                continue
            local = [r for r in trace(body, t["args"][1]) if r.kind == "call" and any(str(r.what).endswith(x) for x in NEG_ERRNO_SOURCES)]
            start = None
            if local:
                st = body.term(local[0].bb)
                start = (st["t"], st["dest"]["l"])
            else:
                # the completion result may be handed to a helper (`finish_io(pending, event.result())`): a parameter of this
                # function that every caller fills from the io_uring source
                from core import xtrace

                params = {r.what for r in trace(body, t["args"][1]) if r.kind == "param" and not r.fields}
                for pidx in sorted(params):
                    outer = [r for r in xtrace(facts, body, {"k": "copy", "pl": {"l": pidx}}, depth=3) if r.kind == "call" and r.body != body.id and any(str(r.what).endswith(x) for x in NEG_ERRNO_SOURCES)]
                    if outer:
                        start = (0, pidx)
            if start is None:
                continue
            sites += 1
            short = body.id.split("::", 1)[1]
            bad = []
            for v in (-(1 << 31), -4096, -125, -28, -22, -9, -5, -2, -1):
                args = minterp.eval_at(facts, body, start[0], {start[1]: v}, gb, t["args"][1])
                outcomes = set()
                for a in args:
                    if a is minterp.U or not isinstance(a, int):
                        outcomes.add("?")
                        continue
                    for vi, vn in enumerate(variants):
                        for o in minterp.run(facts, gr, {1: minterp.Variant("nomt::io::IoKind", vn, vi), 2: a}):
                            outcomes.add(o.name if isinstance(o, minterp.Variant) else "?")
                n += 1
                if "?" in outcomes:
                    raise CheckBroken("R6: the value handed to IoKind::get_result in %s could not be evaluated for a completion result of %d" % (body.id, v))
                if "Ok" in outcomes or "Err" not in outcomes:
                    bad.append((v, sorted(outcomes)))
            rep.check(not bad, "R6", short, "failed-completion-can-fail", "a failed io_uring completion is not classified as an error: %s - the command would be reported as success or resubmitted forever (the commit hangs instead of failing)" % ", ".join("result %d -> %s" % x for x in bad[:3]), site=t.get("ln"), detail="completion results < 0 reach get_result as a value it classifies Err (possibly Retry on EINTR), never Ok")
    return sites, n


# ---- R8: the byte count of a partial I/O call is looked at ----------------------------------------------
# `write`, `write_vectored`, `write_at`, `read`, `read_at`.. may transfer FEWER bytes than asked and still return Ok(n): a
# write cut short by a full disk or a file-size limit reports the error only on the next attempt.  A caller that propagates the
# Err with `?` and then ignores n treats a torn record as written - the commit is acknowledged although it failed (C14: "a
# failing operation is reported").  Rule: wherever crate nomt calls one of these, the usize payload of the result reaches a
# comparison, arithmetic, a branch, another call, a stored value or the function's own return value.  (`write_all`,
# `read_exact`, `write_all_at`, `read_exact_at` loop internally and are the normal way; they are not in the set.)
PARTIAL_IO = re.compile(r"(?:^|::|>::)(write|write_vectored|write_at|read|read_vectored|read_at|pwrite|pread|send|recv)$")
PARTIAL_IO_OWNERS = ("std::io::Write", "std::io::Read", "std::os::unix::fs::FileExt", "std::fs::File", "std::io::BufWriter", "std::io::BufReader", "std::io::impls", "std::io::buffered", "std::io::stdio", "std::io::cursor")
UNWRAPPERS = ("::branch", "::unwrap", "::expect", "::unwrap_or", "::unwrap_or_default", "::unwrap_or_else", "::into_inner", "::map", "::and_then", "::from_residual", "::ok", "::ok_or", "::ok_or_else")


def r8_partial_io_counts(facts, rep):
    n = 0
    for body in facts.bodies.values():
        if body.crate != "nomt" or "::tests::" in body.id or "::test::" in body.id or body.derived:
            continue
        sites = []
        for b, t in body.calls():
            if body.is_cleanup(b):
                continue
            c = t.get("callee") or ""
            if not PARTIAL_IO.search(c) or not any(o in c for o in PARTIAL_IO_OWNERS):
                continue
            dty = body.place_ty(t["dest"]) or ""
            if not dty.startswith("core::result::Result<usize"):
                continue
            sites.append((b, t, c))
        if not sites:
            continue
        ui = UseIndex(body)
        for (b, t, c) in sites:
            n += 1
            consumed, escaped = False, False
            seen = set()
            work = [t["dest"]["l"]]
            while work and not consumed:
                l = work.pop()
                if l in seen:
                    continue
                seen.add(l)
                if l == 0:
                    escaped = True  # handed to the caller as this function's result
                    continue
                payload = body.local_ty(l) == "usize"
                for (kind, ub, ui_, pl, dest, obj) in ui.of(l):
                    if kind == "discr" or kind == "drop":
                        continue
                    if kind == "ref":
                        if dest is not None and not dest.get("p"):
                            work.append(dest["l"])
                        continue
                    if kind == "assign":
                        # projections walk towards the payload (`(_r as Continue).0`); the error side is not the count
                        if any(e in ("@Break", "@Err", "@None") for e in (pl.get("p") or [])):
                            continue
                        if dest is not None:
                            if dest.get("p"):
                                consumed = consumed or payload
                            else:
                                work.append(dest["l"])
                        continue
                    if kind == "arg":
                        cc = (obj.get("callee") or "")
                        if any(cc.endswith(u) for u in UNWRAPPERS) and not payload:
                            d = obj.get("dest")
                            if d is not None and not d.get("p"):
                                work.append(d["l"])
                            continue
                        if payload or not cc.startswith("core::"):
                            consumed = True  # the count (or the whole result) is given to other code
                        elif obj.get("dest") is not None and not obj["dest"].get("p"):
                            work.append(obj["dest"]["l"])
                        continue
                    if kind in ("binop", "switch", "agg"):
                        if payload or kind == "agg":
                            consumed = True
                        continue
            short = body.id.split("::", 1)[1]
            m = PARTIAL_IO.search(c).group(1)
            rep.check(consumed or escaped, "R8", short, "partial-io|%s" % m, "the number of bytes transferred by `%s` at %s is never looked at: a short %s (disk full, file-size limit, signal) counts as complete, so a torn record is reported as written" % (m, t.get("ln"), "write" if "w" in m or m == "send" else "read"), site=t.get("ln"), detail="the count returned by %s at %s is %s" % (m, t.get("ln"), "consumed" if consumed else "returned to the caller"))
    n += 1
    rep.ok("R8", "crate nomt", "partial-io-calls", detail="%d call(s) of partial I/O primitives (write / read / write_at / read_at / *_vectored) inspected; everything else uses write_all / read_exact / the I/O pool" % (n - 1))
    return n


# ---- R9: the error convention of a libc call agrees with the test applied to its result -------------
# Most syscall wrappers signal failure with -1 and errno; crate nomt funnels them through `cvt_r`, which tests `== -1`.
# The posix_* / pthread_* families instead RETURN the error number and never -1: funnelled through the -1 test, every
# failure of such a call (disk full or file-size limit while a store file is extended, ..) reads as success and the commit
# goes on - the I/O failure is swallowed.  Rule: the result of a libc function that returns the error number is, by data flow
# through closure returns / helper parameters, tested against 0 or handed to `io::Error::from_raw_os_error`; it is never
# judged only by a comparison with -1, and never unused.
# calls whose failure is an I/O failure of the store (space could not be reserved): a misjudged result is a violation
ERRNO_RETURNING_IO = ("posix_fallocate", "posix_fallocate64")
# same convention, but advisory or unrelated to storage: a misjudged result is recorded as a note only
ERRNO_RETURNING_OTHER = ("posix_fadvise", "posix_fadvise64", "posix_madvise", "posix_memalign", "posix_spawn", "posix_spawnp", "clock_nanosleep", "sigwait", "getlogin_r", "ttyname_r", "ptsname_r")
ERRNO_RETURNING = ERRNO_RETURNING_IO + ERRNO_RETURNING_OTHER
PTHREAD_NOT_ERRNO = ("pthread_self", "pthread_equal", "pthread_getspecific", "pthread_exit", "pthread_testcancel")
MINUS_ONE = (-1, 0xFF, 0xFFFF, 0xFFFFFFFF, 0xFFFFFFFFFFFFFFFF)


def returns_errno(callee):
    if not callee.startswith("libc::"):
        return False
    m = callee.rsplit("::", 1)[-1]
    return m in ERRNO_RETURNING or (m.startswith("pthread_") and m not in PTHREAD_NOT_ERRNO)


def _const_of(op):
    if op.get("k") == "const" and op.get("int") is not None:
        try:
            return int(op["int"])
        except ValueError:
            return None
    return None


def _closure_receivers(facts, closure_id):
    """(caller body, call terminator, parameter index in the callee) for every call that is handed the closure"""
    out = []
    for body in facts.bodies.values():
        if closure_id.rsplit("::{closure", 1)[0] not in body.id and body.id not in closure_id:
            continue
        made = set()
        for b in range(body.n):
            for s in body.stmts(b):
                if s["k"] == "assign" and s["rv"]["k"] == "agg" and s["rv"].get("ak") == "closure" and s["rv"].get("name") == closure_id and not s["pl"].get("p"):
                    made.add(s["pl"]["l"])
        if not made:
            continue
        for b, t in body.calls():
            for ai, a in enumerate(t["args"]):
                if any(r.kind == "agg" and r.obj is not None and r.obj.get("name") == closure_id for r in trace(body, a)):
                    out.append((body, t, ai + 1))
    return out


def judged(facts, body, local, depth=0, seen=None):
    """how an integer result is judged downstream: subset of {zero, minus1, raw_os_error, other, escaped}"""
    if seen is None:
        seen = set()
    tags = set()
    if depth > 4 or (body.id, local) in seen:
        return tags
    seen.add((body.id, local))
    ui = UseIndex(body)
    work, done = [local], set()
    while work:
        l = work.pop()
        if l in done:
            continue
        done.add(l)
        if l == 0:
            # the function's own result: follow it at the callers (or, for a closure, where the closure is invoked)
            if body.kind == "Closure":
                for (cb, ct, pi) in _closure_receivers(facts, body.id):
                    callee = facts.bodies.get(ct.get("callee") or "")
                    if callee is None:
                        tags.add("escaped")
                        continue
                    for b2, t2 in callee.calls():
                        c2 = t2.get("callee") or ""
                        if c2.rsplit("::", 1)[-1] in ("call_mut", "call_once", "call") and t2["args"] and any(r.kind == "param" and r.what == pi for r in trace(callee, t2["args"][0])):
                            d = t2.get("dest")
                            if d is not None and not d.get("p"):
                                tags |= judged(facts, callee, d["l"], depth + 1, seen)
            else:
                found = False
                for ob in facts.bodies.values():
                    if ob.crate != body.crate:
                        continue
                    for b2, t2 in ob.calls():
                        if t2.get("callee") == body.id and not ob.is_cleanup(b2):
                            d = t2.get("dest")
                            if d is not None and not d.get("p"):
                                found = True
                                tags |= judged(facts, ob, d["l"], depth + 1, seen)
                if not found:
                    tags.add("escaped")
            continue
        for (kind, ub, ui_, pl, dest, obj) in ui.of(l):
            if kind in ("drop", "discr"):
                continue
            if kind in ("assign", "ref"):
                if dest is not None and not dest.get("p"):
                    work.append(dest["l"])
                elif dest is not None:
                    tags.add("other")  # stored somewhere
                continue
            if kind == "agg":
                tags.add("other")
                continue
            if kind == "binop":
                rv = obj["rv"]
                if rv["k"] == "bin" and rv.get("op") in ("Eq", "Ne", "Lt", "Le", "Gt", "Ge"):
                    cs = [_const_of(rv["a"]), _const_of(rv["b"])]
                    cs = [c for c in cs if c is not None]
                    if 0 in cs:
                        tags.add("zero")
                    elif any(c in MINUS_ONE for c in cs):
                        tags.add("minus1")
                    else:
                        tags.add("other")
                elif dest is not None and not dest.get("p"):
                    work.append(dest["l"])
                continue
            if kind == "switch":
                vals = [str(v) for (v, _tb) in obj.get("vals", [])]
                if "0" in vals:
                    tags.add("zero")
                elif any(v in ("-1", "4294967295", "18446744073709551615") for v in vals):
                    tags.add("minus1")
                else:
                    tags.add("other")
                continue
            if kind == "arg":
                cc = obj.get("callee") or ""
                if cc.endswith("from_raw_os_error"):
                    tags.add("raw_os_error")
                elif cc in facts.bodies and facts.bodies[cc].crate == body.crate and ui_ >= 0:
                    tags |= judged(facts, facts.bodies[cc], ui_ + 1, depth + 1, seen)
                elif cc.rsplit("::", 1)[-1] in ("is_minus_one",):
                    tags.add("minus1")
                elif cc.startswith(("core::", "std::", "alloc::")) and obj.get("dest") is not None and not obj["dest"].get("p") and cc.rsplit("::", 1)[-1] in ("from", "into", "clone", "try_from", "try_into", "unwrap", "abs", "unsigned_abs", "black_box", "branch"):
                    work.append(obj["dest"]["l"])
                else:
                    tags.add("other")
                continue
    return tags


def r9_errno_convention(facts, rep):
    n = 0
    for body in facts.bodies.values():
        if body.crate != "nomt" or "::tests::" in body.id or body.derived:
            continue
        for b, t in body.calls():
            c = t.get("callee") or ""
            if body.is_cleanup(b) or not returns_errno(c):
                continue
            n += 1
            m = c.rsplit("::", 1)[-1]
            d = t.get("dest")
            tags = judged(facts, body, d["l"]) if d is not None and not d.get("p") else {"other"}
            short = body.id.split("::", 1)[1]
            good = bool(tags & {"zero", "raw_os_error"})
            if good:
                rep.ok("R9", short, "errno-returning|%s" % m, detail="the result of %s at %s is %s" % (m, t.get("ln"), " / ".join(sorted(tags))))
            elif tags & {"escaped", "other"} and "minus1" not in tags:
                rep.notes.append("R9: the result of %s at %s leaves the analysed flow (%s); not decided" % (m, t.get("ln"), ", ".join(sorted(tags))))
            elif m not in ERRNO_RETURNING_IO:
                rep.notes.append("R9: the result of %s at %s (%s) is not tested the way the function reports errors; advisory / not a storage operation, not a violation of this property" % (m, t.get("ln"), ", ".join(sorted(tags)) or "unused"))
            else:
                why = "is judged only by a comparison with -1 (the cvt / cvt_r convention)" if "minus1" in tags else "is never tested"
                rep.violation("R9", short, "errno-returning|%s" % m, "`%s` at %s returns the error NUMBER (never -1), but its result %s: every failure of the call reads as success - an I/O failure is swallowed and the commit goes on" % (m, t.get("ln"), why), site=t.get("ln"))
    n += 1
    rep.ok("R9", "crate nomt", "errno-returning-libc-calls", detail="%d call(s) of libc functions that return the error number (posix_*, pthread_*) inspected" % (n - 1))
    return n
