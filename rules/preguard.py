# G2 (C12, C11): before the refusal guards, the database handle is only locked and read.
#
# guardfx checks a frozen table of effects (rollback-log append, root update, status flip, Store::commit ..) against the
# refusal / deferral guards of the commit entry points.  An effect the table does not know - a cache primed, a staging map
# filled, a counter bumped before the previous-root check - would pass unnoticed.  G2 states the complement in general terms:
#
#   in every commit entry point, on every path from the entry to a refusal guard, an operation that involves the database
#   handle (the `&Nomt<T>` parameter, or anything obtained through it) is
#     - the acquisition of one of its locks, or
#     - a read (field reads through a guard, comparisons, clones, Option / iterator plumbing), or
#     - a call of a function of the crate that is PURE by its summary: it (transitively, depth <= 6) stores through no
#       reference, performs no atomic write, sends on no channel, touches no file and calls no table effect;
#   and no store goes through a reference obtained from the handle.
#
# Operations on the changeset's own data (`self`) are free: they cannot change what the database or later operations see.
from core import trace, CheckBroken
import termination
import guardfx

HANDLE_TY = "nomt::Nomt<"
ENTRY_ROWS = [r for r in guardfx.ROWS if r["fn"] in ("nomt::FinishedSession::commit", "nomt::FinishedSession::try_commit_nonblocking", "nomt::overlay::Overlay::commit", "nomt::overlay::Overlay::try_commit_nonblocking")]

STD_MUTATORS = (
    "store", "swap", "fetch_add", "fetch_sub", "fetch_or", "fetch_and", "fetch_xor", "fetch_max", "fetch_min", "fetch_update", "compare_exchange", "compare_exchange_weak",
    "send", "try_send", "insert", "push", "push_back", "push_front", "pop", "pop_back", "pop_front", "remove", "clear", "take", "replace", "set", "get_or_insert_with", "get_or_insert",
    "put", "pop_lru", "push_lru", "promote", "demote", "resize", "get_or_insert_mut", "try_insert", "swap_remove", "split_off", "dedup",
    "write_all", "write_all_at", "write_at", "set_len", "sync_all", "sync_data", "truncate", "extend", "append", "drain", "retain", "entry", "get_mut", "iter_mut", "as_mut", "deref_mut", "borrow_mut", "lock_arc", "notify_one", "notify_all",
)
# &mut-producing plumbing that is only a read unless something is stored through it (stores are checked separately)
READ_PLUMBING = ("deref_mut", "as_mut", "get_mut", "iter_mut", "borrow_mut")


def _short(c):
    return c.rsplit("::", 1)[-1]


_PURE = {}


def pure(facts, fn_id, depth=0, stack=()):
    """no store through a reference, no atomic write, no send, no file event, no table effect (transitively)"""
    if fn_id in _PURE:
        return _PURE[fn_id]
    body = facts.bodies.get(fn_id)
    if body is None or fn_id in stack:
        return True if body is None and fn_id.startswith(("core::", "alloc::", "std::")) else (fn_id in stack)
    if body.crate not in ("nomt", "nomt_core"):
        return False
    if depth > 6 or body.derived:
        return True  # not followed further: the rule errs on the side of silence (it supplements the effect table)
    ok = True
    for b in range(body.n):
        if body.is_cleanup(b):
            continue
        for s in body.stmts(b):
            if s["k"] == "assign" and "*" in (s["pl"].get("p") or []):
                # a store through a reference: pure only if the reference points into a local of this function
                base = s["pl"]["l"]
                if any(r.kind in ("param", "call", "via", "upvar") for r in trace(body, {"l": base})):
                    ok = False
        t = body.term(b)
        if t["k"] != "call":
            continue
        c = t.get("callee") or ""
        if guardfx_effect(c):
            ok = False
        elif is_lock_acq(c):
            continue
        elif c.startswith("nomt::metrics::") or "::metrics::Metrics::" in c:
            continue  # observability counters are not database state (assumption, listed in evidence)
        elif c not in facts.bodies:
            # a library function: a mutation iff its name says so and it is applied to something that is not a fresh local of
            # this function (`lru.pop_lru()`, `atomic.fetch_add(..)`, `tx.send(..)`, `vec.push(..)` on a field)
            m = _short(c)
            if m in STD_MUTATORS and m not in READ_PLUMBING and t["args"] and not own_local(body, t["args"][0]) and not all(r.kind in ("agg", "const", "local") for r in trace(body, t["args"][0])):
                ok = False
        elif c in facts.bodies:
            if not pure(facts, c, depth + 1, stack + (fn_id,)):
                ok = False
        if not ok:
            break
    _PURE[fn_id] = ok
    return ok


def own_local(body, op):
    """the operand is `&mut <place of a local variable held by value>`: mutating it cannot be seen outside the function"""
    if op.get("k") not in ("copy", "move") or op["pl"].get("p"):
        return False
    ds = body.defs().get(op["pl"]["l"], [])
    if len(ds) != 1 or ds[0][2] != "assign":
        return False
    rv = ds[0][3]["rv"]
    if rv["k"] != "ref":
        return False
    pl = rv["pl"]
    if "*" in (pl.get("p") or []):
        return False
    return not body.local_ty(pl["l"]).startswith(("&", "*"))


def guardfx_effect(c):
    return c in guardfx.EFFECT_CALLS or c in guardfx.ROLLBACK_EXTRA


LOCK_ACQ = ("::lock", "::read", "::write", "::try_lock", "::try_read", "::try_write", "::read_arc", "::write_arc", "::try_write_arc", "::try_read_arc", "::upgradable_read", "::lock_arc", "::try_lock_arc", "::read_recursive")


def is_lock_acq(c):
    return ("lock_api::" in c or "parking_lot::" in c or "std::sync::" in c) and c.endswith(LOCK_ACQ)


def run(facts, rep, prop):
    n = 0
    _PURE.clear()
    for row in ENTRY_ROWS:
        if prop not in row["props"]:
            continue
        body = facts.bodies.get(row["fn"])
        if body is None:
            continue  # guardfx reports the missing anchor
        short = row["fn"].split("::", 1)[1]
        handles = [i for i in range(1, body.argc + 1) if HANDLE_TY in body.local_ty(i)]
        if not handles:
            rep.notes.append("G2: %s has no `&Nomt` parameter any more; not decided" % short)
            continue
        gs = set()
        for gname in row["guards"]:
            try:
                found = guardfx.GUARDS[gname](body, facts) + guardfx.guards_via_helper(body, facts, gname)
            except Exception:
                found = []
            gs |= {sw for (sw, _d, _s) in found}
        if not gs:
            continue  # guardfx reports the missing guards
        # a guard that sits inside a helper (`commit_locked(..)?`): the helper call is the guard, not an operation before it
        guard_calls = {cb for ((fid, sw), (cb, _h)) in guardfx.VIA_HELPER.items() if fid == body.id and sw in gs}
        # blocks from which a refusal guard can still be reached
        preds = body.preds()
        pre, st = set(), list(gs)
        while st:
            x = st.pop()
            if x in pre or body.is_cleanup(x):
                continue
            pre.add(x)
            st.extend(preds[x])

        def from_handle(op):
            return termination.derives_from(body, op, lambda r: r.kind == "param" and r.what in handles)

        for b in sorted(pre):
            for s in body.stmts(b):
                if s["k"] == "assign" and "*" in (s["pl"].get("p") or []) and from_handle({"k": "copy", "pl": {"l": s["pl"]["l"]}}):
                    # a store through a reference obtained from the handle; the table effects are judged by guardfx with the
                    # guard's own dominance rule (a store in the guard's pass arm is fine), so only blocks strictly before
                    # every guard count here
                    if all(body.dominates(b, g) and b != g for g in gs if g in body.reachable([b])) and any(g in body.reachable(body.succ(b)) for g in gs):
                        n += 1
                        rep.check(False, "G2", short, "store-before-guard|%s" % (s["pl"].get("p") or [""])[-1].lstrip("."), "a store through the database handle at %s precedes the refusal guards of %s: a rejected or deferred commit would leave a trace" % (s.get("ln"), short), site=s.get("ln"))
            t = body.term(b)
            if t["k"] != "call":
                continue
            # only calls that complete before a guard is evaluated (the call block strictly precedes a guard block)
            if not any(g in body.reachable(body.succ(b)) for g in gs) or b in guard_calls:
                continue
            c = t.get("callee") or ""
            if not any(from_handle(a) for a in t["args"]):
                continue
            n += 1
            m = _short(c)
            if is_lock_acq(c):
                rep.ok("G2", short, "lock|%s" % m)
                continue
            if guardfx_effect(c):
                continue  # a table effect: guardfx judges it against each guard
            if c in facts.bodies and facts.bodies[c].crate in ("nomt", "nomt_core"):
                ok = pure(facts, c)
                rep.check(ok, "G2", short, "call=%s" % c.split("::", 1)[1], "%s is called on the database handle at %s before the refusal guards of %s and is not pure (it stores through a reference, writes an atomic, sends, touches a file or performs a listed effect): a rejected or deferred commit would leave a trace" % (c, t.get("ln"), short), site=t.get("ln"), detail="%s is pure by summary" % c.split("::", 1)[1])
                continue
            bad = m in STD_MUTATORS and m not in READ_PLUMBING and t["args"] and from_handle(t["args"][0])
            rep.check(not bad, "G2", short, "std=%s" % m, "`%s` mutates a value obtained from the database handle at %s before the refusal guards of %s" % (m, t.get("ln"), short), site=t.get("ln"), detail="%s is a read" % m)
    return n
