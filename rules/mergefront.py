# S2 merge frontier (C11: "a session on a chain of overlays reads, proves and computes roots as if the chain had been
# committed" - the elided-subtree reconstruction in merkle/seek.rs)
#
# `SeekRequest::continue_leaves_fetch` rebuilds the leaves of an elided subtree by merging two sorted sequences: the leaves read
# from the value store (`collected_leaf_data`, walked with an index cursor) and the changes of the overlay chain.  The result is
# handed to `page_walker::reconstruct_pages`.  Necessary condition decided here: EVERY stored leaf is either copied into the
# result or superseded by an overlay entry for the same key - none is skipped.
#
# Method: a forward dataflow over the function's MIR with a small value numbering.  Each `usize` local carries a token (equal
# tokens = provably equal values); the analysis tracks the FRONTIER: the index up to which the stored leaves have been handled
# (copied or superseded).
#   - it starts at 0;
#   - `out.extend_from_slice(&src[a..b])` with a == frontier moves it to b; `&src[a..]` with a == frontier moves it to END;
#   - `cursor += 1` executed at most once per entry of the other sequence, under a branch decided by a value read from `src`,
#     with cursor == frontier is the supersede step: the frontier follows the cursor;
#   - any other change of the cursor (the skip loop) leaves the frontier behind - those leaves must be copied later;
#   - on the edge where `src.is_empty()` holds there is nothing to handle: END;
#   - at a join the frontier survives only if on every incoming path it equals the same local(s).
# The rule holds when on every path to `reconstruct_pages` the frontier is END.  It is a statement about the SHAPE of the merge
# (which ranges are copied on which paths), not about the keys compared; a merge written without an index cursor is not
# decided (note in evidence, nothing reported).
from core import trace, CheckBroken
import termination

FN = "nomt::merkle::seek::SeekRequest::continue_leaves_fetch"
SRC_FIELD = "collected_leaf_data"
CONSUMER = "nomt::merkle::page_walker::reconstruct_pages"
ZERO = ("zero",)
END = ("end",)


def _src_derived(body, op, params=()):
    return termination.derives_from(body, op, lambda r: SRC_FIELD in r.fields or (r.kind == "param" and r.what in params and not r.fields))


def _bare(op):
    """local of an operand that is a whole local"""
    if op.get("k") in ("copy", "move") and not op["pl"].get("p"):
        return op["pl"]["l"]
    return None


class Flow:
    def __init__(self, body, out_local, src_params=()):
        self.body = body
        self.out = out_local
        self.src_params = tuple(src_params)
        self.loops = termination.natural_loops(body)
        self.lost = {}  # block -> explanation, where the frontier could not be kept at a join
        self.copies = []
        self.supersedes = []
        self.skips = []

    def loop_depth(self, b):
        return sum(1 for (h, blk, lat) in self.loops if b in blk)

    def src_guarded(self, b):
        """b is control-dependent on a branch, taken inside the same loop iteration, whose operand is computed from src: a
        switch on a src-derived value dominates b and b is dominated by some but not all of its successors"""
        body = self.body
        inner = None
        for (h, blk, lat) in self.loops:
            if b in blk and (inner is None or len(blk) < len(inner)):
                inner = blk
        for sb in range(body.n):
            t = body.term(sb)
            if t["k"] != "switch" or not body.dominates(sb, b) or sb == b:
                continue
            if inner is not None and sb not in inner:
                continue  # decided once, outside the walk over the other sequence: not a per-entry comparison
            succs = body.succ(sb)
            doms = [s for s in succs if s == b or body.dominates(s, b)]
            if len(doms) >= 1 and len(doms) < len(set(succs)) and _src_derived(body, t["d"], self.src_params):
                return True
        return False

    # ---- transfer ----
    def val_of(self, st, op):
        if op.get("k") == "const":
            if op.get("ty") == "usize" and op.get("int") == "0":
                return ZERO
            return ("const", op.get("s"))
        l = _bare(op)
        if l is not None:
            return st["v"].get(l, ("init", l))
        pl = op.get("pl") or {}
        p = pl.get("p") or []
        base = st["v"].get(pl.get("l"), ("init", pl.get("l")))
        if p == [".0"] and base[0] == "inc":
            return base
        if p == ["*"]:
            return base
        return ("proj", base, tuple(p))

    def step_stmt(self, st, b, i, s):
        if s["k"] != "assign" or s["pl"].get("p"):
            return
        l = s["pl"]["l"]
        rv = s["rv"]
        fresh = ("def", b, i)
        k = rv["k"]
        if k == "use":
            v = self.val_of(st, rv["op"])
            if v[0] == "inc":
                (_i, old, guarded, blk) = v
                src_l = _bare({"k": "copy", "pl": {"l": l}})
                if guarded and old == st["f"]:
                    st["f"] = fresh
                    self.supersedes.append((blk, l))
                else:
                    self.skips.append((blk, l))
                v = fresh
            elif v[0] in ("proj", "init", "const"):
                v = fresh if v[0] != "const" else v
            st["v"][l] = v
        elif k == "ref":
            pl = rv["pl"]
            p = pl.get("p") or []
            if p == ["*"]:
                st["v"][l] = st["v"].get(pl["l"], fresh)  # reborrow
            elif not p and pl["l"] == self.out:
                st["v"][l] = ("out",)
            else:
                st["v"][l] = fresh
        elif k == "bin" and rv["op"] in ("AddWithOverflow", "Add") and rv["b"].get("k") == "const" and rv["b"].get("int") == "1" and _bare(rv["a"]) is not None:
            a = _bare(rv["a"])
            once = self.loop_depth(b) <= self.base_depth
            st["v"][l] = ("inc", st["v"].get(a, ("init", a)), bool(once and self.src_guarded(b)), b)
        elif k == "agg" and rv.get("name", "").startswith("core::ops::range::"):
            st["v"][l] = ("range", rv["name"].rsplit("::", 1)[1], tuple(self.val_of(st, o) for o in rv["ops"]), tuple(rv.get("fields", [])))
        else:
            st["v"][l] = fresh

    def step_term(self, st, b, t):
        """returns {successor: state} overrides for edge-specific facts"""
        body = self.body
        if t["k"] != "call":
            return
        c = t.get("callee") or t.get("orig") or ""
        dest = (t.get("dest") or {}).get("l")
        args = t["args"]
        fresh = ("ret", b)
        if dest is None:
            return
        v = fresh
        short = c.rsplit("::", 1)[-1]
        if short == "index" and len(args) == 2 and _src_derived(body, args[0], self.src_params):
            rng = self.val_of(st, args[1])
            if rng[0] == "range":
                v = ("slice", rng)
        elif short in ("is_empty",) and args and _src_derived(body, args[0], self.src_params):
            v = ("src_is_empty",)
        elif short in ("extend_from_slice", "extend", "append") and len(args) == 2 and self.val_of(st, args[0]) == ("out",):
            sl = self.val_of(st, args[1])
            if sl[0] == "slice":
                (_r, kind, ops, fields) = sl[1]
                f = dict(zip(fields, ops))
                start = f.get("start", ZERO)
                end = f.get("end", END)
                hit = start == st["f"]
                self.copies.append((b, t.get("ln"), kind, hit))
                if hit:
                    st["f"] = end
        elif c.startswith("core::ops::deref::Deref::deref") or short in ("deref", "as_slice", "borrow", "as_ref", "iter", "cloned", "copied", "into_iter", "to_vec"):
            if args:
                a = self.val_of(st, args[0])
                if a[0] == "slice":
                    v = a
        st["v"][dest] = v

    # ---- fixpoint ----
    def run(self, base_depth):
        body = self.body
        self.base_depth = base_depth
        preds = body.preds()
        order = [b for b in range(body.n) if not body.is_cleanup(b)]
        inn = {0: {"v": {}, "f": ZERO}}
        out = {}
        edge = {}
        changed = True
        rounds = 0
        while changed and rounds < 40:
            changed = False
            rounds += 1
            self.copies, self.supersedes, self.skips = [], [], []
            for b in order:
                if b != 0:
                    ins = [(p, edge.get((p, b)) or out.get(p)) for p in preds[b] if not body.is_cleanup(p)]
                    ins = [(p, s) for (p, s) in ins if s is not None]
                    if not ins:
                        continue
                    st = self.join(b, ins)
                else:
                    st = {"v": {}, "f": ZERO}
                if inn.get(b) != st:
                    inn[b] = st
                    changed = True
                cur = {"v": dict(st["v"]), "f": st["f"]}
                for i, s in enumerate(body.stmts(b)):
                    self.step_stmt(cur, b, i, s)
                t = body.term(b)
                self.step_term(cur, b, t)
                if out.get(b) != cur:
                    out[b] = cur
                    changed = True
                # edge facts: `if src.is_empty()`
                if t["k"] == "switch":
                    dv = self.val_of(cur, t["d"])
                    if dv == ("src_is_empty",):
                        for (v, tb) in t["vals"]:
                            if str(v) != "0":
                                edge[(b, tb)] = {"v": dict(cur["v"]), "f": END}
                        if not any(str(v) != "0" for (v, _tb) in t["vals"]):
                            edge[(b, t["else"])] = {"v": dict(cur["v"]), "f": END}
        self.inn, self.out_states = inn, out
        return rounds < 40

    def join(self, b, ins):
        if len(ins) == 1:
            s = ins[0][1]
            return {"v": dict(s["v"]), "f": s["f"]}
        locs = set()
        for (_p, s) in ins:
            locs |= set(s["v"])
        sig = {}
        for l in locs:
            sig[l] = tuple(s["v"].get(l, ("init", l)) for (_p, s) in ins)
        fsig = tuple(s["f"] for (_p, s) in ins)
        groups = {}
        for l, sg in sig.items():
            groups.setdefault(sg, []).append(l)
        v = {}
        for sg, ls in groups.items():
            tok = sg[0] if all(x == sg[0] for x in sg) else ("phi", b, min(ls))
            for l in ls:
                v[l] = tok
        if all(x == fsig[0] for x in fsig):
            f = fsig[0]
            self.lost.pop(b, None)
        elif fsig in groups:
            f = v[groups[fsig][0]]
            self.lost.pop(b, None)
        elif any(x[0] == "lost" for x in fsig):
            f = next(x for x in fsig if x[0] == "lost")
        else:
            f = ("lost", b)
            self.lost[b] = [(p, s["f"]) for (p, s) in ins]
        return {"v": v, "f": f}


def _vec_locals_feeding(body, ops):
    """local Vecs of the function that the operands are (moved from)"""
    outs = set()
    for a in ops:
        l = _bare(a)
        if l is not None and body.local_ty(l).startswith("alloc::vec::Vec<"):
            outs.add(l)
    cand = set()
    for l in outs:
        cur, seen = l, set()
        while cur not in seen:
            seen.add(cur)
            cand.add(cur)
            nxt = None
            for bb in range(body.n):
                for s in body.stmts(bb):
                    if s["k"] == "assign" and not s["pl"].get("p") and s["pl"]["l"] == cur and s["rv"]["k"] == "use":
                        m = _bare(s["rv"]["op"])
                        if m is not None and body.local_ty(m).startswith("alloc::vec::Vec<"):
                            nxt = m
            if nxt is None:
                break
            cur = nxt
    return cand


def _analyse(body, outs, src_params, checkpoints):
    """[(out local, Flow)] for the result vectors into which slices of the stored leaves are copied"""
    res = []
    for out_l in sorted(outs):
        fl = Flow(body, out_l, src_params)
        depths = [fl.loop_depth(bb) for bb in range(body.n) if not body.is_cleanup(bb) for s_ in body.stmts(bb) if s_["k"] == "assign" and s_["rv"]["k"] == "bin" and s_["rv"]["op"] in ("AddWithOverflow", "Add") and s_["rv"]["b"].get("int") == "1" and body.op_ty(s_["rv"]["a"]) == "usize"]
        depths = [d for d in depths if d >= 1]
        if not fl.run(base_depth=min(depths) if depths else 0):
            raise CheckBroken("S2: the frontier analysis of %s did not converge" % body.id)
        if fl.copies:
            res.append((out_l, fl))
    return res


def run(facts, rep):
    n = 0
    body = facts.bodies.get(FN)
    if body is None:
        raise CheckBroken("anchor missing: %s" % FN)
    short = body.id.split("::", 1)[1]
    cons = [(b, t) for b, t in body.calls() if t.get("callee") == CONSUMER and not body.is_cleanup(b)]
    n += 1
    if not rep.check(bool(cons), "S2", short, "hands-leaves-to-reconstruct_pages", "continue_leaves_fetch no longer hands the merged leaves to page_walker::reconstruct_pages", site=body.span, detail="reconstruct_pages(.., final_leaf_data_collection)"):
        return n
    # (1) the merge written in continue_leaves_fetch itself
    outs = set()
    for (_b, t) in cons:
        outs |= _vec_locals_feeding(body, t["args"])
    where = body
    verdicts = _analyse(body, outs, (), [b for (b, _t) in cons])
    checks = [(b, t.get("ln")) for (b, t) in cons]
    if not verdicts:
        # (2) ... or in a helper whose result is handed to reconstruct_pages: the helper is analysed with the parameter that
        # receives the stored leaves as the source and its returned vector as the result
        for (_b, t) in cons:
            for a in t["args"]:
                for r in trace(body, a):
                    if r.kind != "call" or r.obj is None:
                        continue
                    hb = facts.bodies.get(str(r.what))
                    if hb is None or hb.crate != "nomt" or hb.kind == "Closure" or not hb.local_ty(0).startswith("alloc::vec::Vec<"):
                        continue
                    src_params = tuple(i + 1 for i, ca in enumerate(r.obj.get("args", [])) if _src_derived(body, ca))
                    if not src_params:
                        continue
                    rets = hb.return_blocks()
                    houts = _vec_locals_feeding(hb, [{"k": "move", "pl": {"l": 0}}]) - {0}
                    # `_0 = move _out` : find the locals moved into the return place
                    for bb in range(hb.n):
                        for s_ in hb.stmts(bb):
                            if s_["k"] == "assign" and not s_["pl"].get("p") and s_["pl"]["l"] == 0 and s_["rv"]["k"] == "use":
                                m = _bare(s_["rv"]["op"])
                                if m is not None:
                                    houts |= _vec_locals_feeding(hb, [{"k": "move", "pl": {"l": m}}])
                    v = _analyse(hb, houts, src_params, rets)
                    if v:
                        verdicts, where, checks = v, hb, [(rb, hb.span) for rb in rets]
                        short = hb.id.split("::", 1)[1]
    if not verdicts:
        rep.notes.append("S2: the stored leaves are not merged with an index cursor in continue_leaves_fetch or in the helper that builds its result (no `out.extend_from_slice(&src[a..b])`): merge completeness not decided")
        return n
    body = where
    for (out_l, fl) in verdicts:
        n += 1
        rep.ok("S2", short, "copies-stored-leaves", detail="%d slice copies of the stored leaves into the result: %s; supersede steps at bb%s; skip steps at bb%s" % (len(fl.copies), [(ln.rsplit(":", 1)[-1], k) for (_b, ln, k, _h) in fl.copies], sorted({b for (b, _l) in fl.supersedes}), sorted({b for (b, _l) in fl.skips})))
        for (cb, cln) in checks:
            st = fl.inn.get(cb)
            if st is None:
                continue
            n += 1
            f = st["f"]
            if f == END:
                rep.check(True, "S2", short, "every-stored-leaf-handled", "", site=cln, detail="on every path to reconstruct_pages the frontier of handled stored leaves is END")
                continue
            why = "the frontier of copied/superseded leaves is %r where the result is handed on" % (f,)
            if f[0] == "lost":
                jb = f[1]
                ins = fl.lost.get(jb, [])
                cursors = {l for (_b, l) in fl.skips} | {l for (_b, l) in fl.supersedes}
                preds = body.preds()

                def line_of(p):
                    seen = set()
                    while p not in seen:
                        seen.add(p)
                        ln = body.term(p).get("ln") or next((s_.get("ln") for s_ in reversed(body.stmts(p)) if s_.get("ln")), None)
                        if ln:
                            return ln
                        pp = [x for x in preds[p] if not body.is_cleanup(x)]
                        if len(pp) != 1:
                            return None
                        p = pp[0]
                    return None

                behind, fine = [], []
                for (p, pf) in ins:
                    st_p = fl.out_states.get(p) or {"v": {}}
                    (fine if any(st_p["v"].get(l) == pf for l in cursors) else behind).append("bb%d (%s)" % (p, line_of(p)))
                why = "the paths joining at bb%d disagree on how many stored leaves have been handled: arriving from %s the cursor has moved past stored leaves that were not copied into the result (arriving from %s everything below the cursor has been handled)" % (jb, ", ".join(behind) or "?", ", ".join(fine) or "-")
            rep.check(False, "S2", short, "every-stored-leaf-handled", "merging the stored leaves of an elided subtree with the overlay chain can drop stored leaves: %s - the reconstructed pages would not match what a commit of the chain produces" % why, site=cln)
    return n
