# Conditional constant propagation over MIR facts ("which blocks can execute when this argument has this value?").
#
# Used for rules about INTERNAL FLAGS whose representation may change (two bools today, an enum tomorrow): instead of naming
# the fields, the flag value built at one call site is propagated into the callee and the callee's control-flow graph is
# pruned by it; the rule is then stated on what remains executable ("no acquisition of the access lock", "no rollback delta
# builder").  Values: ints/bools, unit enum variants, structs (field -> value), closures, and U (unknown).  References are
# transparent.  Joins of different values give U.  Unknown branch conditions keep every edge.  Nothing is executed.
import minterp
from minterp import U, Variant


class Struct:
    __slots__ = ("adt", "f")

    def __init__(self, adt, f):
        self.adt, self.f = adt, dict(f)

    def __eq__(self, o):
        return isinstance(o, Struct) and self.adt == o.adt and self.f == o.f

    def __hash__(self):
        return hash((self.adt, tuple(sorted((k, repr(v)) for k, v in self.f.items()))))

    def __repr__(self):
        return "%s{%s}" % (self.adt.rsplit("::", 1)[-1], ", ".join("%s: %r" % kv for kv in sorted(self.f.items())))


def join(a, b):
    if a is None:
        return b
    if b is None:
        return a
    if isinstance(a, Struct) and isinstance(b, Struct) and a.adt == b.adt:
        return Struct(a.adt, {k: join(a.f.get(k, U), b.f.get(k, U)) for k in set(a.f) | set(b.f)})
    try:
        return a if a == b else U
    except Exception:
        return U


def project(v, proj):
    for e in proj:
        if e == "*":
            continue
        if e.startswith(".") and isinstance(v, Struct):
            v = v.f.get(e[1:], U)
        else:
            return U
    return v


def read_place(pl, env):
    return project(env.get(pl["l"], U), pl.get("p", ()))


def ev_op(op, env):
    if op is None:
        return U
    if op["k"] == "const":
        if op.get("int") is not None:
            return minterp._wrap(int(op["int"]), op.get("ty", ""))
        if op.get("penum"):
            # a promoted `&Enum::Variant` (the driver says which variant)
            adt, vn = op["penum"]
            names = [v["name"] for v in _ADTS[0].get(adt, {}).get("variants", [])] if _ADTS[0] else []
            return Variant(adt, vn, names.index(vn) if vn in names else None)
        return U
    if op["k"] in ("copy", "move"):
        return read_place(op["pl"], env)
    return U


_ADTS = [None]


def ev_rv(rv, env, facts):
    _ADTS[0] = facts.adts
    k = rv["k"]
    if k == "use":
        return ev_op(rv["op"], env)
    if k == "cast":
        return ev_op(rv["op"], env)
    if k == "ref":
        return read_place(rv["pl"], env)
    if k == "discr":
        v = read_place(rv["pl"], env)
        if isinstance(v, Variant) and v.idx is not None:
            return v.idx
        return U
    if k in ("bin", "un"):
        flat = {l: (v if isinstance(v, (int, bool)) else U) for l, v in env.items()}

        # reuse the scalar evaluator on scalar operands
        def sc(o):
            v = ev_op(o, env)
            return v if isinstance(v, (int, bool)) else U

        if k == "bin":
            a, b = sc(rv["a"]), sc(rv["b"])
            if a is U or b is U:
                return U
            a, b = int(a), int(b)
            table = {"Eq": a == b, "Ne": a != b, "Lt": a < b, "Le": a <= b, "Gt": a > b, "Ge": a >= b, "BitAnd": a & b, "BitOr": a | b, "BitXor": a ^ b}
            return int(table[rv["op"]]) if rv["op"] in table else U
        x = rv.get("a") if isinstance(rv.get("a"), dict) else rv.get("op") if isinstance(rv.get("op"), dict) else None
        a = sc(x) if x is not None else U
        if a is U:
            return U
        if rv.get("op") == "Not" or rv.get("un") == "Not":
            return int(not int(a))
        return U
    if k == "agg":
        ak = rv.get("ak")
        if ak == "adt":
            adt = facts.adts.get(rv.get("name"), {})
            names = [v["name"] for v in adt.get("variants", [])]
            if adt.get("kind") == "Enum" or (rv.get("variant") and len(names) > 1) or rv.get("name") in ("core::result::Result", "core::option::Option"):
                vn = rv.get("variant")
                if not rv.get("ops"):
                    return Variant(rv.get("name"), vn, names.index(vn) if vn in names else None)
                if len(rv.get("ops", [])) == 1 and vn in ("Ok", "Some", "Err"):
                    return Struct("%s::%s" % (rv.get("name"), vn), {"0": ev_op(rv["ops"][0], env)})
                return U
            return Struct(rv.get("name"), {f: ev_op(o, env) for f, o in zip(rv.get("fields", []), rv.get("ops", []))})
        if ak == "closure":
            return ("closure", rv.get("name"))
        return U
    return U


def store(pl, val, env):
    p = [e for e in pl.get("p", ()) if e != "*"]
    l = pl["l"]
    if not p:
        env[l] = val
        return
    if len(p) == 1 and p[0].startswith(".") and isinstance(env.get(l), Struct):
        s = env[l]
        f = dict(s.f)
        f[p[0][1:]] = val
        env[l] = Struct(s.adt, f)
    elif isinstance(env.get(l), Struct) or l in env:
        env[l] = U if len(p) != 1 else env[l]
        if len(p) > 1 and isinstance(env.get(l), Struct):
            # nested store: forget that sub-tree
            s = env[l]
            f = dict(s.f)
            f[p[0][1:]] = U
            env[l] = Struct(s.adt, f)


def _blocks_calls(body, blocks):
    return [(b, body.term(b)) for b in sorted(blocks) if body.term(b)["k"] == "call"]


class Result:
    def __init__(self):
        self.returns = {}  # body id -> values seen at its returns (before joining)
        self.blocks = {}  # body id -> set of executable blocks
        self.edges = {}  # body id -> set of (b, succ)
        self.undecided = []

    def merge(self, o):
        for k, v in o.blocks.items():
            self.blocks.setdefault(k, set()).update(v)
        for k, v in o.edges.items():
            self.edges.setdefault(k, set()).update(v)
        for k, v in o.returns.items():
            self.returns.setdefault(k, []).extend(v)
        self.undecided += o.undecided


def analyse(facts, body, params, depth=0, res=None, stack=()):
    """returns (Result, return value).  params: local -> value"""
    if res is None:
        res = Result()
    entry = {0: dict(params)}
    blocks = set()
    edges = set()
    ret = None
    work = [0]
    iters = 0
    while work:
        iters += 1
        if iters > 6000:
            res.undecided.append(body.id)
            break
        b = work.pop()
        blocks.add(b)
        env = dict(entry.get(b, {}))
        for s in body.stmts(b):
            if s["k"] == "assign":
                store(s["pl"], ev_rv(s["rv"], env, facts), env)
        t = body.term(b)
        k = t["k"]
        succs = []
        if k == "goto":
            succs = [t["t"]]
        elif k == "return":
            res.returns.setdefault(body.id, []).append(env.get(0, U))
            ret = join(ret, env.get(0, U)) if ret is not None else env.get(0, U)
        elif k == "switch":
            d = ev_op(t["d"], env)
            if isinstance(d, (int, bool)):
                nxt = None
                for (val, tb) in t["vals"]:
                    if int(val) == int(d):
                        nxt = tb
                succs = [nxt if nxt is not None else t["else"]]
            else:
                succs = sorted({tb for (_v, tb) in t["vals"]} | {t["else"]})
        elif k == "call":
            callee = t.get("callee") or ""
            args = [ev_op(a, env) for a in t["args"]]
            val = U
            short = callee.rsplit("::", 1)[-1]
            if callee in facts.bodies and facts.bodies[callee].crate in ("nomt", "nomt_core") and depth < 3 and callee not in stack:
                cb = facts.bodies[callee]
                if cb.kind == "Closure":
                    from core import _spread_args

                    sp = _spread_args(body, t)
                    cargs = {i + 1: ev_op(a, env) for i, a in enumerate(sp)} if sp else {}
                else:
                    cargs = {i + 1: a for i, a in enumerate(args)}
                _r, val = analyse(facts, cb, cargs, depth + 1, res, stack + (body.id,))
            elif callee.startswith("core::bool::") and short in ("then", "then_some") and len(args) == 2:
                # bool::then(b, f): f runs only when b is true
                if args[0] == 0:
                    val = U
                else:
                    _invoke(facts, args[1], res, depth, stack + (body.id,))
            else:
                for a in args:
                    _invoke(facts, a, res, depth, stack + (body.id,))  # a closure handed to anything else may run
            if "dest" in t:
                store(t["dest"], val, env)
            if t.get("t") is not None:
                succs = [t["t"]]
        elif k in ("drop", "assert"):
            if t.get("t") is not None:
                succs = [t["t"]]
        for s_ in succs:
            if s_ is None or body.is_cleanup(s_):
                continue
            edges.add((b, s_))
            old = entry.get(s_)
            if old is None:
                entry[s_] = dict(env)
                work.append(s_)
            else:
                new = {}
                for l in set(old) | set(env):
                    new[l] = join(old.get(l, U), env.get(l, U)) if (l in old and l in env) else U
                if any(repr(new.get(l)) != repr(old.get(l)) for l in new) or set(new) != set(old):
                    entry[s_] = new
                    work.append(s_)
    res.blocks.setdefault(body.id, set()).update(blocks)
    res.edges.setdefault(body.id, set()).update(edges)
    res._last_entry = entry
    return res, (ret if ret is not None else U)


def _invoke(facts, v, res, depth, stack):
    """a closure value that may be called: everything in it may execute"""
    if isinstance(v, tuple) and len(v) == 2 and v[0] == "closure" and v[1] in facts.bodies and depth < 4 and v[1] not in stack:
        analyse(facts, facts.bodies[v[1]], {}, depth + 1, res, stack + (v[1],))


def value_at_call(facts, body, call_bb, arg_index, params=None):
    """the value of argument arg_index of the call at block call_bb, from a conditional constant propagation of `body`"""
    r2 = Result()
    analyse_top(facts, body, params or {}, r2)
    env = dict(r2.entry.get(call_bb, {}))
    for s in body.stmts(call_bb):
        if s["k"] == "assign":
            store(s["pl"], ev_rv(s["rv"], env, facts), env)
    t = body.term(call_bb)
    return ev_op(t["args"][arg_index], env)


def analyse_top(facts, body, params, res):
    """like analyse() for one body, keeping its per-block entry environments in res.entry (callees are still entered)"""
    r, ret = analyse(facts, body, params, 0, res)
    # recompute the entry map of THIS body only (analyse() keeps the last one, which may be a callee's)
    entry = {0: dict(params)}
    work = [0]
    seen_iter = 0
    while work:
        seen_iter += 1
        if seen_iter > 6000:
            break
        b = work.pop()
        env = dict(entry.get(b, {}))
        for s in body.stmts(b):
            if s["k"] == "assign":
                store(s["pl"], ev_rv(s["rv"], env, facts), env)
        t = body.term(b)
        k = t["k"]
        succs = []
        if k == "goto":
            succs = [t["t"]]
        elif k == "switch":
            d = ev_op(t["d"], env)
            if isinstance(d, (int, bool)):
                nxt = None
                for (val, tb) in t["vals"]:
                    if int(val) == int(d):
                        nxt = tb
                succs = [nxt if nxt is not None else t["else"]]
            else:
                succs = sorted({tb for (_v, tb) in t["vals"]} | {t["else"]})
        elif k == "call":
            callee = t.get("callee") or ""
            val = U
            if callee in facts.bodies and facts.bodies[callee].crate in ("nomt", "nomt_core") and facts.bodies[callee].kind != "Closure":
                _r, val = analyse(facts, facts.bodies[callee], {i + 1: ev_op(a, env) for i, a in enumerate(t["args"])}, 1, Result(), (body.id,))
            if "dest" in t:
                store(t["dest"], val, env)
            if t.get("t") is not None:
                succs = [t["t"]]
        elif k in ("drop", "assert"):
            if t.get("t") is not None:
                succs = [t["t"]]
        for s_ in succs:
            if s_ is None or body.is_cleanup(s_):
                continue
            old = entry.get(s_)
            if old is None:
                entry[s_] = dict(env)
                work.append(s_)
            else:
                new = {}
                for l in set(old) | set(env):
                    new[l] = join(old.get(l, U), env.get(l, U)) if (l in old and l in env) else U
                if any(repr(new.get(l)) != repr(old.get(l)) for l in new) or set(new) != set(old):
                    entry[s_] = new
                    work.append(s_)
    res.entry = entry
    return ret
