# E6 vguard — acceptance is gated by the checks (C08, thin)
#  S1 Verified* objects are constructed only in the verifier, behind the pass edge of the root comparison
#  S2 every Ok returned by a confirm_* depends on a scope predicate
#  S3 every documented rejection reason has a raising site on the verifier's path
import re

from core import trace, roots, CheckBroken
import panicfree

PP = "nomt_core::proof::path_proof::"
MP = "nomt_core::proof::multi_proof::"

VERIFIED = {
    PP + "VerifiedPathProof": (PP + "PathProof::verify", ("hash_path",)),
    MP + "VerifiedMultiProof": (MP + "verify", ("verify_range",)),
}
CONFIRM = [
    PP + "VerifiedPathProof::confirm_value",
    PP + "VerifiedPathProof::confirm_nonexistence",
    MP + "VerifiedMultiProof::confirm_value",
    MP + "VerifiedMultiProof::confirm_nonexistence",
    MP + "VerifiedMultiProof::confirm_value_with_index",
    MP + "VerifiedMultiProof::confirm_nonexistence_with_index",
]
SCOPE_PREDICATES = (PP + "VerifiedPathProof::in_scope", MP + "VerifiedMultiProof::find_index_for")
ERRORS = {
    PP + "PathProofVerificationError": [PP + "PathProof::verify"],
    PP + "VerifyUpdateError": [PP + "verify_update"],
    MP + "MultiProofVerificationError": [MP + "verify"],
    MP + "MultiVerifyUpdateError": [MP + "verify_update"],
    PP + "KeyOutOfScope": CONFIRM,
}
# frozen exception with reason
NEVER_RAISED_OK = {
    (MP + "MultiVerifyUpdateError", "RootMismatch"): "a single VerifiedMultiProof carries one root, so there is nothing to mismatch; the variant is kept for API symmetry with VerifyUpdateError",
}


def is_eq_call(t):
    c = t.get("callee") or ""
    return ("PartialEq" in c or "cmp::" in c) and (c.endswith("::eq") or c.endswith("::ne"))


def s1(facts, rep):
    n = 0
    for adt, (vfn, producers) in VERIFIED.items():
        body = facts.body(vfn)
        short = vfn.split("::", 1)[1]
        # who may construct
        for b2 in facts.bodies.values():
            if b2.crate not in ("nomt_core", "nomt"):
                continue
            for bb in range(b2.n):
                for s in b2.stmts(bb):
                    if s["k"] == "assign" and s["rv"]["k"] == "agg" and s["rv"].get("name") == adt:
                        n += 1
                        if b2.derived and (b2.impl_trait or "").endswith("Clone"):
                            rep.ok("S1", b2.id, "construct|derive(Clone)", detail="a clone of an existing verified object")
                            continue
                        rep.check(b2.id == vfn, "S1", b2.id.split("::", 1)[1] if "::" in b2.id else b2.id, "construct|%s" % adt.split("::")[-1], "%s is constructed at %s in %s, outside %s: a verdict object no longer implies that verification succeeded" % (adt.split("::")[-1], s.get("ln"), b2.id, vfn), site=s.get("ln"), detail="constructed in %s" % vfn)
        # the root comparison
        cmps = []
        for b, t in body.calls():
            if not is_eq_call(t) or len(t["args"]) != 2:
                continue
            ra = trace(body, t["args"][0])
            rb = trace(body, t["args"][1])

            def is_root_param(rs):
                return any(r.kind == "param" and body.local_name(r.what) == "root" and not r.fields for r in rs)

            def is_computed(rs):
                return any(r.kind == "call" and r.what.split("::")[-1] in producers for r in rs)

            if (is_root_param(ra) and is_computed(rb)) or (is_root_param(rb) and is_computed(ra)):
                cmps.append((b, t))
        n += 1
        aggs0 = [1 for bb in range(body.n) for st in body.stmts(bb) if st["k"] == "assign" and st["rv"]["k"] == "agg" and st["rv"].get("name") == adt]
        if not cmps:
            n += len(aggs0)  # the constructions that now stand unprotected count as (failed) obligations
        if not rep.check(len(cmps) >= 1, "S1", short, "root-comparison", "%s no longer compares the recomputed root with the expected root" % vfn, site=body.span, detail="comparison at %s" % [t.get("ln") for (b, t) in cmps]):
            continue
        # S6: a verifier that is given the queried key hashes along THAT key: the recomputed root must be computed from the
        # key-path parameter (a proof of A hashed along A's own path would verify for any B)
        import termination

        kparams = [i for i in range(1, body.argc + 1) if "BitSlice" in body.local_ty(i) or body.local_name(i) == "key_path"]
        if kparams:
            for (cb, t) in cmps:
                n += 1
                comp = [a for a in t["args"] if any(r.kind == "call" and r.what.split("::")[-1] in producers for r in trace(body, a))]
                ok = any(termination.derives_from(body, a, lambda r: r.kind == "param" and r.what in kparams) for a in comp)
                rep.check(ok, "S6", short, "root-from-queried-key", "the root recomputed in %s does not depend on the queried key path: the proof is hashed along a path of its own, so it verifies for every key" % vfn, site=t.get("ln"), detail="the compared root derives from the key_path parameter")
        import guardfx

        aggs = [(bb, s) for bb in range(body.n) for s in body.stmts(bb) if s["k"] == "assign" and s["rv"]["k"] == "agg" and s["rv"].get("name") == adt]
        for (ab, s) in aggs:
            n += 1
            good = False
            why = "no switch on the root comparison dominates the construction"
            for (cb, t) in cmps:
                is_ne = t["callee"].endswith("::ne")
                for sw in guardfx.switches_on_call(body, cb):
                    tt = body.term(sw)
                    zero = [tb for (v, tb) in tt["vals"] if v == "0"]
                    nonzero = [tb for (v, tb) in tt["vals"] if v != "0"] + [tt["else"]]
                    pass_edges = zero if is_ne else [x for x in nonzero if x not in zero]
                    fail_edges = [x for x in nonzero if x not in zero] if is_ne else zero
                    if pass_edges and all(body.dominates(pe, ab) for pe in pass_edges[:1]) and ab not in body.reachable(fail_edges):
                        good = True
                        why = "construction dominated by the `equal` edge of the comparison at %s" % t.get("ln")
            rep.check(good, "S1", short, "construct-behind-root-eq", "%s is constructed at %s on a path that does not pass the root-equality check: a proof against a different root would be accepted" % (adt.split("::")[-1], s.get("ln")), site=s.get("ln"), detail=why)
    return n


def s2(facts, rep):
    n = 0
    for fn in CONFIRM:
        body = facts.body(fn)
        short = fn.split("::", 1)[1]
        oks = []
        for b in range(body.n):
            if body.is_cleanup(b):
                continue
            for s in body.stmts(b):
                if s["k"] == "assign" and s["pl"]["l"] == 0 and not s["pl"].get("p") and s["rv"]["k"] == "agg" and s["rv"].get("variant") == "Ok":
                    oks.append((b, s))
        # value returned through a combinator (Result::map on the predicate's result)
        via = []
        for b, t in body.calls():
            if t["dest"]["l"] == 0 and not t["dest"].get("p") and not (t.get("callee") or "").endswith("::from_residual"):
                via.append((b, t))
        n += 1
        if not rep.check(bool(oks) or bool(via), "S2", short, "returns", "cannot find how %s produces its result" % fn, site=body.span, detail=""):
            continue
        for (b, s) in oks:
            n += 1
            g, gwhy = panicfree.is_guarded(body, b, "KeyOutOfScope", facts)
            dom = False
            dwhy = ""
            for cb, t in body.calls():
                if t.get("callee") in SCOPE_PREDICATES and cb != b and body.dominates(cb, b, removed=body.ok_removed()):
                    # the predicate's failure must leave through `?`
                    from syncmodel import SyncModel  # noqa: F401

                    dom = True
                    dwhy = "dominated (on success paths) by %s at %s" % (t["callee"].split("::")[-1], t.get("ln"))
            rep.check(g or dom, "S2", short, "ok-depends-on-scope", "%s can return Ok at %s without a scope check (neither behind a branch whose other edge returns KeyOutOfScope, nor after in_scope/find_index_for): a proof for another key would confirm this one" % (fn, s.get("ln")), site=s.get("ln"), detail=gwhy if g else dwhy)
        for (b, t) in via:
            n += 1
            c = t.get("callee") or ""
            ok = False
            why = ""
            if c.endswith("Result::map") or c.endswith("Result::and_then") or c.endswith("Result::map_err"):
                for r in trace(body, t["args"][0]):
                    if r.kind == "call" and r.what in SCOPE_PREDICATES:
                        ok = True
                        why = "result is %s over %s" % (c.split("::")[-1], r.what.split("::")[-1])
            rep.check(ok, "S2", short, "ok-depends-on-scope", "%s returns the result of %s at %s, which does not derive from a scope predicate" % (fn, c, t.get("ln")), site=t.get("ln"), detail=why)
    # the predicates themselves
    ins = facts.body(SCOPE_PREDICATES[0])
    for b in range(ins.n):
        for s in ins.stmts(b):
            if s["k"] == "assign" and s["pl"]["l"] == 0 and s["rv"]["k"] == "agg" and s["rv"].get("variant") == "Ok":
                n += 1
                g, gwhy = panicfree.is_guarded(ins, b, "KeyOutOfScope", facts)
                # the guard must be a comparison involving the key parameter
                cmp_ok = False
                for cb, t in ins.calls():
                    if is_eq_call(t) and len(t["args"]) == 2:
                        xt = tuple(c2 for (_b2, t2) in ins.calls() for c2 in [t2.get("callee") or ""] if c2.endswith("::index") or c2.endswith("::view_bits"))
                        both = [trace(ins, a, extra_transparent=xt) for a in t["args"]]
                        if any(any(r.kind == "param" and r.what == 2 for r in rs) for rs in both) and any(any(r.kind == "param" and r.what == 1 for r in rs) or any(r.kind == "call" and r.what.endswith("VerifiedPathProof::path") for r in rs) for rs in both):
                            cmp_ok = True
                rep.check(g and cmp_ok, "S2", "proof::path_proof::VerifiedPathProof::in_scope", "compares-key-with-path", "in_scope no longer returns Ok only when the key's prefix equals the proven path", site=ins.span, detail="Ok(()) behind `this_path == other_path`, else Err(KeyOutOfScope)")
    fi = facts.body(SCOPE_PREDICATES[1])
    n += 1
    ok = any(r.kind == "call" and "binary_search_by" in r.what for r in trace(fi, {"l": 0}, extra_transparent=("core::result::Result::map_err", "core::result::Result::map")))
    rep.check(ok, "S2", "proof::multi_proof::VerifiedMultiProof::find_index_for", "search-result", "find_index_for no longer returns the outcome of the prefix search over the verified terminals", site=fi.span, detail="binary_search_by(..).map_err(|_| KeyOutOfScope)")
    return n


def s3(facts, rep):
    n = 0
    for enum, entries in ERRORS.items():
        adt = facts.adts.get(enum)
        if adt is None:
            raise CheckBroken("ANCHOR-MISSING error type %s" % enum)
        reach = set()
        for e in entries:
            facts.body(e)
            reach |= set(facts.reach([e]).keys())
        raised = {}
        for fn in reach:
            body = facts.bodies.get(fn)
            if body is None or body.derived:
                continue
            for b in range(body.n):
                for s in body.stmts(b):
                    if s["k"] == "assign" and s["rv"]["k"] == "agg" and s["rv"].get("name") == enum:
                        raised.setdefault(s["rv"].get("variant"), []).append(s.get("ln"))
                    # unit structs / variants may appear as constants
                    if s["k"] == "assign" and s["rv"]["k"] == "use" and s["rv"]["op"]["k"] == "const" and s["rv"]["op"].get("ty") == enum:
                        raised.setdefault(s["rv"]["op"].get("s", "").split("::")[-1].split(" ")[-1] or adt["variants"][0]["name"], []).append(s.get("ln"))
                t = body.term(b)
                if t["k"] == "call":
                    for a in t["args"]:
                        if a["k"] == "const" and a.get("ty") == enum:
                            raised.setdefault(adt["variants"][0]["name"] if len(adt["variants"]) == 1 else a.get("s", "").split("::")[-1], []).append(t.get("ln"))
        for v in adt["variants"]:
            n += 1
            key = (enum, v["name"])
            if key in NEVER_RAISED_OK:
                rep.ok("S3", enum.split("::", 1)[1], "variant=%s|frozen-exception" % v["name"], detail=NEVER_RAISED_OK[key])
                if v["name"] in raised:
                    rep.notes.append("S3: %s::%s is raised now; the frozen exception can be removed" % (enum, v["name"]))
                continue
            rep.check(v["name"] in raised, "S3", enum.split("::", 1)[1], "variant=%s" % v["name"], "the documented rejection %s::%s is never raised on the path of %s: the check it stands for is gone" % (enum.split("::")[-1], v["name"], [e.split("::")[-1] for e in entries][:2]), detail="raised at %s" % raised.get(v["name"], [])[:3])
    return n


# ---- S4: the loop that performs a per-element / per-pair check draws from the WHOLE input collection ------------------------
#
# `verify_update` must refuse an op outside the proven scope, and ops / paths out of order.  Those checks sit in loops; a check
# that only sees part of the input (`ops[1..]`, `paths.chunks_exact(2)`, `.skip(1)`, `.step_by(2)`, `.take(n)`) lets the rest
# through unchecked.  Rule: the iterator that drives the loop containing the guard is built from the input collection through
# adapters that keep every element (iter, into_iter, enumerate, peekable, rev, copied, cloned, map, chain, windows, by_ref); a
# sub-slicing `Index` with a range, or a partitioning / truncating adapter anywhere in the chain, is a violation.  An index loop
# must run over `0..len` or `1..len` of the collection.

S4_GUARDS = [
    ("nomt_core::proof::path_proof::verify_update", "OpOutOfScope"),
    ("nomt_core::proof::path_proof::verify_update", "OpsOutOfOrder"),
    ("nomt_core::proof::path_proof::verify_update", "PathsOutOfOrder"),
    ("nomt_core::proof::multi_proof::verify_update", "OpOutOfScope"),
    ("nomt_core::proof::multi_proof::verify_update", "OpsOutOfOrder"),
    ("nomt_core::proof::multi_proof::verify", "PathsOutOfOrder"),
]
S4_KEEP = ("iter", "into_iter", "iter_mut", "enumerate", "peekable", "rev", "copied", "cloned", "map", "chain", "windows", "by_ref", "deref", "as_slice", "as_ref", "borrow", "clone", "inspect", "zip")
S4_LOSE = ("skip", "take", "step_by", "chunks", "chunks_exact", "rchunks", "rchunks_exact", "filter", "filter_map", "take_while", "skip_while", "map_while", "split_at", "split_first", "split_last", "nth", "last", "array_chunks")


S4_PAIRWISE = ("OpsOutOfOrder", "PathsOutOfOrder")  # checks on adjacent pairs: `windows(2)` covers them; a per-element check in a windows loop misses one element


def _chain(body, op, depth=0, seen=None, lose=S4_LOSE):
    """(adapter names, problems) on the way from an iterator value back to its source"""
    seen = seen if seen is not None else set()
    names, probs = [], []
    if depth > 10:
        return names, probs
    for r in trace(body, op):
        if r.key() in seen:
            continue
        seen.add(r.key())
        if r.kind in ("call", "via") and r.obj is not None:
            c = str(r.what)
            short = c.rsplit("::", 1)[-1]
            args = r.obj.get("args", [])
            if short in ("index", "index_mut") and len(args) == 2 and "ops::range::Range" in body.op_ty(args[1]) and not body.op_ty(args[1]).endswith("RangeFull"):
                probs.append("a sub-range of the collection (`[..]` with %s)" % body.op_ty(args[1]).rsplit("::", 1)[-1].split("<")[0])
            elif short in lose:
                probs.append("`%s`" % short)
            names.append(short)
            for a in (args[:2] if short in ("zip", "chain") else args[:1]):
                n2, p2 = _chain(body, a, depth + 1, seen, lose)
                names += n2
                probs += p2
        elif r.kind == "agg" and r.obj is not None and "ops::range::Range" in str(r.what):
            fl = r.obj.get("fields", [])
            st = r.obj["ops"][fl.index("start")] if "start" in fl else None
            en = r.obj["ops"][fl.index("end")] if "end" in fl else None
            names.append("range")
            if st is not None and not (st.get("k") == "const" and st.get("int") in ("0", "1")):
                probs.append("an index range that does not start at 0 or 1")
            if en is not None and not any(str(x.what).endswith("::len") for x in trace(body, en) if x.kind == "call"):
                probs.append("an index range whose end is not the collection's length")
    return names, probs


def s4(facts, rep):
    import panicfree
    import termination

    n = 0
    for (fn, variant) in S4_GUARDS:
        body = facts.bodies.get(fn)
        if body is None:
            raise CheckBroken("ANCHOR-MISSING function %s" % fn)
        # the validation may live in helpers of the verifier (`check_path_ops(..)?`): look there too
        region, st_ = [], [(fn, 0)]
        seen_r = set()
        while st_:
            cur, dp = st_.pop()
            cb = facts.bodies.get(cur)
            if cur in seen_r or cb is None or cb.crate != "nomt_core" or cb.kind == "Closure":
                continue
            seen_r.add(cur)
            region.append(cb)
            if dp < 2:
                for (_b, c2, _t, k2) in facts.callees(cb):
                    if k2 == "call":
                        st_.append((c2, dp + 1))
        for body in region:
          short = body.id.split("::", 1)[1]
          loops = termination.natural_loops(body)
          gs = panicfree.guard_switches(body, variant)
          in_loop = 0
          for (sw, _err) in gs:
              inner = sorted([(h, blk, lat) for (h, blk, lat) in loops if sw in blk], key=lambda x: len(x[1]))
              if not inner:
                  continue
              in_loop += 1
              # the check may sit in an inner search loop; every enclosing loop that is driven by an iterator must cover its source
              for (h, blk, lat) in inner:
                  drv = None
                  for u in sorted(blk):
                      t = body.term(u)
                      if t["k"] == "call" and termination.is_iter_next(t.get("callee") or t.get("orig") or "") and t["args"] and all(body.dominates(u, lt) for lt in lat):
                          drv = (u, t)
                          break
                  if drv is None:
                      continue
                  il = termination.iter_local(body, drv[1]["args"][0])
                  names, probs = _chain(body, {"k": "copy", "pl": {"l": il}}, lose=S4_LOSE if variant in S4_PAIRWISE else S4_LOSE + ("windows",))
                  n += 1
                  rep.check(not probs, "S4", short, "%s-covers-input" % variant, "the loop that raises %s iterates over %s: elements outside that view are accepted unchecked" % (variant, " and ".join(sorted(set(probs)))), site=drv[1].get("ln"), detail="loop at %s driven by %s" % (drv[1].get("ln"), " <- ".join(names[:6]) or "the collection itself"))
        # a guard outside any loop (e.g. `ops.iter().is_sorted..` style predicates) is judged by S2 / the C18 precondition
    return n


# ---- S5: a value confirmation compares the WHOLE expected leaf with the proven terminal ---------------------------------------
#
# The scope predicates only match the first `depth` bits of the key; `confirm_value` must still compare the full key path and
# the value hash of the expected leaf with the proven leaf - otherwise any absent key under a leaf terminal is "confirmed" with
# that leaf's value.  Rule: in each confirm_value* function (with its closures and nomt_core helpers) there is an equality on
# operands of type LeafData, or equalities on whole-array operands that cover both LeafData.key_path and LeafData.value_hash.

S5_ENTRIES = (
    "nomt_core::proof::path_proof::VerifiedPathProof::confirm_value",
    "nomt_core::proof::multi_proof::VerifiedMultiProof::confirm_value",
    "nomt_core::proof::multi_proof::VerifiedMultiProof::confirm_value_with_index",
)
LEAF = "nomt_core::trie::LeafData"


def s5(facts, rep):
    n = 0
    for fn in S5_ENTRIES:
        if fn not in facts.bodies:
            raise CheckBroken("ANCHOR-MISSING function %s" % fn)
        region, st_, seen_r = [], [(fn, 0)], set()
        while st_:
            cur, dp = st_.pop()
            cb = facts.bodies.get(cur)
            if cur in seen_r or cb is None or cb.crate != "nomt_core":
                continue
            seen_r.add(cur)
            region.append(cb)
            if dp < 2:
                for (_b, c2, _t, k2) in facts.callees(cb):
                    if k2 in ("call", "closure"):
                        st_.append((c2, dp + 1))
        whole = False
        fields = set()
        for body in region:
            for b, t in body.calls():
                c = t.get("callee") or ""
                if not (c.endswith("::eq") or c.endswith("::ne")) or "PartialEq" not in (c + (t.get("orig") or "")) or len(t["args"]) < 2:
                    continue
                tys = [body.op_ty(a) for a in t["args"][:2]]
                if all(LEAF in ty for ty in tys):
                    whole = True
                    continue
                # whole-array comparisons of single fields
                if all(re.sub(r"[&' a-z_]*", "", ty.replace("mut", "")).startswith("[u8;32]") or "[u8; 32]" in ty for ty in tys):
                    for a in t["args"][:2]:
                        for r in trace(body, a):
                            for (f, o) in r.path:
                                if o == LEAF:
                                    fields.add(f)
        short = fn.split("::", 1)[1]
        n += 1
        ok = whole or {"key_path", "value_hash"} <= fields
        rep.check(ok, "S5", short, "compares-whole-leaf", "%s does not compare the full expected leaf (key path AND value hash) with the proven terminal (whole-LeafData equality: %s; fields compared as whole arrays: %s): a key that merely shares the terminal's prefix is confirmed with the terminal's value" % (short, whole, sorted(fields)), site=facts.bodies[fn].span, detail="LeafData == LeafData" if whole else "fields %s" % sorted(fields))
    return n


# ---- S7: an operation is matched to its proven path by prefix EQUALITY --------------------------------
# `verify_update` of both proof kinds accepts an operation only for a terminal that covers its key, and raises OpOutOfScope
# otherwise.  "Covers" is an equality of the key's leading bits with the terminal's path (`==`, `!=`, `starts_with`); an
# ordering comparison (`<`, binary search for the first terminal not before the key) also accepts keys that fall into a GAP
# between proven terminals and silently attributes them to the next one.  Rule: some branch that raises OpOutOfScope is decided
# by an equality / starts_with comparison (directly, in a closure, or in a helper whose result it is).
EQ_NAMES = ("eq", "ne", "starts_with", "ends_with", "strip_prefix")


def _decided_by_equality(facts, body, op, depth=0):
    import termination

    def pred(r):
        if r.kind not in ("call", "via"):
            return False
        c = str(r.what)
        m = c.rsplit("::", 1)[-1]
        if m in EQ_NAMES:
            return True
        hb = facts.bodies.get(c)
        if hb is not None and hb.crate == "nomt_core" and depth < 3 and hb.local_ty(0) == "bool":
            return _decided_by_equality(facts, hb, {"k": "copy", "pl": {"l": 0}}, depth + 1)
        return False

    if termination.derives_from(body, op, pred):
        return True
    # `opt.map_or(.., |x| a == b)` / `iter.any(|t| ..)`: the comparison sits in a closure handed to the call
    for r in trace(body, op):
        if r.kind in ("call", "via") and r.obj is not None:
            for a in r.obj.get("args", []):
                for x in trace(body, a):
                    if x.kind == "agg" and x.obj is not None and x.obj.get("ak") == "closure" and x.obj.get("name") in facts.bodies and depth < 3:
                        cb = facts.bodies[x.obj["name"]]
                        if _decided_by_equality(facts, cb, {"k": "copy", "pl": {"l": 0}}, depth + 1):
                            return True
    return False


def s7(facts, rep):
    import panicfree

    n = 0
    for fn in ("nomt_core::proof::path_proof::verify_update", "nomt_core::proof::multi_proof::verify_update"):
        body = facts.bodies.get(fn)
        if body is None:
            raise CheckBroken("ANCHOR-MISSING function %s" % fn)
        short = fn.split("::", 1)[1]
        # the scope check may live in helpers of the verifier
        cands, st_, seen = [], [(fn, 0)], set()
        while st_:
            cur, dp = st_.pop()
            cb = facts.bodies.get(cur)
            if cur in seen or cb is None or cb.crate != "nomt_core" or cb.kind == "Closure":
                continue
            seen.add(cur)
            cands.append(cb)
            if dp < 2:
                for b, t in cb.calls():
                    st_.append((t.get("callee") or "", dp + 1))
        guards = [(cb, sw) for cb in cands for (sw, _e) in panicfree.guard_switches(cb, "OpOutOfScope")]
        n += 1
        if not guards:
            continue  # S3 reports a rejection reason that is never raised
        import termination

        ok_all, why = True, ""
        for cb in {g[0].id: g[0] for g in guards}.values():
            sws = [sw for (b_, sw) in guards if b_.id == cb.id]
            loops = [(h, blk, lat) for (h, blk, lat) in termination.natural_loops(cb) if any(sw in blk for sw in sws)]
            eq = {b for b in range(cb.n) if cb.term(b)["k"] == "switch" and not cb.is_cleanup(b) and _decided_by_equality(facts, cb, cb.term(b)["d"])}
            if loops:
                # the loop over the operations: the outermost loop that contains a scope branch.  After a scope branch has
                # let an operation pass, the rest of the iteration passes a comparison for equality (or the branch is one)
                (h, blk, lat) = max(loops, key=lambda x: len(x[1]))
                rem = set(cb.ok_removed()) | eq | {x for x in range(cb.n) if x not in blk}
                for sw in sws:
                    if sw in eq:
                        continue
                    err_edges = {e for (s2, e) in panicfree.guard_switches(cb, "OpOutOfScope") if s2 == sw}
                    starts = [x for x in cb.succ(sw) if x not in err_edges and x in blk and x not in rem]
                    reach = cb.reachable(starts, rem)
                    if (set(lat) | {h}) & reach:
                        ok_all = False
                        why = "after the scope branch at %s an iteration can complete without passing a comparison for equality" % cb.term(sw).get("ln")
            else:
                # straight-line validation (one operation per call): the equality decides a raising branch
                if not any(sw in eq for sw in sws):
                    ok_all = False
                    why = "no OpOutOfScope branch is decided by an equality"
        rep.check(ok_all, "S7", short, "scope-by-prefix-equality", "in %s an operation can be accepted without its key's leading bits having been compared for EQUALITY with a proven path (%s; only ordering / length comparisons decide): a key in a gap between proven terminals would be attributed to a neighbouring terminal" % (fn, why), site=body.span, detail="every accepted operation passes an ==/!=/starts_with comparison with a proven path")
    return n


# ---- S11: a path is hashed with exactly one sibling per bit --------------------------------------------
# `hash_path(node, bits, siblings)` consumes one sibling per bit, pairing them from the END of the bit slice; given fewer
# siblings than bits it silently hashes a shorter suffix.  A verifier that claims a terminal at depth d but hashes fewer than
# d - start bits proves a statement about a different (shallower) position than the one it records.  Rule: at every call of
# hash_path in the verifiers, the number of siblings handed over and the length of the bit range are the same quantity:
# with the range `bits[a..b]` and `siblings[..k]` (or a whole sibling vector of length k), either k is computed from exactly
# b and a (k = b - a) or b from exactly a and k (b = a + k).  A count that also depends on anything else (a `min` with the
# number of siblings available ..) breaks the equality.
ITER_PLUMBING = ("rev", "copied", "cloned", "iter", "into_iter", "by_ref", "deref", "as_slice", "borrow", "as_ref")


def s11(facts, rep):
    panicfree._FACTS[0] = facts
    n = 0
    for body in facts.bodies.values():
        if body.crate != "nomt_core" or "::tests::" in body.id:
            continue
        for b, t in body.calls():
            if not (t.get("callee") or "").endswith("path_proof::hash_path") or body.is_cleanup(b) or len(t["args"]) < 3:
                continue
            short = body.id.split("::", 1)[1]
            n += 1
            # the bit range
            S = E = None
            for r in trace(body, t["args"][1]):
                if r.kind == "call" and str(r.what).endswith("::index") and r.obj is not None and len(r.obj.get("args", [])) == 2:
                    for rr in trace(body, r.obj["args"][1]):
                        if rr.kind == "agg" and rr.obj is not None and "range::Range" in str(rr.what):
                            fl = rr.obj.get("fields", [])
                            S = panicfree.leaves(body, rr.obj["ops"][fl.index("start")]) if "start" in fl else set()
                            E = panicfree.leaves(body, rr.obj["ops"][fl.index("end")]) if "end" in fl else None
            # the sibling count: follow the iterator plumbing back to `x[..k]` or to a whole container
            K = None
            work, seen = [t["args"][2]], 0
            while work and seen < 12 and K is None:
                op = work.pop()
                seen += 1
                for r in trace(body, op):
                    if r.kind not in ("call", "via") or r.obj is None or not r.obj.get("args"):
                        if r.kind in ("param", "call", "via", "upvar") and K is None and r.kind == "param":
                            K = {("len", key) for (k_, key) in panicfree.leaves(body, op) if k_ == "v"}
                        continue
                    m = str(r.what).rsplit("::", 1)[-1]
                    if m == "index" and len(r.obj["args"]) == 2:
                        for rr in trace(body, r.obj["args"][1]):
                            if rr.kind == "agg" and rr.obj is not None and "range::RangeTo" in str(rr.what):
                                fl = rr.obj.get("fields", [])
                                K = panicfree.leaves(body, rr.obj["ops"][fl.index("end")])
                            elif rr.kind == "agg" and rr.obj is not None and "range::RangeFull" in str(rr.what):
                                work.append(r.obj["args"][0])
                    elif m in ITER_PLUMBING:
                        cont = {("len", key) for (k_, key) in panicfree.leaves(body, r.obj["args"][0]) if k_ == "v"}
                        if m in ("iter", "into_iter", "deref", "as_slice") and cont and not any(str(x.what).endswith("::index") for x in trace(body, r.obj["args"][0]) if x.kind in ("call", "via")):
                            K = cont
                        else:
                            work.append(r.obj["args"][0])
            if E is None or K is None or S is None:
                rep.notes.append("S11: the bit range / sibling count of hash_path at %s is not of the form bits[a..b] / siblings[..k]: not decided" % t.get("ln"))
                continue

            def nc(x):
                return {y for y in x if y[0] != "c"}

            S_, E_, K_ = nc(S), nc(E), nc(K)
            ok = (K_ == (E_ | S_)) or (E_ == (S_ | K_))
            rep.check(ok, "S11", short, "one-sibling-per-bit", "hash_path at %s is handed a sibling count that is not the length of the bit range it hashes (count depends on %s, range on %s): with fewer siblings than bits only a suffix of the claimed path is hashed, so a proof recorded for depth d verifies a statement about a shallower position" % (t.get("ln"), sorted(str(x[1][2:]) if x[0] != "len" else "len(%s)" % (x[1][2:],) for x in K_)[:4], sorted(str(x[1][2:]) if x[0] != "len" else "len(%s)" % (x[1][2:],) for x in (E_ | S_))[:4]), site=t.get("ln"), detail="count and range length at %s are the same quantity" % t.get("ln"))
    return n
