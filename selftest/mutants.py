# Checker self-test mutants: one broken instance each.  A mutant is (id, property, file, old, new, expect)
# where `expect` is a substring that must occur in the key of a reported violation.  Applied by exact
# text substitution to a scratch copy outside /repo and /verif; a mutant whose `old` text no longer
# occurs exactly once is counted as skipped (the tree was edited), never as a failure of the check.
# Self-test results go to evidence and never decide the verdict of a check.

M = []


def m(id_, prop, file, old, new, expect, also=None):
    M.append({"id": id_, "prop": prop, "file": file, "old": old, "new": new, "expect": expect, "also": also or []})


# ---------------- C03 ----------------
m("c03-postmeta-before-meta", "C03", "nomt/src/store/sync.rs",
  "        Meta::write(&shared.io_pool.page_pool(), &shared.meta_fd, &new_meta)?;\n        self.sync_seqn += 1;\n",
  "        bitbox_sync.post_meta(shared.io_pool.make_handle())?;\n        Meta::write(&shared.io_pool.page_pool(), &shared.meta_fd, &new_meta)?;\n        self.sync_seqn += 1;\n",
  "O3|store::sync::Sync::sync|post-meta|write(ht)")
m("c03-drop-beatree-wait", "C03", "nomt/src/store/sync.rs",
  "        let beatree_pre_meta = beatree_sync.wait_pre_meta();\n        bitbox_pre_meta?;\n        let beatree_meta_wd = beatree_pre_meta?;\n",
  "        bitbox_pre_meta?;\n        let beatree_meta_wd = crate::beatree::SyncData { ln_freelist_pn: 0, ln_bump: 0, bbn_freelist_pn: 0, bbn_bump: 0 };\n",
  "O1|store::sync::Sync::sync|pre-meta|")
m("c03-recover-flip", "C03", "nomt/src/bitbox/mod.rs",
  "    if wal_reader.sync_seqn() != sync_seqn {",
  "    if wal_reader.sync_seqn() == sync_seqn {",
  "O7|bitbox::recover|redo|")
m("c03-wrong-seqn-to-wal", "C03", "nomt/src/store/sync.rs",
  "        bitbox_sync.begin_sync(sync_seqn, page_cache, updated_pages);",
  "        bitbox_sync.begin_sync(self.sync_seqn, page_cache, updated_pages);",
  "O8|store::sync::Sync::sync|same-seqn")
m("c03-seqn-advance-early", "C03", "nomt/src/store/sync.rs",
  "        let sync_seqn = self.sync_seqn + 1;\n",
  "        let sync_seqn = self.sync_seqn + 1;\n        self.sync_seqn += 1;\n",
  "O8|store::sync::Sync::sync|seqn-advance-after-meta")
m("c03-wal-join-ignored", "C03", "nomt/src/bitbox/mod.rs",
  "        join_task(&self.pre_meta_result_rx)?;\n        Ok(())",
  "        let _ = join_task(&self.pre_meta_result_rx);\n        Ok(())",
  "O1|store::sync::Sync::sync|pre-meta|")
m("c03-prune-in-begin-sync", "C03", "nomt/src/rollback/mod.rs",
  "        let wa = self.rollback.writeout_start();\n",
  "        let wa = self.rollback.writeout_start();\n        let _ = self.rollback.writeout_end(wa.prune_to_new_start_live, wa.prune_to_new_end_live);\n",
  "O3|store::sync::Sync::sync|post-meta|unlink(seglog)")

# ---------------- C04 ----------------
m("c04-no-wal-fsync", "C04", "nomt/src/bitbox/writeout.rs",
  "    wal_fd.write_all(wal_blob)?;\n    wal_fd.sync_all()?;\n",
  "    wal_fd.write_all(wal_blob)?;\n",
  "O2|store::sync::Sync::sync|")
m("c04-no-meta-fsync", "C04", "nomt/src/store/meta.rs",
  "        fd.write_all_at(&page[..], 0)?;\n        fd.sync_all()?;\n",
  "        fd.write_all_at(&page[..], 0)?;\n",
  "O4|store::meta::Meta::write|write-then-sync")
m("c04-no-ln-wait", "C04", "nomt/src/beatree/mod.rs",
  "        self.inner.sync.ln_fsync.wait()?;\n",
  "",
  "O2|store::sync::Sync::sync|")
m("c04-no-ht-fsync", "C04", "nomt/src/bitbox/writeout.rs",
  "    ht_fd.sync_all()?;\n\n    Ok(())",
  "    Ok(())",
  "O5|bitbox::SyncController::post_meta|")
m("c04-swap-ht-truncate", "C04", "nomt/src/bitbox/mod.rs",
  "        writeout::write_ht(io_handle, &self.db.shared.ht_fd, ht_pages)?;\n        writeout::truncate_wal(&self.db.shared.wal_fd, false)?;\n",
  "        writeout::truncate_wal(&self.db.shared.wal_fd, false)?;\n        writeout::write_ht(io_handle, &self.db.shared.ht_fd, ht_pages)?;\n",
  "O5|bitbox::SyncController::post_meta|")
m("c04-no-seglog-fsync", "C04", "nomt/src/seglog/mod.rs",
  "        writer.write_payload(data)?;\n        writer.fsync()?;\n",
  "        writer.write_payload(data)?;\n",
  "O9|rollback::Rollback::commit")
m("c04-no-dir-fsync", "C04", "nomt/src/seglog/mod.rs",
  "        if root_dir_fsync {\n            // To uphold the guarantees provided by this function we should fsync the directory\n            // after a new segment file is created.\n            self.root_dir_fd.sync_all()?;\n        }\n",
  "        let _ = root_dir_fsync;\n",
  "create(seglog)=>sync(dir)")
m("c04-recover-no-ht-fsync", "C04", "nomt/src/bitbox/mod.rs",
  "    ht_fd.sync_all()?;\n\n    // Finally, we collapse the WAL file and fsync.",
  "    // Finally, we collapse the WAL file and fsync.",
  "O6|bitbox::recover|")
m("c04-fsync-before-drain", "C04", "nomt/src/bitbox/writeout.rs",
  "    while sent > 0 {\n        // UNWRAP: we receive only what we sent. No `RecvErr` expected.\n        io_handle.recv().unwrap().result?;\n        sent -= 1;\n    }\n\n    ht_fd.sync_all()?;\n",
  "    ht_fd.sync_all()?;\n\n    while sent > 0 {\n        // UNWRAP: we receive only what we sent. No `RecvErr` expected.\n        io_handle.recv().unwrap().result?;\n        sent -= 1;\n    }\n",
  "O5|bitbox::SyncController::post_meta|")
m("c04-bbn-fsync-request-before-update", "C04", "nomt/src/beatree/mod.rs",
  "            Tree::commit(&inner.shared, changeset);\n",
  "            Tree::commit(&inner.shared, changeset);\n            inner.sync.bbn_fsync.fsync();\n            inner.sync.bbn_fsync.wait()?;\n",
  None)  # still correct (an extra early fsync): must stay silent

# ---------------- C17 ----------------
m("c17-ht-write-in-prepare", "C17", "nomt/src/bitbox/mod.rs",
  "            *ht_to_write.lock() = Some(ht_pages);\n",
  "            let _ = std::os::unix::fs::FileExt::write_all_at(&bitbox.shared.ht_fd, &[0u8; 8], 0);\n            *ht_to_write.lock() = Some(ht_pages);\n",
  "W1|bitbox::SyncController::begin_sync::{closure#0}|write(ht)")
m("c17-inplace-leaf", "C17", "nomt/src/beatree/ops/update/leaf_stage.rs",
  "        let page_number = self.leaf_writer.allocate()?;\n\n        let page = leaf.inner.page();",
  "        let page_number = self.leaves_tracker.inner.values().next().and_then(|e| e.deleted).unwrap_or(self.leaf_writer.allocate()?);\n\n        let page = leaf.inner.page();",
  "W2|")
m("c17-construct-pn", "C17", "nomt/src/beatree/ops/update/branch_stage.rs",
  "        let page_number = self.bbn_writer.allocate()?;\n",
  "        let page_number = self.bbn_writer.allocate()?;\n        let page_number = crate::beatree::allocator::PageNumber(page_number.0.saturating_sub(1));\n",
  "W2|")
m("c17-no-append", "C17", "nomt/src/seglog/mod.rs",
  "            .create_new(true)\n            .append(true)\n",
  "            .create_new(true)\n            .write(true)\n",
  "W4|seglog::SegmentedLog::create_segment|open(seglog)|append")
m("c17-freelist-pop-in-allocate", "C17", "nomt/src/beatree/allocator/mod.rs",
  "        let free_list = sync.free_list.as_clean();\n",
  "        let free_list = sync.free_list.as_clean();\n        let _ = sync.free_list.head_pn();\n",
  None)  # head_pn is a &self reader: must stay silent
m("c17-unlink-elsewhere", "C17", "nomt/src/rollback/mod.rs",
  "        let pending_truncate = in_memory.pending_truncate.take();\n",
  "        let pending_truncate = in_memory.pending_truncate.take();\n        let _ = std::fs::remove_file(\"/nonexistent/rollback.0.log\");\n",
  "W1|rollback::Rollback::writeout_start|unlink")

# ---------------- C14 ----------------
m("c14-ignore-wal-fsync", "C14", "nomt/src/bitbox/writeout.rs",
  "    wal_fd.write_all(wal_blob)?;\n    wal_fd.sync_all()?;\n",
  "    wal_fd.write_all(wal_blob)?;\n    let _ = wal_fd.sync_all();\n",
  "R1|bitbox::writeout::write_wal|call=std::fs::File::sync_all")
m("c14-unchecked-completion", "C14", "nomt/src/beatree/ops/update/mod.rs",
  "        io_handle.recv().unwrap().result?;\n",
  "        io_handle.recv().unwrap();\n",
  "R2|beatree::ops::update::update|")
m("c14-ignore-join", "C14", "nomt/src/bitbox/mod.rs",
  "        join_task(&self.pre_meta_result_rx)?;\n        Ok(())",
  "        let _ = join_task(&self.pre_meta_result_rx);\n        Ok(())",
  "R1|bitbox::SyncController::wait_pre_meta|call=nomt::task::join_task")
m("c14-no-poison", "C14", "nomt/src/store/mod.rs",
  "            self.shared\n                .poisoned\n                .store(true, std::sync::atomic::Ordering::Relaxed);\n            return Err(e);",
  "            return Err(e);",
  "R4|store::Store::commit|self-poisoning")
m("c14-result-ok-discard", "C14", "nomt/src/bitbox/writeout.rs",
  "    ht_fd.sync_all()?;\n\n    Ok(())",
  "    ht_fd.sync_all().ok();\n\n    Ok(())",
  "R1|bitbox::writeout::write_ht|call=std::fs::File::sync_all")
m("c14-wait-without-request", "C14", "nomt/src/beatree/mod.rs",
  "            inner.sync.bbn_fsync.fsync();\n            inner.sync.ln_fsync.fsync();\n",
  "            inner.sync.bbn_fsync.fsync();\n",
  "R5|beatree::SyncController::wait_pre_meta|Fsyncer::wait|ln_fsync")
m("c14-no-poison-on-rollback-append", "C14", "nomt/src/lib.rs",
  "            if let Err(e) = rollback.commit(rollback_delta) {\n                // The changeset is partially applied at this point and the rollback log may be\n                // partially written: refuse further commits.\n                nomt.store.poison();\n                return Err(e);\n            }\n        }\n\n        nomt.store.commit(\n            self.value_transaction.into_iter(),",
  "            rollback.commit(rollback_delta)?;\n        }\n\n        nomt.store.commit(\n            self.value_transaction.into_iter(),",
  "R4|FinishedSession::commit|fallible=nomt::rollback::Rollback::commit")
m("c14-poisoned-check-removed", "C14", "nomt/src/store/mod.rs",
  "        if self\n            .shared\n            .poisoned\n            .load(std::sync::atomic::Ordering::Relaxed)\n        {\n            anyhow::bail!(\"Store is poisoned due to prior error\");\n        }\n",
  "",
  "guardfx|store::Store::commit|guard=poisoned")

# ---- C03 O13: the WAL covers the hash-table writeout ----
m("c03-wal-clear-dropped", "C03", "nomt/src/bitbox/mod.rs",
  "                wal_blob_builder.write_clear(bucket);\n",
  "",
  "O13|bitbox::DB::prepare_sync|set_tombstone=>write_clear")
m("c03-wal-update-only-when-map-changed", "C03", "nomt/src/bitbox/mod.rs",
  "                    changed_meta_pages.insert(meta_map.page_index(bucket as usize));\n                }\n\n                wal_blob_builder.write_update(\n                    page_id.encode(),\n                    &dirty_page.diff,\n                    dirty_page\n                        .diff\n                        .pack_changed_nodes(dirty_page.page.page_data()),\n                    dirty_page.page.elided_children(),\n                    bucket,\n                );\n",
  "                    changed_meta_pages.insert(meta_map.page_index(bucket as usize));\n                    wal_blob_builder.write_update(\n                        page_id.encode(),\n                        &dirty_page.diff,\n                        dirty_page\n                            .diff\n                            .pack_changed_nodes(dirty_page.page.page_data()),\n                        dirty_page.page.elided_children(),\n                        bucket,\n                    );\n                }\n",
  "O13|bitbox::DB::prepare_sync|data-page=>write_update")
m("c03-wal-update-names-page-number", "C03", "nomt/src/bitbox/mod.rs",
  "                    dirty_page.page.elided_children(),\n                    bucket,\n                );\n\n                let pn = self.shared.store.data_page_index(bucket);",
  "                    dirty_page.page.elided_children(),\n                    hash,\n                );\n\n                let pn = self.shared.store.data_page_index(bucket);",
  "O13|bitbox::DB::prepare_sync|write_update(same bucket)")
m("c03-wal-finalize-dropped", "C03", "nomt/src/bitbox/mod.rs",
  "        wal_blob_builder.finalize();\n\n        Ok((ht_pages, cache_updates))",
  "        Ok((ht_pages, cache_updates))",
  "O13|bitbox::DB::prepare_sync|finalize-last")
m("c03-wal-reset-after-entries", "C03", "nomt/src/bitbox/mod.rs",
  "        wal_blob_builder.reset(sync_seqn);\n\n        let mut meta_map = self.shared.meta_map.write();",
  "        let mut meta_map = self.shared.meta_map.write();",
  "O13|bitbox::DB::prepare_sync|reset-first",
  also=[("nomt/src/bitbox/mod.rs", "        wal_blob_builder.finalize();\n\n        Ok((ht_pages, cache_updates))", "        wal_blob_builder.finalize();\n        wal_blob_builder.reset(sync_seqn);\n\n        Ok((ht_pages, cache_updates))")])
m("benign-wal-clear-before-tombstone", "C03", "nomt/src/bitbox/mod.rs",
  "                meta_map.set_tombstone(bucket as usize);\n                changed_meta_pages.insert(meta_map.page_index(bucket as usize));\n                cache_updates.push((page_id.clone(), None));\n\n                wal_blob_builder.write_clear(bucket);\n",
  "                wal_blob_builder.write_clear(bucket);\n                meta_map.set_tombstone(bucket as usize);\n                changed_meta_pages.insert(meta_map.page_index(bucket as usize));\n                cache_updates.push((page_id.clone(), None));\n",
  None)
m("benign-wal-update-after-queueing", "C03", "nomt/src/bitbox/mod.rs",
  "                wal_blob_builder.write_update(\n                    page_id.encode(),\n                    &dirty_page.diff,\n                    dirty_page\n                        .diff\n                        .pack_changed_nodes(dirty_page.page.page_data()),\n                    dirty_page.page.elided_children(),\n                    bucket,\n                );\n\n                let pn = self.shared.store.data_page_index(bucket);\n                cache_updates.push((\n                    page_id.clone(),\n                    Some((dirty_page.page.clone(), BucketIndex(bucket))),\n                ));\n",
  "                let pn = self.shared.store.data_page_index(bucket);\n                cache_updates.push((\n                    page_id.clone(),\n                    Some((dirty_page.page.clone(), BucketIndex(bucket))),\n                ));\n                wal_blob_builder.write_update(\n                    page_id.encode(),\n                    &dirty_page.diff,\n                    dirty_page\n                        .diff\n                        .pack_changed_nodes(dirty_page.page.page_data()),\n                    dirty_page.page.elided_children(),\n                    bucket,\n                );\n",
  None)
# ---- C03 O14: the redo applies every WAL entry ----
m("c03-redo-skips-update-when-hint-matches", "C03", "nomt/src/bitbox/mod.rs",
  "                    changed_meta_page_ixs.insert(meta_map.page_index(bucket as usize));\n                }\n\n                // Apply the diff to the page in the ht file.",
  "                    changed_meta_page_ixs.insert(meta_map.page_index(bucket as usize));\n                } else if page_diff.count() == 0 {\n                    // nothing to re-apply\n                    continue;\n                }\n\n                // Apply the diff to the page in the ht file.",
  "O14|bitbox::recover|entry=Update=>redo")
m("c03-redo-clear-skipped-out-of-range", "C03", "nomt/src/bitbox/mod.rs",
  "            wal::WalEntry::Clear { bucket } => {\n                meta_map.set_tombstone(bucket as usize);",
  "            wal::WalEntry::Clear { bucket } => {\n                if bucket as usize >= meta_map.len() / 2 {\n                    continue;\n                }\n                meta_map.set_tombstone(bucket as usize);",
  "O14|bitbox::recover|entry=Clear=>redo")
m("benign-redo-update-arm-early-bail", "C03", "nomt/src/bitbox/mod.rs",
  "                let hash = hash_raw_page_id(page_id, &seed);\n                let meta_map_changed = meta_map.hint_not_match(bucket as usize, hash);",
  "                if page_diff.count() != changed_nodes.len() {\n                    anyhow::bail!(\"mismatched number of changed nodes\");\n                }\n                let hash = hash_raw_page_id(page_id, &seed);\n                let meta_map_changed = meta_map.hint_not_match(bucket as usize, hash);",
  None)
# ---------------- C12 / C11 / C09 ----------------
m("c12-root-check-after-rollback-commit", "C12", "nomt/src/lib.rs",
  "    pub fn commit<T: HashAlgorithm>(self, nomt: &Nomt<T>) -> Result<(), anyhow::Error> {\n        let _write_guard = self.take_global_guard.then(|| nomt.access_lock.write());\n",
  "    pub fn commit<T: HashAlgorithm>(mut self, nomt: &Nomt<T>) -> Result<(), anyhow::Error> {\n        let _write_guard = self.take_global_guard.then(|| nomt.access_lock.write());\n        if let Some(d) = self.rollback_delta.take() {\n            nomt.store.rollback().unwrap().commit(d)?;\n        }\n",
  "guardfx|FinishedSession::commit|effect=Rollback::commit|guard=root_eq")
m("c12-delete-root-check", "C12", "nomt/src/lib.rs",
  "            let shared = nomt.shared.lock();\n            if shared.root != self.prev_root {\n                anyhow::bail!(\n                    \"Changeset no longer valid (expected previous root {:?}, got {:?})\",\n                    self.prev_root,\n                    shared.root\n                );\n            }\n",
  "            let _shared = nomt.shared.lock();\n",
  "guardfx|FinishedSession::try_commit_nonblocking|guard=root_eq|missing")
m("c11-delete-parent-marker", "C11", "nomt/src/lib.rs",
  "    pub fn commit<T: HashAlgorithm>(self, nomt: &Nomt<T>) -> anyhow::Result<()> {\n        if !self.parent_matches_marker(nomt.shared.lock().last_commit_marker.as_ref()) {\n            anyhow::bail!(\"Overlay parent not committed\");\n        }\n",
  "    pub fn commit<T: HashAlgorithm>(self, nomt: &Nomt<T>) -> anyhow::Result<()> {\n",
  "guardfx|overlay::Overlay::commit|guard=parent_marker|missing")
m("c11-mark-before-check", "C11", "nomt/src/lib.rs",
  "        let _write_guard = nomt.access_lock.write();\n\n        {\n            let mut shared = nomt.shared.lock();\n            if shared.root != self.prev_root() {",
  "        let _write_guard = nomt.access_lock.write();\n        let _early = self.mark_committed();\n\n        {\n            let mut shared = nomt.shared.lock();\n            if shared.root != self.prev_root() {",
  "guardfx|overlay::Overlay::commit|effect=Overlay::mark_committed|guard=root_eq")
m("c09-pop-before-check", "C09", "nomt/src/rollback/mod.rs",
  "        let mut in_memory = self.shared.in_memory.lock();\n        if n > in_memory.total_len() {\n            return Ok(None);\n        }\n",
  "        let mut in_memory = self.shared.in_memory.lock();\n        let _first = in_memory.pop_recent();\n        if n > in_memory.total_len() {\n            return Ok(None);\n        }\n",
  "guardfx|rollback::Rollback::truncate|effect=InMemory::pop_recent|guard=enough_logged")
m("c09-record-delta-in-rollback", "C09", "nomt/src/lib.rs",
  "        session_params.record_rollback_delta = false;\n",
  "",
  "params|Nomt::rollback|SessionParams.record_rollback_delta=false")
m("c09-prune-in-writeout-start", "C09", "nomt/src/rollback/mod.rs",
  "        let wa = self.rollback.writeout_start();\n",
  "        let wa = self.rollback.writeout_start();\n        let _ = self.rollback.writeout_end(wa.prune_to_new_start_live, wa.prune_to_new_end_live);\n",
  "O3|store::sync::Sync::sync|post-meta|")
m("c12-nonblocking-lock-ignored", "C12", "nomt/src/rollback/mod.rs",
  "        let mut seglog = match self.shared.seglog.try_lock() {\n            Some(lock) => lock,\n            None => return Ok(Some(delta)), // Another thread is holding the lock.\n        };\n",
  "        let mut seglog = self.shared.seglog.lock();\n",
  "guardfx|rollback::Rollback::commit_nonblocking|guard=lock_acquired|missing")

# ---------------- C18 ----------------
m("c18-delete-toomanysiblings", "C18", "core/src/proof/path_proof.rs",
  "        if self.siblings.len() > core::cmp::min(key_path.len(), 256) {\n            return Err(PathProofVerificationError::TooManySiblings);\n        }\n",
  "",
  "panicfree|proof::path_proof::PathProof::verify|guarded|")
m("c18-unwrap-in-hash-path", "C18", "core/src/proof/path_proof.rs",
  "    for (bit, sibling) in path.iter().by_vals().rev().zip(siblings) {\n",
  "    let _first = path.first().unwrap();\n    for (bit, sibling) in path.iter().by_vals().rev().zip(siblings) {\n",
  "panicfree|proof::path_proof::hash_path|site|")
m("c18-delete-prefix-guard", "C18", "core/src/proof/multi_proof.rs",
  "        if n == skip {\n            return Err(MultiVerifyUpdateError::PathPrefixOfAnother);\n        }\n",
  "",
  "panicfree|proof::multi_proof::hash_and_compact_terminal|guarded|")
m("c18-delete-malformed-depth-guard", "C18", "core/src/proof/multi_proof.rs",
  "        if terminal_path.depth < start_depth || terminal_path.depth > terminal_bits.len() {\n            return Err(MultiProofVerificationError::MalformedProof);\n        }\n",
  "",
  "panicfree|proof::multi_proof::verify_range|guarded|")
m("c18-weaken-malformed-guard", "C18", "core/src/proof/multi_proof.rs",
  "    if common_bits > siblings.len()\n        || paths\n            .iter()\n            .any(|item| item.terminal.path().len() <= common_len)\n    {\n        return Err(MultiProofVerificationError::MalformedProof);\n    }\n",
  "",
  "panicfree|proof::multi_proof::verify_range|guarded|call:index|")
m("c18-new-index-in-confirm", "C18", "core/src/proof/path_proof.rs",
  "        self.in_scope(&expected_leaf.key_path)\n            .map(|_| self.terminal() == Some(expected_leaf))",
  "        let _b = expected_leaf.key_path[self.siblings.len()];\n        self.in_scope(&expected_leaf.key_path)\n            .map(|_| self.terminal() == Some(expected_leaf))",
  "panicfree|proof::path_proof::VerifiedPathProof::confirm_value|site|")
m("c18-construct-verified-elsewhere", "C18", "core/src/proof/path_proof.rs",
  "    /// Get the proven path.\n    pub fn path(&self) -> &BitSlice<u8, Msb0> {",
  "    /// Unchecked constructor.\n    pub fn assume(key_path: BitVec<u8, Msb0>, root: Node) -> Self {\n        VerifiedPathProof { key_path, terminal: None, siblings: Vec::new(), root }\n    }\n\n    /// Get the proven path.\n    pub fn path(&self) -> &BitSlice<u8, Msb0> {",
  "invariant=vpp_keylen|constructor")
m("c18-triepos-depth-store", "C18", "core/src/trie_pos.rs",
  "    /// Whether the position is at the root.\n    pub fn is_root(&self) -> bool {",
  "    /// Set the depth.\n    pub fn set_depth(&mut self, d: u16) {\n        self.depth = d;\n    }\n\n    /// Whether the position is at the root.\n    pub fn is_root(&self) -> bool {",
  "invariant=triepos_depth|field-store")
m("c18-benign-refactor", "C18", "core/src/proof/path_proof.rs",
  "        let cur_node = self.terminal.node::<H>();\n",
  "        let cur_node = {\n            let t = &self.terminal;\n            t.node::<H>()\n        };\n",
  None)

# ---------------- C20 ----------------
m("c20-lock-after-meta-in-create", "C20", "nomt/src/store/mod.rs",
  "    let flock = Flock::lock(&o.path, \".lock\")?;\n\n    let meta_fd = std::fs::File::create(o.path.join(\"meta\"))?;\n",
  "    let meta_fd = std::fs::File::create(o.path.join(\"meta\"))?;\n    let flock = Flock::lock(&o.path, \".lock\")?;\n",
  "D1|store::create|touch|create(meta)")
m("c20-flock-dropped-before-shutdown", "C20", "nomt/src/store/mod.rs",
  "        self.io_pool.shutdown();\n        drop(self.flock.take());\n",
  "        drop(self.flock.take());\n        self.io_pool.shutdown();\n",
  "D3|<store::Shared as Drop>::drop|shutdown-before-release")
m("c20-drop-lock-nb", "C20", "nomt/src/sys/unix.rs",
  "libc::flock(file.as_raw_fd(), libc::LOCK_EX | libc::LOCK_NB)",
  "libc::flock(file.as_raw_fd(), libc::LOCK_EX)",
  "D2|sys::unix::try_lock_exclusive|flags=LOCK_EX|LOCK_NB")
m("c20-ok-on-error-arm", "C20", "nomt/src/store/flock.rs",
  "            Err(e) => {\n                anyhow::bail!(\"Failed to lock directory: {e}\");\n            }\n",
  "            Err(e) => {\n                eprintln!(\"Failed to lock directory: {e}\");\n                Ok(Self { lock_fd: OpenOptions::new().read(true).open(db_dir.join(lock_filename))? })\n            }\n",
  "D2|store::flock::Flock::lock|ok-arm-only")
m("c20-open-reads-meta-before-lock", "C20", "nomt/src/store/mod.rs",
  "            let mut options = OpenOptions::new();\n            options.read(true);\n            db_dir_fd = options.open(&o.path)?;\n            flock = flock::Flock::lock(&o.path, \".lock\")?;\n",
  "            let mut options = OpenOptions::new();\n            options.read(true);\n            db_dir_fd = options.open(&o.path)?;\n            let _probe = meta::Meta::read(&page_pool, &std::fs::File::open(o.path.join(\"meta\"))?)?;\n            flock = flock::Flock::lock(&o.path, \".lock\")?;\n",
  "D1|store::Store::open|")
m("c20-lock-unchecked", "C20", "nomt/src/store/mod.rs",
  "    let flock = Flock::lock(&o.path, \".lock\")?;\n\n    let meta_fd",
  "    let flock = Flock::lock(&o.path, \".lock\");\n    let flock = match flock { Ok(f) => f, Err(_) => Flock::lock(&o.path, \".lock2\")? };\n\n    let meta_fd",
  "D1|store::create|lock-call")
m("c20-unlock-elsewhere", "C20", "nomt/src/store/flock.rs",
  "impl Drop for Flock {",
  "impl Flock {\n    pub fn release_early(&self) {\n        let _ = crate::sys::unix::unlock(&self.lock_fd);\n    }\n}\n\nimpl Drop for Flock {",
  "D4|sys::unix::unlock|single-unlock-site")
m("c20-flock-not-stored", "C20", "nomt/src/store/mod.rs",
  "                flock: Some(flock),\n",
  "                flock: { drop(flock); None },\n",
  "D3|store::Store::open|")

# ---------------- C08 ----------------
m("c08-confirm-without-scope", "C08", "core/src/proof/path_proof.rs",
  "        self.in_scope(&expected_leaf.key_path)\n            .map(|_| self.terminal() == Some(expected_leaf))",
  "        Ok(self.terminal() == Some(expected_leaf))",
  "S2|proof::path_proof::VerifiedPathProof::confirm_value|ok-depends-on-scope")
m("c08-construct-on-mismatch", "C08", "core/src/proof/path_proof.rs",
  "        } else {\n            Err(PathProofVerificationError::RootMismatch)\n        }\n    }\n}",
  "        } else if self.siblings.is_empty() {\n            Ok(VerifiedPathProof { key_path: relevant_path.into(), terminal: None, siblings: Vec::new(), root })\n        } else {\n            Err(PathProofVerificationError::RootMismatch)\n        }\n    }\n}",
  "S1|proof::path_proof::PathProof::verify|construct-behind-root-eq")
m("c08-delete-opoutofscope", "C08", "core/src/proof/path_proof.rs",
  "            if !key.view_bits::<Msb0>().starts_with(path.inner.path()) {\n                return Err(VerifyUpdateError::OpOutOfScope);\n            }\n",
  "",
  "S3|proof::path_proof::VerifyUpdateError|variant=OpOutOfScope")
m("c08-delete-multi-root-check", "C08", "core/src/proof/multi_proof.rs",
  "    if root != new_root {\n        return Err(MultiProofVerificationError::RootMismatch);\n    }\n",
  "    let _ = new_root;\n",
  "S1|proof::multi_proof::verify|root-comparison")
m("c08-with-index-no-scope", "C08", "core/src/proof/multi_proof.rs",
  "        if in_scope {\n            Ok(self.confirm_value_inner(&expected_leaf, index))\n        } else {\n            Err(KeyOutOfScope)\n        }",
  "        let _ = in_scope;\n        Ok(self.confirm_value_inner(&expected_leaf, index))",
  "S2|proof::multi_proof::VerifiedMultiProof::confirm_value_with_index|ok-depends-on-scope")
m("c08-pub-fields", "C08", "core/src/proof/path_proof.rs",
  "pub struct VerifiedPathProof {\n    key_path: BitVec<u8, Msb0>,",
  "pub struct VerifiedPathProof {\n    pub key_path: BitVec<u8, Msb0>,",
  None)  # one public field does not make the struct constructible: stays silent
m("c08-all-pub-fields", "C08", "core/src/proof/multi_proof.rs",
  "pub struct VerifiedMultiProof {\n    inner: Vec<VerifiedMultiPath>,\n    bisections: Vec<VerifiedBisection>,\n    siblings: Vec<Node>,\n    root: Node,\n}",
  "pub struct VerifiedMultiProof {\n    pub inner: Vec<VerifiedMultiPath>,\n    pub bisections: Vec<VerifiedBisection>,\n    pub siblings: Vec<Node>,\n    pub root: Node,\n}",
  "witness|witness::C08VerifiedMultiProofNotConstructible")
# ---------------- C12 witnesses ----------------
m("c12-commit-by-ref", "C12", "nomt/src/overlay.rs",
  "    /// Mark the overlay as committed and return a marker.",
  "    /// Clone-like handle (test of the witness).\n    pub fn dup(&self) -> Self {\n        Overlay { inner: self.inner.clone() }\n    }\n\n    /// Mark the overlay as committed and return a marker.",
  None)  # an explicit duplicate is a different API, the move-semantics witness still holds: silent

# ---------------- C15 ----------------
m("c15-seglog-before-in-memory", "C15", "nomt/src/rollback/mod.rs",
  "        let mut in_memory = self.shared.in_memory.lock();\n        let mut seglog = self.shared.seglog.lock();\n\n        let record_id = seglog.append(&delta_bytes)?;\n        in_memory.push_recent(record_id, delta);\n        Ok(())",
  "        let mut seglog = self.shared.seglog.lock();\n        let mut in_memory = self.shared.in_memory.lock();\n\n        let record_id = seglog.append(&delta_bytes)?;\n        in_memory.push_recent(record_id, delta);\n        Ok(())",
  "L1|lock-order|cycle|")
m("c15-drop-read-guard-in-read", "C15", "nomt/src/lib.rs",
  "        let _guard = self.access_lock.read();\n        self.store.load_value(path)",
  "        self.store.load_value(path)",
  "C15|L8|Nomt::read|read-under-access-guard")  # was expected silent (a single lookup is atomic under Tree.shared) until seed C15-n showed the observable: root() of commit n, read(k) of commit n-1
m("c15-delta-builder-before-guard", "C15", "nomt/src/lib.rs",
  "        let access_guard = params\n            .take_global_guard\n            .then(|| RwLock::read_arc(&self.access_lock));\n\n        let store = self.store.clone();\n        let rollback_delta = if params.record_rollback_delta {\n            self.store\n                .rollback()\n                .map(|r| r.delta_builder(&store, &live_overlay))\n        } else {\n            None\n        };\n",
  "        let store = self.store.clone();\n        let rollback_delta = if params.record_rollback_delta {\n            self.store\n                .rollback()\n                .map(|r| r.delta_builder(&store, &live_overlay))\n        } else {\n            None\n        };\n        let access_guard = params\n            .take_global_guard\n            .then(|| RwLock::read_arc(&self.access_lock));\n",
  "L6|Nomt::begin_session|guard-before|")
m("c15-no-guard-in-begin-session", "C15", "nomt/src/lib.rs",
  "        let access_guard = params\n            .take_global_guard\n            .then(|| RwLock::read_arc(&self.access_lock));\n",
  "        let access_guard = if false { Some(RwLock::read_arc(&self.access_lock)) } else { None };\n        let _ = params.take_global_guard;\n",
  "L6|Nomt::begin_session|")
m("c15-block-after-take", "C15", "nomt/src/beatree/mod.rs",
  "            read_transaction_counter.block_until_zero();\n\n            // It is safe for a read transaction to be created here, since it follows the conclusion\n            // of the most recent sync and therefore references no logically free pages.\n\n            let mut shared = shared.write();\n            staged_changeset = shared.take_staged_changeset();\n",
  "            let mut shared = shared.write();\n            staged_changeset = shared.take_staged_changeset();\n            read_transaction_counter.block_until_zero();\n",
  "L7|beatree::Tree::prepare_sync|barrier-before|take_staged_changeset")
m("c15-overlay-commit-without-write-guard", "C15", "nomt/src/lib.rs",
  "        let _write_guard = nomt.access_lock.write();\n\n        {\n            let mut shared = nomt.shared.lock();\n            if shared.root != self.prev_root() {",
  "        let _write_guard = nomt.access_lock.read();\n\n        {\n            let mut shared = nomt.shared.lock();\n            if shared.root != self.prev_root() {",
  "L2|overlay::Overlay::commit|call=")
m("c15-guard-dropped-between-check-and-set", "C15", "nomt/src/lib.rs",
  "        let _write_guard = self.take_global_guard.then(|| nomt.access_lock.write());\n\n        {\n            let mut shared = nomt.shared.lock();\n            if shared.root != self.prev_root {\n                anyhow::bail!(\n                    \"Changeset no longer valid (expected previous root {:?}, got {:?})\",\n                    self.prev_root,\n                    shared.root\n                );\n            }\n            shared.root = Root(self.merkle_output.root);",
  "        let _write_guard = self.take_global_guard.then(|| nomt.access_lock.write());\n\n        {\n            let shared = nomt.shared.lock();\n            if shared.root != self.prev_root {\n                anyhow::bail!(\n                    \"Changeset no longer valid (expected previous root {:?}, got {:?})\",\n                    self.prev_root,\n                    shared.root\n                );\n            }\n        }\n        drop(_write_guard);\n        let _write_guard = self.take_global_guard.then(|| nomt.access_lock.write());\n        {\n            let mut shared = nomt.shared.lock();\n            shared.root = Root(self.merkle_output.root);",
  "L5|FinishedSession::commit|one-write-guard")
m("c15-root-store-without-shared-lock", "C15", "nomt/src/lib.rs",
  "    pub fn root(&self) -> Root {\n        self.shared.lock().root.clone()\n    }",
  "    pub fn root(&self) -> Root {\n        self.shared.lock().root.clone()\n    }\n\n    /// helper\n    pub fn relock(&self) {\n        let _a = self.shared.lock();\n        let _b = self.shared.lock();\n    }",
  "L1|Nomt::relock|nested|Nomt.shared")
m("c15-set-guardless-in-api", "C15", "nomt/src/lib.rs",
  "    pub fn witness_mode(mut self, witness: WitnessMode) -> Self {\n",
  "    pub fn unguarded(mut self) -> Self {\n        self.take_global_guard = false;\n        self\n    }\n\n    /// Witness.\n    pub fn witness_mode(mut self, witness: WitnessMode) -> Self {\n",
  "L3|SessionParams::unguarded|take_global_guard=false")
m("c15-snapshot-before-add-one", "C15", "nomt/src/beatree/mod.rs",
  "        self.read_transaction_counter.add_one();\n        let shared = self.shared.read();\n",
  "        let shared = self.shared.read();\n        self.read_transaction_counter.add_one();\n",
  "L7|beatree::Tree::read_transaction|add_one-before-snapshot")
m("c15-sync-lock-inside-tree-shared", "C15", "nomt/src/beatree/mod.rs",
  "    pub fn lookup(&self, key: Key) -> Option<Vec<u8>> {\n        let shared = self.shared.read();\n",
  "    pub fn lookup(&self, key: Key) -> Option<Vec<u8>> {\n        let shared = self.shared.read();\n        let _no_sync = self.sync.lock();\n",
  "L1|lock-order|cycle|")
m("c15-benign-extra-lock-leaf", "C15", "nomt/src/beatree/mod.rs",
  "    fn finish_sync(shared: &Arc<RwLock<Shared>>, bbn_index: Index) {\n        // Take the shared lock again to complete the update to the new shared state\n        let mut shared = shared.write();\n",
  "    fn finish_sync(shared: &Arc<RwLock<Shared>>, bbn_index: Index) {\n        // Take the shared lock again to complete the update to the new shared state\n        let mut shared = shared.write();\n        let _tracked = shared.leaf_store.all_tracked_freelist_pages();\n",
  None)  # Tree.shared -> allocator Store.sync: a new order pair but no cycle (the allocator guard is released pre-meta): silent

# ---------------- behaviour-preserving refactors: every check must stay silent -------------------
m("benign-root-check-helper", "C12", "nomt/src/lib.rs",
  "        {\n            let mut shared = nomt.shared.lock();\n            if shared.root != self.prev_root {\n                anyhow::bail!(\n                    \"Changeset no longer valid (expected previous root {:?}, got {:?})\",\n                    self.prev_root,\n                    shared.root\n                );\n            }\n            shared.root = Root(self.merkle_output.root);\n            shared.last_commit_marker = None;\n        }\n\n        if let Some(rollback_delta) = self.rollback_delta {\n            // UNWRAP: if rollback_delta is `Some`, then rollback must be also `Some`.\n            let rollback = nomt.store.rollback().unwrap();\n            if let Err(e) = rollback.commit(rollback_delta) {",
  "        {\n            let mut shared = nomt.shared.lock();\n            ensure_base(&shared, &self.prev_root)?;\n            shared.root = Root(self.merkle_output.root);\n            shared.last_commit_marker = None;\n        }\n\n        if let Some(rollback_delta) = self.rollback_delta {\n            // UNWRAP: if rollback_delta is `Some`, then rollback must be also `Some`.\n            let rollback = nomt.store.rollback().unwrap();\n            if let Err(e) = rollback.commit(rollback_delta) {",
  None,
  also=[("nomt/src/lib.rs", "fn compute_root_node<H: HashAlgorithm>(", "fn ensure_base(shared: &Shared, prev_root: &Root) -> anyhow::Result<()> {\n    if shared.root != *prev_root {\n        anyhow::bail!(\"Changeset no longer valid (expected previous root {:?}, got {:?})\", prev_root, shared.root);\n    }\n    Ok(())\n}\n\nfn compute_root_node<H: HashAlgorithm>(")])
m("benign-match-instead-of-question-mark", "C04", "nomt/src/bitbox/writeout.rs",
  "    wal_fd.write_all(wal_blob)?;\n    wal_fd.sync_all()?;\n    Ok(())",
  "    wal_fd.write_all(wal_blob)?;\n    match wal_fd.sync_all() {\n        Ok(()) => Ok(()),\n        Err(e) => Err(e),\n    }",
  None)
m("benign-match-instead-of-question-mark-c14", "C14", "nomt/src/bitbox/writeout.rs",
  "    wal_fd.write_all(wal_blob)?;\n    wal_fd.sync_all()?;\n    Ok(())",
  "    wal_fd.write_all(wal_blob)?;\n    match wal_fd.sync_all() {\n        Ok(()) => Ok(()),\n        Err(e) => Err(e),\n    }",
  None)
m("benign-sync-helper", "C04", "nomt/src/store/meta.rs",
  "        fd.write_all_at(&page[..], 0)?;\n        fd.sync_all()?;\n        Ok(())\n    }",
  "        fd.write_all_at(&page[..], 0)?;\n        Self::flush(fd)\n    }\n\n    fn flush(fd: &File) -> std::io::Result<()> {\n        fd.sync_all()?;\n        Ok(())\n    }",
  None)
m("benign-sync-helper-c03", "C03", "nomt/src/store/meta.rs",
  "        fd.write_all_at(&page[..], 0)?;\n        fd.sync_all()?;\n        Ok(())\n    }",
  "        fd.write_all_at(&page[..], 0)?;\n        Self::flush(fd)\n    }\n\n    fn flush(fd: &File) -> std::io::Result<()> {\n        fd.sync_all()?;\n        Ok(())\n    }",
  None)
m("benign-logging-in-sync", "C03", "nomt/src/store/sync.rs",
  "        bitbox_pre_meta?;\n        let beatree_meta_wd = beatree_pre_meta?;\n",
  "        bitbox_pre_meta?;\n        let beatree_meta_wd = beatree_pre_meta?;\n        let _elapsed = std::time::Instant::now();\n",
  None)
m("benign-post-meta-reorder", "C03", "nomt/src/store/sync.rs",
  "        let bitbox_post_meta = bitbox_sync.post_meta(shared.io_pool.make_handle());\n        if bitbox_post_meta.is_ok() {\n            beatree_sync.post_meta();\n        }\n",
  "        beatree_sync.post_meta();\n        let bitbox_post_meta = bitbox_sync.post_meta(shared.io_pool.make_handle());\n",
  None)
m("benign-post-meta-reorder-c17", "C17", "nomt/src/store/sync.rs",
  "        let bitbox_post_meta = bitbox_sync.post_meta(shared.io_pool.make_handle());\n        if bitbox_post_meta.is_ok() {\n            beatree_sync.post_meta();\n        }\n",
  "        beatree_sync.post_meta();\n        let bitbox_post_meta = bitbox_sync.post_meta(shared.io_pool.make_handle());\n",
  None)
m("benign-truncate-with-if-let", "C09", "nomt/src/rollback/mod.rs",
  "        let mut in_memory = self.shared.in_memory.lock();\n        if n > in_memory.total_len() {\n            return Ok(None);\n        }\n",
  "        let mut in_memory = self.shared.in_memory.lock();\n        let available = in_memory.total_len();\n        if available < n {\n            return Ok(None);\n        }\n",
  None)
m("benign-lock-scope-shorter", "C15", "nomt/src/rollback/mod.rs",
  "        let mut in_memory = self.shared.in_memory.lock();\n        let seglog = self.shared.seglog.lock();\n\n        let pending_truncate = in_memory.pending_truncate.take();\n",
  "        let mut in_memory = self.shared.in_memory.lock();\n        let pending_truncate = in_memory.pending_truncate.take();\n        let seglog = self.shared.seglog.lock();\n",
  None)
m("benign-verify-early-return-style", "C08", "core/src/proof/path_proof.rs",
  "        if new_root == root {\n            Ok(VerifiedPathProof {\n                key_path: relevant_path.into(),\n                terminal: match &self.terminal {\n                    PathProofTerminal::Leaf(leaf_data) => Some(leaf_data.clone()),\n                    PathProofTerminal::Terminator(_) => None,\n                },\n                siblings: self.siblings.clone(),\n                root,\n            })\n        } else {\n            Err(PathProofVerificationError::RootMismatch)\n        }",
  "        if new_root != root {\n            return Err(PathProofVerificationError::RootMismatch);\n        }\n        Ok(VerifiedPathProof {\n            key_path: relevant_path.into(),\n            terminal: match &self.terminal {\n                PathProofTerminal::Leaf(leaf_data) => Some(leaf_data.clone()),\n                PathProofTerminal::Terminator(_) => None,\n            },\n            siblings: self.siblings.clone(),\n            root,\n        })",
  None)
m("benign-verify-early-return-style-c18", "C18", "core/src/proof/path_proof.rs",
  "        if new_root == root {\n            Ok(VerifiedPathProof {\n                key_path: relevant_path.into(),\n                terminal: match &self.terminal {\n                    PathProofTerminal::Leaf(leaf_data) => Some(leaf_data.clone()),\n                    PathProofTerminal::Terminator(_) => None,\n                },\n                siblings: self.siblings.clone(),\n                root,\n            })\n        } else {\n            Err(PathProofVerificationError::RootMismatch)\n        }",
  "        if new_root != root {\n            return Err(PathProofVerificationError::RootMismatch);\n        }\n        Ok(VerifiedPathProof {\n            key_path: relevant_path.into(),\n            terminal: match &self.terminal {\n                PathProofTerminal::Leaf(leaf_data) => Some(leaf_data.clone()),\n                PathProofTerminal::Terminator(_) => None,\n            },\n            siblings: self.siblings.clone(),\n            root,\n        })",
  None)
m("benign-flock-match-style", "C20", "nomt/src/store/flock.rs",
  "        match crate::sys::unix::try_lock_exclusive(&lock_fd) {\n            Ok(_) => Ok(Self { lock_fd }),\n            Err(e) => {\n                anyhow::bail!(\"Failed to lock directory: {e}\");\n            }\n        }",
  "        if let Err(e) = crate::sys::unix::try_lock_exclusive(&lock_fd) {\n            anyhow::bail!(\"Failed to lock directory: {e}\");\n        }\n        Ok(Self { lock_fd })",
  None)
m("benign-poison-helper-use", "C14", "nomt/src/store/mod.rs",
  "            self.shared\n                .poisoned\n                .store(true, std::sync::atomic::Ordering::Relaxed);\n            return Err(e);",
  "            self.poison();\n            return Err(e);",
  None)

m("c18-nonstrict-op-order", "C18", "core/src/proof/path_proof.rs",
  "            if j != 0 && &path.ops[j - 1].0 >= key {",
  "            if j != 0 && &path.ops[j - 1].0 > key {",
  "precondition=ops_strictly_ascending|established")
m("c18-nonstrict-op-order-multi", "C18", "core/src/proof/multi_proof.rs",
  "                if key <= last_key {\n                    return Err(MultiVerifyUpdateError::OpsOutOfOrder);",
  "                if key < last_key {\n                    return Err(MultiVerifyUpdateError::OpsOutOfOrder);",
  "precondition=ops_strictly_ascending|established")
m("benign-op-order-flipped-operands", "C18", "core/src/proof/multi_proof.rs",
  "                if key <= last_key {\n                    return Err(MultiVerifyUpdateError::OpsOutOfOrder);",
  "                if last_key >= key {\n                    return Err(MultiVerifyUpdateError::OpsOutOfOrder);",
  None)

m("benign-rename-local-in-verifier", "C18", "core/src/proof/path_proof.rs",
  "        let relevant_path = &key_path[..self.siblings.len()];\n\n        let cur_node = self.terminal.node::<H>();\n\n        let new_root = hash_path::<H>(cur_node, relevant_path, self.siblings.iter().rev().cloned());",
  "        let used_path = &key_path[..self.siblings.len()];\n        let relevant_path = used_path;\n\n        let start_node = self.terminal.node::<H>();\n\n        let new_root = hash_path::<H>(start_node, relevant_path, self.siblings.iter().rev().cloned());",
  None)

m("c14-log-and-continue", "C14", "nomt/src/bitbox/writeout.rs",
  "    ht_fd.sync_all()?;\n\n    Ok(())",
  "    if let Err(e) = ht_fd.sync_all() {\n        eprintln!(\"hash-table fsync failed: {e}\");\n    }\n\n    Ok(())",
  "R1|bitbox::writeout::write_ht|call=std::fs::File::sync_all")
m("c14-log-and-continue-match", "C14", "nomt/src/store/meta.rs",
  "        fd.sync_all()?;\n        Ok(())",
  "        match fd.sync_all() {\n            Ok(()) => {}\n            Err(e) => eprintln!(\"meta fsync failed: {e}\"),\n        }\n        Ok(())",
  "R1|store::meta::Meta::write|call=std::fs::File::sync_all")
m("benign-explicit-err-return", "C14", "nomt/src/store/meta.rs",
  "        fd.sync_all()?;\n        Ok(())",
  "        if let Err(e) = fd.sync_all() {\n            eprintln!(\"meta fsync failed: {e}\");\n            return Err(e);\n        }\n        Ok(())",
  None)

m("benign-meta-write-helper", "C03", "nomt/src/store/sync.rs",
  "        Meta::write(&shared.io_pool.page_pool(), &shared.meta_fd, &new_meta)?;\n        self.sync_seqn += 1;\n",
  "        Self::switch_over(shared, &new_meta)?;\n        self.sync_seqn += 1;\n",
  None,
  also=[("nomt/src/store/sync.rs", "    pub fn sync(\n        &mut self,", "    fn switch_over(shared: &Shared, new_meta: &Meta) -> std::io::Result<()> {\n        Meta::write(&shared.io_pool.page_pool(), &shared.meta_fd, new_meta)\n    }\n\n    pub fn sync(\n        &mut self,")])
m("benign-meta-write-helper-c04", "C04", "nomt/src/store/sync.rs",
  "        Meta::write(&shared.io_pool.page_pool(), &shared.meta_fd, &new_meta)?;\n        self.sync_seqn += 1;\n",
  "        Self::switch_over(shared, &new_meta)?;\n        self.sync_seqn += 1;\n",
  None,
  also=[("nomt/src/store/sync.rs", "    pub fn sync(\n        &mut self,", "    fn switch_over(shared: &Shared, new_meta: &Meta) -> std::io::Result<()> {\n        Meta::write(&shared.io_pool.page_pool(), &shared.meta_fd, new_meta)\n    }\n\n    pub fn sync(\n        &mut self,")])
m("benign-join-then-check", "C03", "nomt/src/bitbox/mod.rs",
  "        join_task(&self.begin_sync_result_rx)?;\n        join_task(&self.pre_meta_result_rx)?;\n        Ok(())",
  "        let begun = join_task(&self.begin_sync_result_rx);\n        begun?;\n        let wal_written = join_task(&self.pre_meta_result_rx);\n        wal_written?;\n        Ok(())",
  None)
m("benign-extra-lock-free-helper", "C15", "nomt/src/lib.rs",
  "    pub fn root(&self) -> Root {\n        self.shared.lock().root.clone()\n    }",
  "    pub fn root(&self) -> Root {\n        let shared = self.shared.lock();\n        let root = shared.root.clone();\n        drop(shared);\n        root\n    }",
  None)

m("benign-commit-inner-helper", "C12", "nomt/src/lib.rs",
  "    pub fn commit<T: HashAlgorithm>(self, nomt: &Nomt<T>) -> Result<(), anyhow::Error> {\n        let _write_guard = self.take_global_guard.then(|| nomt.access_lock.write());\n\n        {",
  "    pub fn commit<T: HashAlgorithm>(self, nomt: &Nomt<T>) -> Result<(), anyhow::Error> {\n        let _write_guard = self.take_global_guard.then(|| nomt.access_lock.write());\n        self.commit_locked(nomt)\n    }\n\n    fn commit_locked<T: HashAlgorithm>(self, nomt: &Nomt<T>) -> Result<(), anyhow::Error> {\n        {",
  None)
m("benign-commit-inner-helper-c15", "C15", "nomt/src/lib.rs",
  "    pub fn commit<T: HashAlgorithm>(self, nomt: &Nomt<T>) -> Result<(), anyhow::Error> {\n        let _write_guard = self.take_global_guard.then(|| nomt.access_lock.write());\n\n        {",
  "    pub fn commit<T: HashAlgorithm>(self, nomt: &Nomt<T>) -> Result<(), anyhow::Error> {\n        let _write_guard = self.take_global_guard.then(|| nomt.access_lock.write());\n        self.commit_locked(nomt)\n    }\n\n    fn commit_locked<T: HashAlgorithm>(self, nomt: &Nomt<T>) -> Result<(), anyhow::Error> {\n        {",
  None)
m("benign-commit-inner-helper-c14", "C14", "nomt/src/lib.rs",
  "    pub fn commit<T: HashAlgorithm>(self, nomt: &Nomt<T>) -> Result<(), anyhow::Error> {\n        let _write_guard = self.take_global_guard.then(|| nomt.access_lock.write());\n\n        {",
  "    pub fn commit<T: HashAlgorithm>(self, nomt: &Nomt<T>) -> Result<(), anyhow::Error> {\n        let _write_guard = self.take_global_guard.then(|| nomt.access_lock.write());\n        self.commit_locked(nomt)\n    }\n\n    fn commit_locked<T: HashAlgorithm>(self, nomt: &Nomt<T>) -> Result<(), anyhow::Error> {\n        {",
  None)

m("c14-completion-error-to-ok", "C14", "nomt/src/io/linux.rs",
  "                    IoKindResult::Err => Err(std::io::Error::from_raw_os_error(io_uring_res.abs())),",
  "                    IoKindResult::Err => {\n                        eprintln!(\"io error {}\", io_uring_res);\n                        Ok(())\n                    }",
  "R6|")

m("c14-short-io-classified-ok", "C14", "nomt/src/io/mod.rs",
  "            _ if res == PAGE_SIZE as isize => IoKindResult::Ok,",
  "            _ if res >= 0 => IoKindResult::Ok,",
  "R6|io::IoKind::get_result")
m("c14-failed-io-classified-ok", "C14", "nomt/src/io/mod.rs",
  "                if matches!(os_err.kind(), std::io::ErrorKind::Interrupted) {\n                    IoKindResult::Retry\n                } else {\n                    IoKindResult::Err\n                }",
  "                if matches!(os_err.kind(), std::io::ErrorKind::Interrupted) {\n                    IoKindResult::Retry\n                } else if matches!(os_err.kind(), std::io::ErrorKind::WouldBlock) {\n                    IoKindResult::Ok\n                } else {\n                    IoKindResult::Err\n                }",
  "R6|io::IoKind::get_result")
m("benign-classifier-cast-other-side", "C14", "nomt/src/io/mod.rs",
  "            _ if res == PAGE_SIZE as isize => IoKindResult::Ok,",
  "            _ if res as usize == PAGE_SIZE => IoKindResult::Ok,",
  None)

# ---- C18 termination (T1-T3) ----
m("c18-loop-counter-not-advanced", "C18", "core/src/proof/multi_proof.rs",
  "            while !terminal_contains(&proof.inner[next_terminal_index], &key) {\n                next_terminal_index += 1;\n                if proof.inner.len() <= next_terminal_index {",
  "            while !terminal_contains(&proof.inner[next_terminal_index], &key) {\n                if proof.inner.len() <= next_terminal_index + 1 {",
  "T1|proof::multi_proof::verify_update|loop#1|counter")
m("c18-for-over-open-range", "C18", "core/src/proof/multi_proof.rs",
  "    for i in 0..multi_proof.paths.len() {\n        let path = &multi_proof.paths[i];",
  "    for i in 0.. {\n        if i > multi_proof.paths.len() {\n            break;\n        }\n        let path = &multi_proof.paths[i % multi_proof.paths.len().max(1)];",
  "T1|proof::multi_proof::verify|loop#1")
m("c18-recursion-measure-not-increasing", "C18", "core/src/proof/multi_proof.rs",
  "    let (left_node, left_siblings_used) = verify_range::<H>(\n        uncommon_start_len,",
  "    let (left_node, left_siblings_used) = verify_range::<H>(\n        common_len,",
  "T2|proof::multi_proof::verify_range|measure-increases")
m("c18-recursion-bound-removed", "C18", "core/src/proof/multi_proof.rs",
  "    if start_depth > start_bits.len() || start_depth > end_bits.len() {\n        return Err(MultiProofVerificationError::MalformedProof);\n    }",
  "    let start_depth = start_depth.min(start_bits.len()).min(end_bits.len());",
  "T2|proof::multi_proof::verify_range|measure-bounded")
m("c18-pop-loop-regrows", "C18", "core/src/proof/multi_proof.rs",
  "        while self.stack.last().map_or(false, |(d, _)| *d >= depth) {\n            let _ = self.stack.pop();\n        }",
  "        while self.stack.last().map_or(false, |(d, _)| *d >= depth) {\n            if let Some((d, n)) = self.stack.pop() {\n                if d > depth + 256 {\n                    self.stack.push((d - 1, n));\n                }\n            }\n        }",
  "T1|proof::multi_proof::CommonSiblings::pop_to|loop#2|pop")
m("benign-for-range-to-enumerate", "C18", "core/src/proof/multi_proof.rs",
  "    for i in 0..multi_proof.paths.len() {\n        let path = &multi_proof.paths[i];",
  "    for (i, _) in multi_proof.paths.iter().enumerate() {\n        let path = &multi_proof.paths[i];",
  None)

# ---- C12 H1 hand-back integrity ----
m("c12-handback-without-restoring-delta", "C12", "nomt/src/lib.rs",
  "                Ok(Some(delta)) => {\n                    self.rollback_delta = Some(delta);\n                    return Ok(Some(self));",
  "                Ok(Some(delta)) => {\n                    drop(delta);\n                    self.rollback_delta = None;\n                    return Ok(Some(self));",
  "H1|FinishedSession::try_commit_nonblocking|hand-back-intact")
m("c12-handback-after-taking-pages", "C12", "nomt/src/lib.rs",
  "        let write_guard = self\n            .take_global_guard\n            .then(|| nomt.access_lock.try_write())\n            .flatten();\n        if write_guard.is_none() {\n            return Ok(Some(self));",
  "        let witness = self.merkle_output.witness.take();\n        let write_guard = self\n            .take_global_guard\n            .then(|| nomt.access_lock.try_write())\n            .flatten();\n        if write_guard.is_none() {\n            return Ok(Some(self));\n        }\n        self.merkle_output.witness = witness;\n        if false {\n            return Ok(Some(self));",
  "H1|FinishedSession::try_commit_nonblocking|hand-back-intact")
m("benign-handback-restore-via-local", "C12", "nomt/src/lib.rs",
  "                Ok(Some(delta)) => {\n                    self.rollback_delta = Some(delta);\n                    return Ok(Some(self));",
  "                Ok(Some(delta)) => {\n                    let restored = Some(delta);\n                    self.rollback_delta = restored;\n                    let session = self;\n                    return Ok(Some(session));",
  None)

# ---- C09 M1 ownership of the in-memory rollback log ----
m("c09-pop-recent-takes-oldest", "C09", "nomt/src/rollback/mod.rs",
  "    fn pop_recent(&mut self) -> Option<(RecordId, Delta)> {\n        self.log.pop_back()",
  "    fn pop_recent(&mut self) -> Option<(RecordId, Delta)> {\n        self.log.pop_front()",
  "M1|rollback::InMemory|role=shrink-newest")
m("c09-prune-drains-log", "C09", "nomt/src/rollback/mod.rs",
  "    fn pop_oldest(&mut self) -> Option<(RecordId, Delta)> {\n        self.log.pop_front()",
  "    fn pop_oldest(&mut self) -> Option<(RecordId, Delta)> {\n        self.log.drain(..1).next()",
  "M1|rollback::InMemory::pop_oldest|method=drain")
m("benign-total-len-via-iter", "C09", "nomt/src/rollback/mod.rs",
  "    fn total_len(&self) -> usize {\n        self.log.len()",
  "    fn total_len(&self) -> usize {\n        self.log.iter().count()",
  None)

# ---- C12 / C11 G2: the handle is only locked and read before the refusal guards ----
m("c12-cache-evicted-before-root-check", "C12", "nomt/src/lib.rs",
  "        let _write_guard = self.take_global_guard.then(|| nomt.access_lock.write());\n\n        {\n            let mut shared = nomt.shared.lock();\n            if shared.root != self.prev_root {",
  "        let _write_guard = self.take_global_guard.then(|| nomt.access_lock.write());\n        nomt.page_cache.evict();\n\n        {\n            let mut shared = nomt.shared.lock();\n            if shared.root != self.prev_root {",
  "G2|FinishedSession::commit|call=page_cache::PageCache::evict")
m("c12-overlay-pages-cached-before-root-check", "C12", "nomt/src/lib.rs",
  "        let rollback_delta = self.rollback_delta().map(|delta| delta.clone());\n\n        let _write_guard = nomt.access_lock.write();\n",
  "        let rollback_delta = self.rollback_delta().map(|delta| delta.clone());\n\n        let _write_guard = nomt.access_lock.write();\n        nomt.page_cache.batch_update(Vec::new());\n",
  "G2|overlay::Overlay::commit|call=page_cache::PageCache::batch_update")
m("c12-poisoned-flag-touched-before-check", "C12", "nomt/src/lib.rs",
  "        // The previous root must be checked before the rollback delta is recorded: a stale\n",
  "        nomt.store.poison();\n        // The previous root must be checked before the rollback delta is recorded: a stale\n",
  "FinishedSession::try_commit_nonblocking|effect=Store::poison|guard=root_eq")
m("benign-read-metrics-before-root-check", "C12", "nomt/src/lib.rs",
  "        let _write_guard = self.take_global_guard.then(|| nomt.access_lock.write());\n\n        {\n            let mut shared = nomt.shared.lock();\n            if shared.root != self.prev_root {",
  "        let _write_guard = self.take_global_guard.then(|| nomt.access_lock.write());\n        let _cached = nomt.page_cache.get(nomt_core::page_id::ROOT_PAGE_ID).is_some();\n        let _poisoned = nomt.store.is_poisoned();\n\n        {\n            let mut shared = nomt.shared.lock();\n            if shared.root != self.prev_root {",
  None)
# ---- C11 S2 merge frontier (elided subtree reconstruction under an overlay chain) ----
m("c11-merge-tail-dropped", "C11", "nomt/src/merkle/seek.rs",
  "            final_leaf_data_collection.extend_from_slice(&collected_leaf_data[beatree_leaf_idx..]);",
  "            let _ = beatree_leaf_idx;",
  "C11|S2|merkle::seek::SeekRequest::continue_leaves_fetch|every-stored-leaf-handled")
m("c11-merge-supersede-unconditional", "C11", "nomt/src/merkle/seek.rs",
  "                if key_path == Some(&overlay_key) {\n                    // The leaf data has been updated in the overlay.\n                    beatree_leaf_idx += 1;\n                }",
  "                let _ = key_path;\n                beatree_leaf_idx += 1;",
  "C11|S2|merkle::seek::SeekRequest::continue_leaves_fetch|every-stored-leaf-handled")
m("c11-merge-copy-after-match", "C11", "nomt/src/merkle/seek.rs",
  "                final_leaf_data_collection\n                    .extend_from_slice(&collected_leaf_data[start_idx..beatree_leaf_idx]);\n                let key_path = collected_leaf_data",
  "                let key_path = collected_leaf_data",
  "C11|S2|merkle::seek::SeekRequest::continue_leaves_fetch|every-stored-leaf-handled",
  also=[("nomt/src/merkle/seek.rs",
         "                if key_path == Some(&overlay_key) {\n                    // The leaf data has been updated in the overlay.",
         "                final_leaf_data_collection\n                    .extend_from_slice(&collected_leaf_data[start_idx..beatree_leaf_idx]);\n                if key_path == Some(&overlay_key) {\n                    // The leaf data has been updated in the overlay.")])
m("c11-merge-copy-starts-at-cursor", "C11", "nomt/src/merkle/seek.rs",
  "                    .extend_from_slice(&collected_leaf_data[start_idx..beatree_leaf_idx]);",
  "                    .extend_from_slice(&collected_leaf_data[beatree_leaf_idx.min(start_idx + 1)..beatree_leaf_idx]);",
  "C11|S2|merkle::seek::SeekRequest::continue_leaves_fetch|every-stored-leaf-handled")
m("benign-merge-copied-upto-variable", "C11", "nomt/src/merkle/seek.rs",
  "            for (overlay_key, overlay_valuechange) in overlay.value_iter(range.0, range.1) {\n                let start_idx = beatree_leaf_idx;\n",
  "            let mut start_idx = 0;\n            for (overlay_key, overlay_valuechange) in overlay.value_iter(range.0, range.1) {\n",
  None,
  also=[("nomt/src/merkle/seek.rs",
         "                    ValueChange::Delete if key_path == Some(&overlay_key) => {\n                        beatree_leaf_idx += 1;\n                        continue;\n                    }",
         "                    ValueChange::Delete if key_path == Some(&overlay_key) => {\n                        beatree_leaf_idx += 1;\n                        start_idx = beatree_leaf_idx;\n                        continue;\n                    }"),
        ("nomt/src/merkle/seek.rs",
         "                    ValueChange::Delete => continue,\n                };",
         "                    ValueChange::Delete => {\n                        start_idx = beatree_leaf_idx;\n                        continue;\n                    }\n                };"),
        ("nomt/src/merkle/seek.rs",
         "                final_leaf_data_collection.push((overlay_key, value_hash));\n            }",
         "                start_idx = beatree_leaf_idx;\n                final_leaf_data_collection.push((overlay_key, value_hash));\n            }")])
m("benign-merge-naked-delete-keeps-start", "C11", "nomt/src/merkle/seek.rs",
  "            for (overlay_key, overlay_valuechange) in overlay.value_iter(range.0, range.1) {\n                let start_idx = beatree_leaf_idx;\n",
  "            let mut start_idx = 0;\n            for (overlay_key, overlay_valuechange) in overlay.value_iter(range.0, range.1) {\n",
  None,
  also=[("nomt/src/merkle/seek.rs",
         "                final_leaf_data_collection\n                    .extend_from_slice(&collected_leaf_data[start_idx..beatree_leaf_idx]);\n                let key_path = collected_leaf_data",
         "                let key_path = collected_leaf_data"),
        ("nomt/src/merkle/seek.rs",
         "                    ValueChange::Delete if key_path == Some(&overlay_key) => {\n                        beatree_leaf_idx += 1;\n                        continue;\n                    }",
         "                    ValueChange::Delete if key_path == Some(&overlay_key) => {\n                        final_leaf_data_collection\n                            .extend_from_slice(&collected_leaf_data[start_idx..beatree_leaf_idx]);\n                        beatree_leaf_idx += 1;\n                        start_idx = beatree_leaf_idx;\n                        continue;\n                    }"),
        ("nomt/src/merkle/seek.rs",
         "                if key_path == Some(&overlay_key) {\n                    // The leaf data has been updated in the overlay.\n                    beatree_leaf_idx += 1;\n                }",
         "                final_leaf_data_collection\n                    .extend_from_slice(&collected_leaf_data[start_idx..beatree_leaf_idx]);\n                if key_path == Some(&overlay_key) {\n                    // The leaf data has been updated in the overlay.\n                    beatree_leaf_idx += 1;\n                }\n                start_idx = beatree_leaf_idx;"),
        ("nomt/src/merkle/seek.rs",
         "            final_leaf_data_collection.extend_from_slice(&collected_leaf_data[beatree_leaf_idx..]);",
         "            final_leaf_data_collection.extend_from_slice(&collected_leaf_data[start_idx..]);")])
m("c11-merge-naked-delete-keeps-start-tail-from-cursor", "C11", "nomt/src/merkle/seek.rs",
  "            for (overlay_key, overlay_valuechange) in overlay.value_iter(range.0, range.1) {\n                let start_idx = beatree_leaf_idx;\n",
  "            let mut start_idx = 0;\n            for (overlay_key, overlay_valuechange) in overlay.value_iter(range.0, range.1) {\n",
  "C11|S2|merkle::seek::SeekRequest::continue_leaves_fetch|every-stored-leaf-handled",
  also=[("nomt/src/merkle/seek.rs",
         "                final_leaf_data_collection\n                    .extend_from_slice(&collected_leaf_data[start_idx..beatree_leaf_idx]);\n                let key_path = collected_leaf_data",
         "                let key_path = collected_leaf_data"),
        ("nomt/src/merkle/seek.rs",
         "                    ValueChange::Delete if key_path == Some(&overlay_key) => {\n                        beatree_leaf_idx += 1;\n                        continue;\n                    }",
         "                    ValueChange::Delete if key_path == Some(&overlay_key) => {\n                        final_leaf_data_collection\n                            .extend_from_slice(&collected_leaf_data[start_idx..beatree_leaf_idx]);\n                        beatree_leaf_idx += 1;\n                        start_idx = beatree_leaf_idx;\n                        continue;\n                    }"),
        ("nomt/src/merkle/seek.rs",
         "                if key_path == Some(&overlay_key) {\n                    // The leaf data has been updated in the overlay.\n                    beatree_leaf_idx += 1;\n                }",
         "                final_leaf_data_collection\n                    .extend_from_slice(&collected_leaf_data[start_idx..beatree_leaf_idx]);\n                if key_path == Some(&overlay_key) {\n                    // The leaf data has been updated in the overlay.\n                    beatree_leaf_idx += 1;\n                }\n                start_idx = beatree_leaf_idx;")])
# ---- benign probes for O17 / O18 / E1 ----
m("benign-write-wal-truncates-through-helper", "C04", "nomt/src/bitbox/writeout.rs",
  "pub(super) fn write_wal(mut wal_fd: &File, wal_blob: &[u8]) -> std::io::Result<()> {\n    wal_fd.set_len(0)?;\n    wal_fd.seek(SeekFrom::Start(0))?;",
  "pub(super) fn write_wal(mut wal_fd: &File, wal_blob: &[u8]) -> std::io::Result<()> {\n    truncate_wal(wal_fd, false)?;",
  None)
m("benign-redo-elided-word-before-label", "C03", "nomt/src/bitbox/mod.rs",
  "                // Label the page.\n                page[PAGE_SIZE - 32..].copy_from_slice(&page_id);\n                // Write elided children bitfield.\n                page[PAGE_SIZE - 32 - 8..PAGE_SIZE - 32]\n                    .copy_from_slice(&elided_children.to_bytes());",
  "                // Write elided children bitfield.\n                page[PAGE_SIZE - 32 - 8..PAGE_SIZE - 32]\n                    .copy_from_slice(&elided_children.to_bytes());\n                // Label the page.\n                page[PAGE_SIZE - 32..].copy_from_slice(&page_id);",
  None)
m("benign-delta-encode-if-let", "C09", "nomt/src/rollback/delta.rs",
  "            match value {\n                None => to_erase.push(key),\n                Some(value) => to_reinstate.push((key, value)),\n            }",
  "            if let Some(value) = value {\n                to_reinstate.push((key, value));\n            } else {\n                to_erase.push(key);\n            }",
  None)
# ---- benign probes for K1 / W6 ----
m("benign-rollback-returns-commit-result", "C09", "nomt/src/lib.rs",
  "        finished.commit(&self)?;\n\n        Ok(())\n    }",
  "        finished.commit(&self)\n    }",
  None)
m("benign-allocate-pop-through-local", "C17", "nomt/src/beatree/allocator/mod.rs",
  "            Ok(free_list.get_nth_pop(allocation_index))",
  "            let reused = free_list.get_nth_pop(allocation_index);\n            Ok(reused)",
  None)
# ---- benign probes for S11 / L8 / S12 ----
m("benign-hash-path-hoisted-siblings", "C08", "core/src/proof/multi_proof.rs",
  "            &terminal_bits[start_depth..terminal_path.depth],\n            siblings[..unique_len].iter().rev().copied(),",
  "            &terminal_bits[start_depth..start_depth + unique_len],\n            siblings[..unique_len].iter().rev().copied(),",
  None)
m("benign-read-guard-dropped-after-lookup", "C15", "nomt/src/lib.rs",
  "        let _guard = self.access_lock.read();\n        self.store.load_value(path)\n    }",
  "        let guard = self.access_lock.read();\n        let value = self.store.load_value(path);\n        drop(guard);\n        value\n    }",
  None)
m("benign-ancestor-data-get-unwrap", "C11", "nomt/src/overlay.rs",
  "            self.ancestor_data[self.ancestor_data.len() - seqn_diff as usize - 1]\n                .values",
  "            self.ancestor_data\n                .get(self.ancestor_data.len() - seqn_diff as usize - 1)\n                .unwrap()\n                .values",
  None)
# ---- C09 K2: one delta per commit ----
m("benign-finish-delta-by-match", "C09", "nomt/src/lib.rs",
  "        let rollback_delta = self\n            .rollback_delta\n            .take()\n            .map(|delta_builder| delta_builder.finalize(&actuals));",
  "        let rollback_delta = match self.rollback_delta.take() {\n            Some(delta_builder) => Some(delta_builder.finalize(&actuals)),\n            None => None,\n        };",
  None)
m("c09-finish-delta-only-with-writes", "C09", "nomt/src/lib.rs",
  "        let rollback_delta = self\n            .rollback_delta\n            .take()\n            .map(|delta_builder| delta_builder.finalize(&actuals));",
  "        let rollback_delta = match self.rollback_delta.take() {\n            Some(delta_builder) if !actuals.is_empty() => Some(delta_builder.finalize(&actuals)),\n            _ => None,\n        };",
  "C09|K2|Session::finish|one-delta-per-commit")
# ---- C11 S10: every updated merkle page is handed on ----
m("c11-frozen-iter-skips-empty-diffs", "C11", "nomt/src/merkle/mod.rs",
  "        self.0.into_iter().flatten().map(move |updated_page| {",
  "        self.0.into_iter().flatten().filter(|updated_page| !updated_page.diff.cleared()).map(move |updated_page| {",
  "C11|S10|merkle::UpdatedPages::into_frozen_iter|element-preserving-adapters")
m("benign-frozen-iter-inspect", "C11", "nomt/src/merkle/mod.rs",
  "        self.0.into_iter().flatten().map(move |updated_page| {",
  "        self.0.into_iter().flatten().inspect(|_updated_page| {}).map(move |updated_page| {",
  None)
# ---- C03 O18: the redo applies the whole Update entry ----
m("c03-redo-elided-word-only-when-claimed", "C03", "nomt/src/bitbox/mod.rs",
  "                page[PAGE_SIZE - 32 - 8..PAGE_SIZE - 32]\n                    .copy_from_slice(&elided_children.to_bytes());",
  "                if meta_map_changed {\n                    page[PAGE_SIZE - 32 - 8..PAGE_SIZE - 32]\n                        .copy_from_slice(&elided_children.to_bytes());\n                }",
  "C03|O18|bitbox::recover|update-entry-field=elided_children")
m("benign-redo-label-through-slice", "C03", "nomt/src/bitbox/mod.rs",
  "                page[PAGE_SIZE - 32..].copy_from_slice(&page_id);",
  "                {\n                    let label: &mut [u8] = &mut page[PAGE_SIZE - 32..];\n                    label.copy_from_slice(&page_id[..]);\n                }",
  None)
# ---- C12 guardfx: a value whose Drop impl performs an effect is an effect where it is dropped ----
m("c12-root-restore-guard-before-check", "C12", "nomt/src/lib.rs",
  "        let _write_guard = self.take_global_guard.then(|| nomt.access_lock.write());\n\n        {\n            let mut shared = nomt.shared.lock();\n            if shared.root != self.prev_root {\n                anyhow::bail!(\n                    \"Changeset no longer valid (expected previous root {:?}, got {:?})\",\n                    self.prev_root,\n                    shared.root\n                );\n            }\n            shared.root = Root(self.merkle_output.root);\n            shared.last_commit_marker = None;\n        }\n\n        if let Some(rollback_delta) = self.rollback_delta {\n            // UNWRAP: if rollback_delta is `Some`, then rollback must be also `Some`.\n            let rollback = nomt.store.rollback().unwrap();\n            if let Err(e) = rollback.commit(rollback_delta) {",
  "        let _write_guard = self.take_global_guard.then(|| nomt.access_lock.write());\n        let mut root_restore = RootRestore { shared: &nomt.shared, base: self.prev_root, armed: true };\n\n        {\n            let mut shared = nomt.shared.lock();\n            if shared.root != self.prev_root {\n                anyhow::bail!(\n                    \"Changeset no longer valid (expected previous root {:?}, got {:?})\",\n                    self.prev_root,\n                    shared.root\n                );\n            }\n            shared.root = Root(self.merkle_output.root);\n            shared.last_commit_marker = None;\n        }\n        root_restore.armed = false;\n\n        if let Some(rollback_delta) = self.rollback_delta {\n            // UNWRAP: if rollback_delta is `Some`, then rollback must be also `Some`.\n            let rollback = nomt.store.rollback().unwrap();\n            if let Err(e) = rollback.commit(rollback_delta) {",
  "C12|guardfx|FinishedSession::commit|guard=root_eq|no-refusal-edge",
  also=[("nomt/src/lib.rs", "/// Whether a key was read, written, or both, along with old and new values.", "struct RootRestore<'a> {\n    shared: &'a Mutex<Shared>,\n    base: Root,\n    armed: bool,\n}\n\nimpl<'a> Drop for RootRestore<'a> {\n    fn drop(&mut self) {\n        if self.armed {\n            self.shared.lock().root = self.base;\n        }\n    }\n}\n\n/// Whether a key was read, written, or both, along with old and new values.")])
m("benign-root-restore-guard-after-check", "C12", "nomt/src/lib.rs",
  "            shared.root = Root(self.merkle_output.root);\n            shared.last_commit_marker = None;\n        }\n\n        if let Some(rollback_delta) = self.rollback_delta {\n            // UNWRAP: if rollback_delta is `Some`, then rollback must be also `Some`.\n            let rollback = nomt.store.rollback().unwrap();\n            if let Err(e) = rollback.commit(rollback_delta) {",
  "            shared.root = Root(self.merkle_output.root);\n            shared.last_commit_marker = None;\n        }\n        let mut root_restore = RootRestore { shared: &nomt.shared, base: self.prev_root, armed: true };\n        root_restore.armed = false;\n\n        if let Some(rollback_delta) = self.rollback_delta {\n            // UNWRAP: if rollback_delta is `Some`, then rollback must be also `Some`.\n            let rollback = nomt.store.rollback().unwrap();\n            if let Err(e) = rollback.commit(rollback_delta) {",
  None,
  also=[("nomt/src/lib.rs", "/// Whether a key was read, written, or both, along with old and new values.", "struct RootRestore<'a> {\n    shared: &'a Mutex<Shared>,\n    base: Root,\n    armed: bool,\n}\n\nimpl<'a> Drop for RootRestore<'a> {\n    fn drop(&mut self) {\n        if self.armed {\n            self.shared.lock().root = self.base;\n        }\n    }\n}\n\n/// Whether a key was read, written, or both, along with old and new values.")])
# ---- C14 R2: a completion result kept in a variable must not be overwritten before it is looked at ----
m("c14-update-last-result-wins", "C14", "nomt/src/beatree/ops/update/mod.rs",
  "    for _ in 0..total_io {\n        // UNWRAP: we receive only what we sent. No `RecvErr` expected.\n        io_handle.recv().unwrap().result?;\n    }",
  "    let mut io_result = Ok(());\n    for _ in 0..total_io {\n        io_result = io_handle.recv().unwrap().result;\n    }\n    io_result?;",
  "C14|R2|beatree::ops::update::update|completion=tmp")
m("benign-update-first-error-kept", "C14", "nomt/src/beatree/ops/update/mod.rs",
  "    for _ in 0..total_io {\n        // UNWRAP: we receive only what we sent. No `RecvErr` expected.\n        io_handle.recv().unwrap().result?;\n    }",
  "    let mut io_result = Ok(());\n    for _ in 0..total_io {\n        let r = io_handle.recv().unwrap().result;\n        if io_result.is_ok() {\n            io_result = r;\n        }\n    }\n    io_result?;",
  None)
# ---- C04 O17: a WAL blob is only written into an empty WAL file (either half of seed C04-j alone is harmless) ----
m("benign-wal-no-post-meta-truncate", "C04", "nomt/src/bitbox/mod.rs",
  "        writeout::truncate_wal(&self.db.shared.wal_fd, false)?;\n        Ok(())",
  "        Ok(())",
  None)
m("benign-wal-no-post-meta-truncate-c03", "C03", "nomt/src/bitbox/mod.rs",
  "        writeout::truncate_wal(&self.db.shared.wal_fd, false)?;\n        Ok(())",
  "        Ok(())",
  None)
m("benign-wal-positional-write", "C04", "nomt/src/bitbox/writeout.rs",
  "pub(super) fn write_wal(mut wal_fd: &File, wal_blob: &[u8]) -> std::io::Result<()> {\n    wal_fd.set_len(0)?;\n    wal_fd.seek(SeekFrom::Start(0))?;\n    wal_fd.write_all(wal_blob)?;",
  "#[allow(unused_imports)]\npub(super) fn write_wal(wal_fd: &File, wal_blob: &[u8]) -> std::io::Result<()> {\n    use std::os::unix::fs::FileExt as _;\n    wal_fd.write_all_at(wal_blob, 0)?;\n    wal_fd.set_len(wal_blob.len() as u64)?;",
  None)
m("c04-wal-overwritten-in-place", "C04", "nomt/src/bitbox/writeout.rs",
  "pub(super) fn write_wal(mut wal_fd: &File, wal_blob: &[u8]) -> std::io::Result<()> {\n    wal_fd.set_len(0)?;\n    wal_fd.seek(SeekFrom::Start(0))?;\n    wal_fd.write_all(wal_blob)?;",
  "#[allow(unused_imports)]\npub(super) fn write_wal(wal_fd: &File, wal_blob: &[u8]) -> std::io::Result<()> {\n    use std::os::unix::fs::FileExt as _;\n    wal_fd.write_all_at(wal_blob, 0)?;\n    wal_fd.set_len(wal_blob.len() as u64)?;",
  "C04|O17|bitbox::writeout::write_wal|wal-written-into-empty-file",
  also=[("nomt/src/bitbox/mod.rs", "        writeout::truncate_wal(&self.db.shared.wal_fd, false)?;\n        Ok(())", "        Ok(())")])
# ---- C09 E1/E2: the persistent form of a reverse delta keeps `absent` and `empty value` apart ----
m("c09-delta-decode-erase-as-empty", "C09", "nomt/src/rollback/delta.rs",
  "            let preemted = priors.insert(key_path, None).is_some();",
  "            let preemted = priors.insert(key_path, Some(Vec::new())).is_some();",
  "C09|E2|rollback::delta::Delta::decode|both-variants-decodable")
m("c09-delta-encode-forgets-variant", "C09", "nomt/src/rollback/delta.rs",
  "            match value {\n                None => to_erase.push(key),\n                Some(value) => to_reinstate.push((key, value)),\n            }",
  "            let _ = &to_erase;\n            to_reinstate.push((key, value.as_ref().unwrap_or(&empty)));",
  "C09|E1|rollback::delta::Delta::encode|presence-of-prior-encoded",
  also=[("nomt/src/rollback/delta.rs",
         "        let mut to_erase = Vec::with_capacity(self.priors.len());",
         "        let empty: Vec<u8> = Vec::new();\n        let mut to_erase: Vec<&KeyPath> = Vec::with_capacity(self.priors.len());")])
m("benign-delta-encode-is-none", "C09", "nomt/src/rollback/delta.rs",
  "            match value {\n                None => to_erase.push(key),\n                Some(value) => to_reinstate.push((key, value)),\n            }",
  "            if value.is_none() {\n                to_erase.push(key);\n            } else {\n                to_reinstate.push((key, value.as_ref().unwrap()));\n            }",
  None)
# ---- C14 R9: libc calls that return the error number are not judged by the -1 convention ----
m("c14-posix-fallocate-behind-cvt", "C14", "nomt/src/beatree/allocator/mod.rs",
  "    file.set_len(next_bump as u64 * PAGE_SIZE as u64)?;",
  "    crate::sys::linux::falloc_extend_file(file, next_bump as u64 * PAGE_SIZE as u64)?;",
  "C14|R9|sys::linux::falloc_extend_file::{closure#0}|errno-returning|posix_fallocate",
  also=[("nomt/src/sys/linux.rs",
         "/// fallocate changes the size of the file to the given length if it's less than the current size.",
         "pub fn falloc_extend_file(file: &File, len: u64) -> std::io::Result<()> {\n    cvt_r(|| unsafe { libc::posix_fallocate(file.as_raw_fd(), 0 as _, len as _) }).map(drop)\n}\n\n/// fallocate changes the size of the file to the given length if it's less than the current size.")])
m("benign-posix-fallocate-errno-checked", "C14", "nomt/src/beatree/allocator/mod.rs",
  "    file.set_len(next_bump as u64 * PAGE_SIZE as u64)?;",
  "    crate::sys::linux::falloc_extend_file(file, next_bump as u64 * PAGE_SIZE as u64)?;",
  None,
  also=[("nomt/src/sys/linux.rs",
         "/// fallocate changes the size of the file to the given length if it's less than the current size.",
         "pub fn falloc_extend_file(file: &File, len: u64) -> std::io::Result<()> {\n    loop {\n        let r = unsafe { libc::posix_fallocate(file.as_raw_fd(), 0 as _, len as _) };\n        if r == 0 {\n            return Ok(());\n        }\n        if r != libc::EINTR {\n            return Err(std::io::Error::from_raw_os_error(r));\n        }\n    }\n}\n\n/// fallocate changes the size of the file to the given length if it's less than the current size.")])
m("benign-posix-fallocate-errno-helper", "C14", "nomt/src/beatree/allocator/mod.rs",
  "    file.set_len(next_bump as u64 * PAGE_SIZE as u64)?;",
  "    crate::sys::linux::falloc_extend_file(file, next_bump as u64 * PAGE_SIZE as u64)?;",
  None,
  also=[("nomt/src/sys/linux.rs",
         "/// fallocate changes the size of the file to the given length if it's less than the current size.",
         "fn cvt_errno<F: FnMut() -> i32>(mut f: F) -> std::io::Result<()> {\n    loop {\n        match f() {\n            0 => return Ok(()),\n            libc::EINTR => continue,\n            e => return Err(std::io::Error::from_raw_os_error(e)),\n        }\n    }\n}\n\npub fn falloc_extend_file(file: &File, len: u64) -> std::io::Result<()> {\n    cvt_errno(|| unsafe { libc::posix_fallocate(file.as_raw_fd(), 0 as _, len as _) })\n}\n\n/// fallocate changes the size of the file to the given length if it's less than the current size.")])
# ---- C11 S9: stored items are filtered by the overlay's deletions before they complete a leaf fetch ----
m("c11-leaf-fetch-overflow-skip-ignored", "C11", "nomt/src/merkle/seek.rs",
  "                    if should_skip {\n                        continue;\n                    }\n\n                    break (key, value_hash);",
  "                    let _ = should_skip;\n\n                    break (key, value_hash);",
  "C11|S9|merkle::seek::SeekRequest::continue_leaf_fetch|item-filtered-by-overlay-deletions")
m("c11-leaf-fetch-filter-on-position", "C11", "nomt/src/merkle/seek.rs",
  "                    let (new_d_idx, should_skip) =\n                        manage_deletions(&overlay_deletions, deletions_idx, &key);\n                    deletions_idx = new_d_idx;\n                    if should_skip {\n                        continue;\n                    }\n\n                    break (key, H::hash_value(&value));",
  "                    if overlay_deletions.len() > deletions_idx + 1_000_000 {\n                        continue;\n                    }\n\n                    break (key, H::hash_value(&value));",
  "C11|S9|merkle::seek::SeekRequest::continue_leaf_fetch|item-filtered-by-overlay-deletions")
m("benign-leaf-fetch-binary-search", "C11", "nomt/src/merkle/seek.rs",
  "                    let (new_d_idx, should_skip) =\n                        manage_deletions(&overlay_deletions, deletions_idx, &key);\n                    deletions_idx = new_d_idx;\n                    if should_skip {\n                        continue;\n                    }\n\n                    break (key, H::hash_value(&value));",
  "                    if overlay_deletions.binary_search(&key).is_ok() {\n                        continue;\n                    }\n\n                    break (key, H::hash_value(&value));",
  None)
# ---- C11 P1/P2 overlay status domain ----
m("c11-complete-when-not-live", "C11", "nomt/src/overlay.rs",
  "            .map_or(false, |status| !status.is_committed())",
  "            .map_or(false, |status| status.0.load(Ordering::Relaxed) == OverlayStatus::LIVE)",
  "P1|overlay::LiveOverlay::new|refuse(DROPPED)=True")
m("c11-completeness-guard-removed", "C11", "nomt/src/overlay.rs",
  "            .map_or(false, |status| !status.is_committed())\n        {\n            return Err(InvalidAncestors::Incomplete);\n        }",
  "            .map_or(false, |status| !status.is_committed())\n        {\n            // tolerated: the commit path re-checks the parent marker\n        }",
  "P1|overlay::LiveOverlay::new|status-guard")
m("c11-drop-overwrites-committed", "C11", "nomt/src/overlay.rs",
  "        let _ = self.0.compare_exchange(\n            Self::LIVE,\n            Self::DROPPED,\n            Ordering::Relaxed,\n            Ordering::Relaxed,\n        );",
  "        self.0.store(Self::DROPPED, Ordering::Relaxed);",
  "P2|overlay::OverlayStatus::drop|store")
m("benign-completeness-inline-ne", "C11", "nomt/src/overlay.rs",
  "            .map_or(false, |status| !status.is_committed())",
  "            .map_or(false, |status| status.0.load(Ordering::Relaxed) != OverlayStatus::COMMITTED)",
  None)
m("benign-completeness-if-let", "C11", "nomt/src/overlay.rs",
  "        if ancestor_data\n            .last()\n            .unwrap_or(&parent.data)\n            .parent_status\n            .as_ref()\n            .map_or(false, |status| !status.is_committed())\n        {\n            return Err(InvalidAncestors::Incomplete);\n        }",
  "        if let Some(status) = ancestor_data\n            .last()\n            .unwrap_or(&parent.data)\n            .parent_status\n            .as_ref()\n        {\n            if status.is_committed() {\n                // complete\n            } else {\n                return Err(InvalidAncestors::Incomplete);\n            }\n        }",
  None)
m("benign-completeness-two-negatives", "C11", "nomt/src/overlay.rs",
  "            .map_or(false, |status| !status.is_committed())",
  "            .map_or(false, |status| {\n                let v = status.0.load(Ordering::Relaxed);\n                v == OverlayStatus::LIVE || v == OverlayStatus::DROPPED\n            })",
  None)

# ---- C14 R7 bounded bucket allocation ----
m("c14-probe-bound-removed", "C14", "nomt/src/bitbox/mod.rs",
  "            if self.step > 2 * meta_map.len() as u64 {\n                return ProbeResult::Exhausted;\n            }\n",
  "",
  "R7|bitbox::ProbeSequence::next|loop#1|unbounded")
m("c14-allocate-gives-up-never", "C14", "nomt/src/bitbox/mod.rs",
  "        i += 1;\n        if i >= 10000 {\n            // Give up.\n            return None;\n        }",
  "        i += 1;\n        if i >= 10000 {\n            // Keep trying: the table may free up.\n            i = 0;\n        }",
  "R7|bitbox::allocate_bucket|loop#1|unbounded")

m("c14-wal-read-error-swallowed", "C14", "nomt/src/bitbox/wal/read.rs",
  "                Err(e) => return Err(e.into()),\n            };\n            pn += 1;",
  "                Err(_) => break,\n            };\n            pn += 1;",
  "R1|bitbox::wal::read::WalBlobReader::new")

# ---- C19 U1-U3 reclaim / occupancy ----
m("c19-tombstone-not-counted", "C19", "nomt/src/bitbox/mod.rs",
  "            if dirty_page.diff.cleared() {\n                occupied_buckets_delta -= 1;\n",
  "            if dirty_page.diff.cleared() {\n",
  "U1|bitbox::DB::prepare_sync|set_tombstone")
m("c19-count-every-written-page", "C19", "nomt/src/bitbox/mod.rs",
  "                if meta_map_changed {\n                    occupied_buckets_delta += 1;\n                    meta_map.set_full(bucket as usize, hash);",
  "                occupied_buckets_delta += 1;\n                if meta_map_changed {\n                    meta_map.set_full(bucket as usize, hash);",
  "U1|bitbox::DB::prepare_sync|step-has-set_full")
m("c19-occupancy-counted-before-recovery", "C19", "nomt/src/bitbox/mod.rs",
  "        if wal_fd.metadata()?.len() > 0 {\n            recover(",
  "        let occupied_buckets = meta_map.full_count();\n        if wal_fd.metadata()?.len() > 0 {\n            recover(",
  "U1|bitbox::DB::open|count-after-recover",
  also=[("nomt/src/bitbox/mod.rs", "        let occupied_buckets = meta_map.full_count();\n\n        let wal_blob_builder", "        let wal_blob_builder")])
m("c19-freed-pages-to-wrong-store", "C19", "nomt/src/beatree/ops/update/mod.rs",
  "        leaf_finisher.finish(&page_pool, leaf_stage_outputs.freed_pages)?;\n\n    let (bbn_freelist_pages, bbn_meta) =\n        bbn_finisher.finish(&page_pool, branch_stage_outputs.freed_pages)?;",
  "        leaf_finisher.finish(&page_pool, branch_stage_outputs.freed_pages)?;\n\n    let (bbn_freelist_pages, bbn_meta) =\n        bbn_finisher.finish(&page_pool, leaf_stage_outputs.freed_pages)?;",
  "U2|beatree::ops::update::update|same-store")
m("c19-finish-forgets-freed", "C19", "nomt/src/beatree/allocator/mod.rs",
  "        let freelist_pages = sync.free_list.commit(page_pool, freed, &mut next_bump);",
  "        drop(freed);\n        let freelist_pages = sync.free_list.commit(page_pool, Vec::new(), &mut next_bump);",
  "U2|beatree::allocator::SyncFinisher::finish|commit(freed)")
m("c19-branch-stage-leaks-deleted", "C19", "nomt/src/beatree/ops/update/branch_stage.rs",
  "        if let Some(deleted_pn) = changed_branch.deleted {\n            output.freed_pages.push(deleted_pn);\n        }",
  "        let _ = changed_branch.deleted;",
  "U2|beatree::ops::update::branch_stage|collects-deleted")
m("c19-leaf-stage-drops-extra-freed", "C19", "nomt/src/beatree/ops/update/leaf_stage.rs",
  "    output\n        .freed_pages\n        .extend(worker_output.leaves_tracker.extra_freed.drain(..));",
  "    worker_output.leaves_tracker.extra_freed.clear();",
  "U2|beatree::ops::update::leaf_stage|collects-extra_freed")
m("c19-counter-reset-elsewhere", "C19", "nomt/src/bitbox/mod.rs",
  "    pub fn utilization(&self) -> HashTableUtilization {",
  "    #[allow(dead_code)]\n    pub fn reset_utilization(&self) {\n        self.shared.occupied_buckets.store(0, Ordering::Relaxed);\n    }\n\n    pub fn utilization(&self) -> HashTableUtilization {",
  "U1|bitbox::DB::reset_utilization|counter-writer|store")
m("benign-delta-applied-with-match", "C19", "nomt/src/bitbox/mod.rs",
  "        if occupied_buckets_delta < 0 {\n            self.shared\n                .occupied_buckets\n                .fetch_sub(occupied_buckets_delta.abs() as usize, Ordering::Relaxed);\n        } else if occupied_buckets_delta > 0 {\n            self.shared\n                .occupied_buckets\n                .fetch_add(occupied_buckets_delta as usize, Ordering::Relaxed);\n        }",
  "        let counter = &self.shared.occupied_buckets;\n        match occupied_buckets_delta.signum() {\n            -1 => {\n                counter.fetch_sub(occupied_buckets_delta.unsigned_abs(), Ordering::Relaxed);\n            }\n            1 => {\n                counter.fetch_add(occupied_buckets_delta as usize, Ordering::Relaxed);\n            }\n            _ => {}\n        }",
  None)
m("benign-freed-pages-via-local", "C19", "nomt/src/beatree/ops/update/mod.rs",
  "        leaf_finisher.finish(&page_pool, leaf_stage_outputs.freed_pages)?;",
  "        {\n            let leaf_freed = leaf_stage_outputs.freed_pages;\n            leaf_finisher.finish(&page_pool, leaf_freed)?\n        };",
  None)
m("c19-f12-early-return-skips-overflow", "C19", "nomt/src/beatree/ops/update/leaf_updater.rs",
  "        if from != to {\n            let values_size = base.node.values_size(from, to);\n            self.ops.push(LeafOp::KeepChunk(from, to, values_size));\n            self.gauge.ingest(to - from, values_size);\n        }\n",
  "        if from == to {\n            return;\n        }\n        let values_size = base.node.values_size(from, to);\n        self.ops.push(LeafOp::KeepChunk(from, to, values_size));\n        self.gauge.ingest(to - from, values_size);\n",
  "U4|beatree::ops::update::leaf_updater::LeafUpdater::keep_up_to|found-examined-on-every-path")
m("c19-overflow-only-when-chunk-kept", "C19", "nomt/src/beatree/ops/update/leaf_updater.rs",
  "        if found {\n            let (val, overflow) = base.cell(to);",
  "        if found && from != to {\n            let (val, overflow) = base.cell(to);",
  "U4|beatree::ops::update::leaf_updater::LeafUpdater::keep_up_to|found-cell-examined")
m("c19-ingest-swallows-callback", "C19", "nomt/src/beatree/ops/update/leaf_updater.rs",
  "        self.keep_up_to(Some(&key), with_deleted_overflow);",
  "        let _ = with_deleted_overflow;\n        self.keep_up_to(Some(&key), |_| {});",
  "U4|beatree::ops::update::leaf_updater::LeafUpdater::ingest|passes-callback")
m("c19-stage-callback-drops-cell", "C19", "nomt/src/beatree/ops/update/leaf_stage.rs",
  "        let delete_overflow = |overflow_cell: &[u8]| overflow_deleted.push(overflow_cell.to_vec());",
  "        let delete_overflow = |overflow_cell: &[u8]| {\n            let _ = (overflow_cell, &mut overflow_deleted);\n        };",
  "U4|beatree::ops::update::leaf_stage::run_worker|callback-stores-cell")
m("c19-overflow-deleted-not-drained", "C19", "nomt/src/beatree/ops/update/leaf_stage.rs",
  "    for deleted_overflow_cell in worker_output.overflow_deleted.drain(..) {\n        overflow::delete(&deleted_overflow_cell, leaf_reader, &mut output.freed_pages);\n    }",
  "    worker_output.overflow_deleted.clear();\n    let _ = leaf_reader;",
  "U4|beatree::ops::overflow::delete|drains-overflow_deleted")
m("benign-keep-up-to-found-and-overflow", "C19", "nomt/src/beatree/ops/update/leaf_updater.rs",
  "        if found {\n            let (val, overflow) = base.cell(to);\n            if overflow {\n                with_deleted_overflow(val);\n            }\n        }",
  "        if !found {\n            return;\n        }\n        match base.cell(to) {\n            (val, true) => with_deleted_overflow(val),\n            _ => {}\n        }",
  None)
m("c19-pop-forgets-head-page", "C19", "nomt/src/beatree/allocator/free_list.rs",
  "            let _ = self.portions.pop();\n            self.released_portions.push(prev_head_pn);",
  "            let _ = self.portions.pop();\n            let _ = prev_head_pn;",
  "U5|beatree::allocator::free_list::FreeList::pop|portions.pop=>released-or-put-back")
m("c19-discard-drops-emptied-portion", "C19", "nomt/src/beatree/allocator/free_list.rs",
  "            } else {\n                self.released_portions.push(head_pn);\n            }\n\n            discarded += to_discard;",
  "            } else {\n                let _ = head_pn;\n            }\n\n            discarded += to_discard;",
  "U5|beatree::allocator::free_list::FreeList::discard|portions.pop=>released-or-put-back")
m("benign-discard-match-on-emptiness", "C19", "nomt/src/beatree/allocator/free_list.rs",
  "            if !head.is_empty() {\n                self.portions.push((head_pn, head));\n            } else {\n                self.released_portions.push(head_pn);\n            }",
  "            match head.is_empty() {\n                true => self.released_portions.push(head_pn),\n                false => self.portions.push((head_pn, head)),\n            }",
  None)
m("c19-allocate-ignores-free-list", "C19", "nomt/src/beatree/allocator/mod.rs",
  "        if allocation_index >= free_list.len() {\n            let pn = PageNumber(sync.bump.0 + (allocation_index - free_list.len()) as u32);",
  "        let _ = &free_list;\n        if true {\n            let pn = PageNumber(sync.bump.0 + allocation_index as u32);",
  "U3|beatree::allocator::SyncAllocator::allocate|free-list-first")
