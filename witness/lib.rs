//! Type-level compile-fail witnesses (E8).  Each `compile_fail,E0xxx` test has a compiling twin that
//! differs only by the offending line, so a witness whose paths are merely wrong cannot pass.
//! Run with `cargo +nightly test --doc` (stable ignores the error code).  The crate is generated
//! into a scratch directory by rules/witness.py with path dependencies on the tree under test.

/// C08-S1: a client cannot build a `VerifiedPathProof` by hand (private fields).
/// ```compile_fail,E0451
/// use nomt_core::proof::VerifiedPathProof;
/// fn forge(v: &VerifiedPathProof) -> VerifiedPathProof {
///     VerifiedPathProof { key_path: Default::default(), terminal: None, siblings: Vec::new(), root: v.root() }
/// }
/// ```
/// Twin: the unverified `PathProof` has public fields and can be built.
/// ```
/// use nomt_core::proof::{PathProof, PathProofTerminal};
/// use nomt_core::trie_pos::TriePosition;
/// fn build() -> PathProof {
///     PathProof { terminal: PathProofTerminal::Terminator(TriePosition::new()), siblings: Vec::new() }
/// }
/// ```
pub struct C08VerifiedPathProofNotConstructible;

/// C08-S1: a client cannot build a `VerifiedMultiProof` by hand.
/// ```compile_fail,E0451
/// use nomt_core::proof::VerifiedMultiProof;
/// fn forge() -> VerifiedMultiProof {
///     VerifiedMultiProof { inner: Vec::new(), bisections: Vec::new(), siblings: Vec::new(), root: [0u8; 32] }
/// }
/// ```
/// Twin: the unverified `MultiProof` can be built.
/// ```
/// use nomt_core::proof::MultiProof;
/// fn build() -> MultiProof {
///     MultiProof { paths: Vec::new(), siblings: Vec::new() }
/// }
/// ```
pub struct C08VerifiedMultiProofNotConstructible;

/// C12: a finished session is consumed by its commit attempt: it cannot be committed twice.
/// ```compile_fail,E0382
/// use nomt::{FinishedSession, Nomt, hasher::Blake3Hasher};
/// fn twice(fs: FinishedSession, n: &Nomt<Blake3Hasher>) {
///     let _ = fs.commit(n);
///     let _ = fs.commit(n);
/// }
/// ```
/// Twin:
/// ```
/// use nomt::{FinishedSession, Nomt, hasher::Blake3Hasher};
/// fn once(fs: FinishedSession, n: &Nomt<Blake3Hasher>) {
///     let _ = fs.commit(n);
/// }
/// ```
pub struct C12FinishedSessionCommittedOnce;

/// C12: an overlay is consumed by its commit attempt.
/// ```compile_fail,E0382
/// use nomt::{Overlay, Nomt, hasher::Blake3Hasher};
/// fn twice(o: Overlay, n: &Nomt<Blake3Hasher>) {
///     let _ = o.commit(n);
///     let _ = o.commit(n);
/// }
/// ```
/// Twin:
/// ```
/// use nomt::{Overlay, Nomt, hasher::Blake3Hasher};
/// fn once(o: Overlay, n: &Nomt<Blake3Hasher>) {
///     let _ = o.commit(n);
/// }
/// ```
pub struct C12OverlayCommittedOnce;

/// C12: a non-blocking commit hands the changeset back whole or consumes it: after `Ok(None)` there is
/// nothing left to commit again.
/// ```compile_fail,E0382
/// use nomt::{FinishedSession, Nomt, hasher::Blake3Hasher};
/// fn reuse(fs: FinishedSession, n: &Nomt<Blake3Hasher>) {
///     let _ = fs.try_commit_nonblocking(n);
///     let _ = fs.try_commit_nonblocking(n);
/// }
/// ```
/// Twin: the handed-back changeset is the only way to retry.
/// ```
/// use nomt::{FinishedSession, Nomt, hasher::Blake3Hasher};
/// fn retry(fs: FinishedSession, n: &Nomt<Blake3Hasher>) {
///     if let Ok(Some(again)) = fs.try_commit_nonblocking(n) {
///         let _ = again.try_commit_nonblocking(n);
///     }
/// }
/// ```
pub struct C12NonblockingHandsBack;

/// C15: a session cannot be used after `finish` (its read transactions and access guard are gone
/// before a commit can be attempted).
/// ```compile_fail,E0382
/// use nomt::{Session, hasher::Blake3Hasher};
/// fn after(s: Session<Blake3Hasher>) {
///     let _ = s.finish(Vec::new());
///     s.warm_up([0u8; 32]);
/// }
/// ```
/// Twin:
/// ```
/// use nomt::{Session, hasher::Blake3Hasher};
/// fn before(s: Session<Blake3Hasher>) {
///     s.warm_up([0u8; 32]);
///     let _ = s.finish(Vec::new());
/// }
/// ```
pub struct C15SessionConsumedByFinish;

/// C15-L3: the internal switches of `SessionParams` cannot be set from outside the crate: only
/// `Nomt::rollback` can create a session without the global read guard.  One witness per switch, each with an alternative
/// form for a tree in which that switch is no longer a field of this name (a private enum, say): the name then does not
/// exist at all for an outside user (E0609).  `rules/witness.py` accepts a witness when it or one of its `__alt` forms
/// fails to compile as stated.
/// ```compile_fail,E0616
/// use nomt::SessionParams;
/// fn no_guard() -> SessionParams {
///     let mut p = SessionParams::default();
///     p.take_global_guard = false;
///     p
/// }
/// ```
/// Twin: the public builder methods work.
/// ```
/// use nomt::{SessionParams, WitnessMode};
/// fn with_witness() -> SessionParams {
///     let p = SessionParams::default();
///     p.witness_mode(WitnessMode::read_write())
/// }
/// ```
pub struct C15SessionParamsSwitchesPrivate;

/// ```compile_fail,E0609
/// use nomt::SessionParams;
/// fn no_guard() -> SessionParams {
///     let mut p = SessionParams::default();
///     p.take_global_guard = false;
///     p
/// }
/// ```
pub struct C15SessionParamsSwitchesPrivate__alt1;

/// C15-L3, the second switch.
/// ```compile_fail,E0616
/// use nomt::SessionParams;
/// fn no_delta() -> SessionParams {
///     let mut p = SessionParams::default();
///     p.record_rollback_delta = false;
///     p
/// }
/// ```
pub struct C15SessionParamsDeltaSwitchPrivate;

/// ```compile_fail,E0609
/// use nomt::SessionParams;
/// fn no_delta() -> SessionParams {
///     let mut p = SessionParams::default();
///     p.record_rollback_delta = false;
///     p
/// }
/// ```
pub struct C15SessionParamsDeltaSwitchPrivate__alt1;

/// C15: sessions can be shared between reader threads (compiling witness).
/// ```
/// use nomt::{Session, hasher::Blake3Hasher};
/// fn is_sync<T: Sync>() {}
/// fn check() { is_sync::<Session<Blake3Hasher>>(); }
/// ```
pub struct C15SessionIsSync;
