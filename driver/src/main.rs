// nomt-facts: a rustc_private driver that dumps a "MIR-lite" fact file (JSON) for the crates
// `nomt` and `nomt_core`.  It is injected with RUSTC_WORKSPACE_WRAPPER under `cargo +nightly check`.
// For every other crate (and for build scripts) it behaves exactly like rustc.
//
// Output: $NOMT_FACTS_DIR/<crate>.json, one write() per process.
#![feature(rustc_private)]
#![allow(clippy::all)]

extern crate rustc_abi;
extern crate rustc_driver;
extern crate rustc_hir;
extern crate rustc_interface;
extern crate rustc_middle;
extern crate rustc_span;

use rustc_driver::Compilation;
use rustc_hir::def::DefKind;
use rustc_hir::def_id::{DefId, LOCAL_CRATE};
use rustc_middle::mir::{
    AggregateKind, AssertKind, BasicBlock, Body, BorrowKind, CastKind, Const as MirConst,
    Operand, Place, PlaceElem, Rvalue, StatementKind, TerminatorKind,
};
use rustc_middle::ty::print::with_no_trimmed_paths;
use rustc_middle::ty::{self, Instance, Ty, TyCtxt, TypingEnv};
use rustc_span::Span;
use std::fmt::Write as _;

fn esc(s: &str, out: &mut String) {
    out.push('"');
    for c in s.chars() {
        match c {
            '"' => out.push_str("\\\""),
            '\\' => out.push_str("\\\\"),
            '\n' => out.push_str("\\n"),
            '\r' => out.push_str("\\r"),
            '\t' => out.push_str("\\t"),
            c if (c as u32) < 0x20 => {
                let _ = write!(out, "\\u{:04x}", c as u32);
            }
            c => out.push(c),
        }
    }
    out.push('"');
}

fn js(s: &str) -> String {
    let mut o = String::with_capacity(s.len() + 2);
    esc(s, &mut o);
    o
}

struct Cx<'tcx> {
    tcx: TyCtxt<'tcx>,
    krate: String,
}

impl<'tcx> Cx<'tcx> {
    fn path(&self, did: DefId) -> String {
        let tcx = self.tcx;
        // inherent associated items are named after their self type's definition path, so that
        // the `<impl m::T>::f` form (impl in another module than the type) never appears.
        if matches!(tcx.def_kind(did), DefKind::AssocFn | DefKind::AssocConst { .. } | DefKind::AssocTy) {
            let parent = tcx.parent(did);
            if let DefKind::Impl { of_trait: false } = tcx.def_kind(parent) {
                let st = tcx.type_of(parent).instantiate_identity().skip_norm_wip();
                if let ty::Adt(adt, _) = st.kind() {
                    return format!("{}::{}", tcx.def_path_str(adt.did()), tcx.item_name(did));
                }
            }
        }
        if matches!(tcx.def_kind(did), DefKind::Closure) {
            let p = tcx.parent(did);
            let dp = tcx.def_path(did);
            if let Some(last) = dp.data.last() {
                return format!("{}::{{closure#{}}}", self.path(p), last.disambiguator);
            }
        }
        tcx.def_path_str(did)
    }

    fn ty(&self, t: Ty<'tcx>) -> String {
        t.to_string()
    }

    fn loc(&self, sp: Span) -> String {
        let sm = self.tcx.sess.source_map();
        let sp = if sp.from_expansion() { sp.source_callsite() } else { sp };
        let lo = sm.lookup_char_pos(sp.lo());
        let name = match &lo.file.name {
            rustc_span::FileName::Real(r) => match r.local_path() {
                Some(p) => p.display().to_string(),
                None => format!("{:?}", r),
            },
            other => format!("{:?}", other),
        };
        format!("{}:{}", name, lo.line)
    }

    fn expn(&self, sp: Span) -> String {
        if !sp.from_expansion() {
            return String::new();
        }
        let d = sp.ctxt().outer_expn_data();
        match d.kind {
            rustc_span::ExpnKind::Macro(_, name) => format!("macro:{}", name),
            rustc_span::ExpnKind::Desugaring(k) => format!("desugar:{:?}", k),
            rustc_span::ExpnKind::AstPass(k) => format!("astpass:{:?}", k),
            rustc_span::ExpnKind::Root => String::new(),
        }
    }

    fn snippet(&self, sp: Span) -> String {
        let sm = self.tcx.sess.source_map();
        let sp = if sp.from_expansion() { sp.source_callsite() } else { sp };
        match sm.span_to_snippet(sp) {
            Ok(s) => {
                let mut r = String::new();
                let mut last_ws = false;
                for c in s.chars() {
                    if c.is_whitespace() {
                        if !last_ws {
                            r.push(' ');
                        }
                        last_ws = true;
                    } else {
                        r.push(c);
                        last_ws = false;
                    }
                    if r.len() > 300 {
                        break;
                    }
                }
                r
            }
            Err(_) => String::new(),
        }
    }

    fn field_name(&self, base: Ty<'tcx>, variant: Option<rustc_abi::VariantIdx>, idx: usize) -> String {
        match base.kind() {
            ty::Adt(adt, _) => {
                let v = match variant {
                    Some(v) => adt.variant(v),
                    None => {
                        if adt.is_enum() {
                            return format!("{}", idx);
                        }
                        adt.non_enum_variant()
                    }
                };
                match v.fields.iter().nth(idx) {
                    Some(f) => f.name.to_string(),
                    None => format!("{}", idx),
                }
            }
            ty::Closure(did, _) => {
                let caps = self.tcx.closure_captures(did.expect_local());
                match caps.get(idx) {
                    Some(c) => c.to_symbol().to_string(),
                    None => format!("{}", idx),
                }
            }
            _ => format!("{}", idx),
        }
    }

    fn place(&self, body: &Body<'tcx>, p: &Place<'tcx>) -> String {
        // {"l":n,"p":[...],"ty":"..."}   (ty only when projected)
        let mut out = String::new();
        let _ = write!(out, "{{\"l\":{}", p.local.as_usize());
        if !p.projection.is_empty() {
            out.push_str(",\"p\":[");
            let mut pty = rustc_middle::mir::PlaceTy::from_ty(body.local_decls[p.local].ty);
            let mut first = true;
            for elem in p.projection.iter() {
                if !first {
                    out.push(',');
                }
                first = false;
                let s = match elem {
                    PlaceElem::Deref => "*".to_string(),
                    PlaceElem::Field(f, _) => {
                        format!(".{}", self.field_name(pty.ty, pty.variant_index, f.as_usize()))
                    }
                    PlaceElem::Index(l) => format!("[_{}]", l.as_usize()),
                    PlaceElem::ConstantIndex { offset, from_end, .. } => {
                        if from_end {
                            format!("[-{}]", offset)
                        } else {
                            format!("[{}]", offset)
                        }
                    }
                    PlaceElem::Subslice { from, to, from_end } => {
                        format!("[{}..{}{}]", from, if from_end { "-" } else { "" }, to)
                    }
                    PlaceElem::Downcast(name, v) => match name {
                        Some(n) => format!("@{}", n),
                        None => format!("@{}", v.as_usize()),
                    },
                    PlaceElem::OpaqueCast(_) => "opaque".to_string(),
                    PlaceElem::UnwrapUnsafeBinder(_) => "unwrapbinder".to_string(),
                };
                esc(&s, &mut out);
                pty = pty.projection_ty(self.tcx, elem);
            }
            out.push(']');
            out.push_str(",\"ty\":");
            esc(&self.ty(pty.ty), &mut out);
            // owners: for every field projection the ADT (def path) that owns the field
            out.push_str(",\"o\":[");
            let mut pty2 = rustc_middle::mir::PlaceTy::from_ty(body.local_decls[p.local].ty);
            let mut first = true;
            for elem in p.projection.iter() {
                if !first {
                    out.push(',');
                }
                first = false;
                let o = match elem {
                    PlaceElem::Field(..) => match pty2.ty.kind() {
                        ty::Adt(adt, _) => self.path(adt.did()),
                        ty::Closure(..) => "<closure>".to_string(),
                        ty::Tuple(..) => "<tuple>".to_string(),
                        _ => String::new(),
                    },
                    _ => String::new(),
                };
                esc(&o, &mut out);
                pty2 = pty2.projection_ty(self.tcx, elem);
            }
            out.push(']');
        }
        out.push('}');
        out
    }

    fn operand(&self, body: &Body<'tcx>, did: DefId, op: &Operand<'tcx>) -> String {
        match op {
            Operand::Copy(p) => format!("{{\"k\":\"copy\",\"pl\":{}}}", self.place(body, p)),
            Operand::Move(p) => format!("{{\"k\":\"move\",\"pl\":{}}}", self.place(body, p)),
            Operand::Constant(c) => {
                let mut out = String::from("{\"k\":\"const\",\"ty\":");
                let t = c.const_.ty();
                esc(&self.ty(t), &mut out);
                match t.kind() {
                    ty::FnDef(d, args) => {
                        out.push_str(",\"def\":");
                        esc(&self.path(*d), &mut out);
                        out.push_str(",\"gargs\":");
                        esc(&with_no_trimmed_paths!(format!("{:?}", args)), &mut out);
                    }
                    ty::Closure(d, _) => {
                        out.push_str(",\"def\":");
                        esc(&self.path(*d), &mut out);
                    }
                    _ => {}
                }
                let env = TypingEnv::post_analysis(self.tcx, did);
                if let Some(si) = c.const_.try_eval_scalar_int(self.tcx, env) {
                    let sz = si.size();
                    let v = si.to_bits(sz);
                    let _ = write!(out, ",\"int\":\"{}\"", v);
                }
                out.push_str(",\"s\":");
                let s = with_no_trimmed_paths!(format!("{}", c.const_));
                let s = if s.len() > 200 { s[..s.char_indices().take(200).last().map(|x| x.0).unwrap_or(0)].to_string() } else { s };
                esc(&s, &mut out);
                let _ = match c.const_ {
                    MirConst::Unevaluated(u, _) => {
                        out.push_str(",\"uneval\":");
                        esc(&self.path(u.def), &mut out);
                        // a promoted constant such as `&SessionOrigin::User`: say which unit variant it is
                        if let Some(p) = u.promoted {
                            if self.tcx.is_mir_available(u.def) {
                                let proms = self.tcx.promoted_mir(u.def);
                                if let Some(pb) = proms.get(p) {
                                    for bbd in pb.basic_blocks.iter() {
                                        for st in bbd.statements.iter() {
                                            if let StatementKind::Assign(bx) = &st.kind {
                                                if let Rvalue::Aggregate(ak, ops) = &bx.1 {
                                                    if let AggregateKind::Adt(adt_did, vidx, _, _, _) = **ak {
                                                        if ops.is_empty() {
                                                            let adt = self.tcx.adt_def(adt_did);
                                                            let vname = adt.variant(vidx).name.to_string();
                                                            out.push_str(",\"penum\":[");
                                                            esc(&self.path(adt_did), &mut out);
                                                            out.push(',');
                                                            esc(&vname, &mut out);
                                                            out.push(']');
                                                        }
                                                    }
                                                }
                                            }
                                        }
                                    }
                                }
                            }
                        }
                    }
                    _ => {}
                };
                out.push('}');
                out
            }
            _ => format!("{{\"k\":\"other\",\"s\":{}}}", js(&format!("{:?}", op))),
        }
    }

    fn rvalue(&self, body: &Body<'tcx>, did: DefId, rv: &Rvalue<'tcx>) -> String {
        match rv {
            Rvalue::Use(op, ..) => format!("{{\"k\":\"use\",\"op\":{}}}", self.operand(body, did, op)),
            Rvalue::CopyForDeref(p) => {
                format!("{{\"k\":\"use\",\"op\":{{\"k\":\"copy\",\"pl\":{}}}}}", self.place(body, p))
            }
            Rvalue::Ref(_, bk, p) => {
                let m = matches!(bk, BorrowKind::Mut { .. });
                format!("{{\"k\":\"ref\",\"mut\":{},\"pl\":{}}}", m, self.place(body, p))
            }
            Rvalue::RawPtr(_, p) => format!("{{\"k\":\"rawptr\",\"pl\":{}}}", self.place(body, p)),
            Rvalue::Cast(ck, op, t) => {
                let cks = match ck {
                    CastKind::Transmute => "Transmute".to_string(),
                    other => format!("{:?}", other),
                };
                format!(
                    "{{\"k\":\"cast\",\"ck\":{},\"op\":{},\"ty\":{}}}",
                    js(&cks),
                    self.operand(body, did, op),
                    js(&self.ty(*t))
                )
            }
            Rvalue::BinaryOp(op, ab) => format!(
                "{{\"k\":\"bin\",\"op\":{},\"a\":{},\"b\":{}}}",
                js(&format!("{:?}", op)),
                self.operand(body, did, &ab.0),
                self.operand(body, did, &ab.1)
            ),
            Rvalue::UnaryOp(op, a) => format!(
                "{{\"k\":\"un\",\"op\":{},\"a\":{}}}",
                js(&format!("{:?}", op)),
                self.operand(body, did, a)
            ),
            Rvalue::Discriminant(p) => format!("{{\"k\":\"discr\",\"pl\":{}}}", self.place(body, p)),
            Rvalue::Repeat(op, _) => format!("{{\"k\":\"repeat\",\"op\":{}}}", self.operand(body, did, op)),
            Rvalue::Aggregate(kind, ops) => {
                let mut out = String::from("{\"k\":\"agg\"");
                match &**kind {
                    AggregateKind::Array(_) => out.push_str(",\"ak\":\"array\""),
                    AggregateKind::Tuple => out.push_str(",\"ak\":\"tuple\""),
                    AggregateKind::Adt(d, vidx, _, _, _) => {
                        out.push_str(",\"ak\":\"adt\",\"name\":");
                        esc(&self.path(*d), &mut out);
                        let adt = self.tcx.adt_def(*d);
                        let v = adt.variant(*vidx);
                        out.push_str(",\"variant\":");
                        esc(&v.name.to_string(), &mut out);
                        out.push_str(",\"fields\":[");
                        let mut first = true;
                        for f in v.fields.iter() {
                            if !first {
                                out.push(',');
                            }
                            first = false;
                            esc(&f.name.to_string(), &mut out);
                        }
                        out.push(']');
                    }
                    AggregateKind::Closure(d, _) => {
                        out.push_str(",\"ak\":\"closure\",\"name\":");
                        esc(&self.path(*d), &mut out);
                        out.push_str(",\"fields\":[");
                        let caps = self.tcx.closure_captures(d.expect_local());
                        let mut first = true;
                        for c in caps.iter() {
                            if !first {
                                out.push(',');
                            }
                            first = false;
                            esc(&c.to_symbol().to_string(), &mut out);
                        }
                        out.push(']');
                    }
                    AggregateKind::RawPtr(..) => out.push_str(",\"ak\":\"rawptr\""),
                    _ => out.push_str(",\"ak\":\"other\""),
                }
                out.push_str(",\"ops\":[");
                let mut first = true;
                for o in ops.iter() {
                    if !first {
                        out.push(',');
                    }
                    first = false;
                    out.push_str(&self.operand(body, did, o));
                }
                out.push_str("]}");
                out
            }
            other => format!("{{\"k\":\"other\",\"s\":{}}}", js(&format!("{:?}", other))),
        }
    }

    fn bb(&self, b: BasicBlock) -> usize {
        b.as_usize()
    }

    fn body(&self, did: DefId, out: &mut String) {
        let tcx = self.tcx;
        let kind = tcx.def_kind(did);
        let body: &Body<'tcx> = tcx.optimized_mir(did);
        out.push_str("{\"id\":");
        esc(&self.path(did), out);
        let _ = write!(out, ",\"kind\":\"{:?}\"", kind);
        out.push_str(",\"span\":");
        esc(&self.loc(body.span), out);
        if matches!(kind, DefKind::Fn | DefKind::AssocFn) {
            let vis = tcx.visibility(did);
            let v = if vis.is_public() { "pub".to_string() } else { format!("{:?}", vis) };
            out.push_str(",\"vis\":");
            esc(&v, out);
            // impl self type / trait
            if let Some(imp) = tcx.impl_of_assoc(did) {
                let st = tcx.type_of(imp).instantiate_identity().skip_norm_wip();
                out.push_str(",\"impl_self\":");
                esc(&self.ty(st), out);
                if let Some(tr) = tcx.impl_opt_trait_ref(imp) {
                    let tr = tr.instantiate_identity().skip_norm_wip();
                    out.push_str(",\"impl_trait\":");
                    esc(&self.path(tr.def_id), out);
                }
            }
        }
        if matches!(kind, DefKind::Closure) {
            out.push_str(",\"parent\":");
            esc(&self.path(tcx.parent(did)), out);
            out.push_str(",\"upvars\":[");
            let caps = tcx.closure_captures(did.expect_local());
            let mut first = true;
            for c in caps.iter() {
                if !first {
                    out.push(',');
                }
                first = false;
                esc(&c.to_symbol().to_string(), out);
            }
            out.push(']');
        }
        let _ = write!(out, ",\"argc\":{}", body.arg_count);
        out.push_str(",\"from_expansion\":");
        out.push_str(if body.span.from_expansion() { "true" } else { "false" });
        // attributes: automatically_derived on the parent impl
        let derived = match tcx.impl_of_assoc(did) {
            Some(imp) => tcx.is_automatically_derived(imp),
            None => false,
        };
        let _ = write!(out, ",\"derived\":{}", derived);

        // locals
        let mut names: Vec<Option<String>> = vec![None; body.local_decls.len()];
        for vdi in body.var_debug_info.iter() {
            if let rustc_middle::mir::VarDebugInfoContents::Place(p) = &vdi.value {
                if p.projection.is_empty() {
                    names[p.local.as_usize()] = Some(vdi.name.to_string());
                }
            }
        }
        out.push_str(",\"locals\":[");
        for (i, ld) in body.local_decls.iter().enumerate() {
            if i > 0 {
                out.push(',');
            }
            out.push_str("{\"ty\":");
            esc(&self.ty(ld.ty), out);
            if let Some(n) = &names[i] {
                out.push_str(",\"n\":");
                esc(n, out);
            }
            out.push('}');
        }
        out.push(']');

        out.push_str(",\"blocks\":[");
        for (bi, bbd) in body.basic_blocks.iter().enumerate() {
            if bi > 0 {
                out.push(',');
            }
            out.push_str("{\"c\":");
            out.push_str(if bbd.is_cleanup { "1" } else { "0" });
            out.push_str(",\"s\":[");
            let mut first = true;
            for st in bbd.statements.iter() {
                let s = match &st.kind {
                    StatementKind::Assign(b) => {
                        let (pl, rv) = &**b;
                        Some(format!(
                            "{{\"k\":\"assign\",\"pl\":{},\"rv\":{},\"ln\":{}}}",
                            self.place(body, pl),
                            self.rvalue(body, did, rv),
                            js(&self.loc(st.source_info.span))
                        ))
                    }
                    StatementKind::StorageLive(l) => Some(format!("{{\"k\":\"live\",\"l\":{}}}", l.as_usize())),
                    StatementKind::StorageDead(l) => Some(format!("{{\"k\":\"dead\",\"l\":{}}}", l.as_usize())),
                    StatementKind::SetDiscriminant { place, variant_index } => Some(format!(
                        "{{\"k\":\"setdiscr\",\"pl\":{},\"v\":{}}}",
                        self.place(body, place),
                        variant_index.as_usize()
                    )),
                    StatementKind::Intrinsic(i) => Some(format!("{{\"k\":\"intrinsic\",\"s\":{}}}", js(&format!("{:?}", i)))),
                    _ => None,
                };
                if let Some(s) = s {
                    if !first {
                        out.push(',');
                    }
                    first = false;
                    out.push_str(&s);
                }
            }
            out.push_str("],\"t\":");
            let term = bbd.terminator();
            let tsp = term.source_info.span;
            match &term.kind {
                TerminatorKind::Goto { target } => {
                    let _ = write!(out, "{{\"k\":\"goto\",\"t\":{}}}", self.bb(*target));
                }
                TerminatorKind::SwitchInt { discr, targets } => {
                    out.push_str("{\"k\":\"switch\",\"d\":");
                    out.push_str(&self.operand(body, did, discr));
                    out.push_str(",\"vals\":[");
                    let mut first = true;
                    for (v, t) in targets.iter() {
                        if !first {
                            out.push(',');
                        }
                        first = false;
                        let _ = write!(out, "[\"{}\",{}]", v, self.bb(t));
                    }
                    let _ = write!(out, "],\"else\":{}", self.bb(targets.otherwise()));
                    out.push_str(",\"ln\":");
                    esc(&self.loc(tsp), out);
                    out.push('}');
                }
                TerminatorKind::Return => out.push_str("{\"k\":\"return\"}"),
                TerminatorKind::Unreachable => out.push_str("{\"k\":\"unreachable\"}"),
                TerminatorKind::UnwindResume => out.push_str("{\"k\":\"resume\"}"),
                TerminatorKind::UnwindTerminate(_) => out.push_str("{\"k\":\"terminate\"}"),
                TerminatorKind::Drop { place, target, unwind, .. } => {
                    out.push_str("{\"k\":\"drop\",\"pl\":");
                    out.push_str(&self.place(body, place));
                    let _ = write!(out, ",\"t\":{}", self.bb(*target));
                    if let rustc_middle::mir::UnwindAction::Cleanup(u) = unwind {
                        let _ = write!(out, ",\"u\":{}", self.bb(*u));
                    }
                    out.push_str(",\"ln\":");
                    esc(&self.loc(tsp), out);
                    out.push('}');
                }
                TerminatorKind::Call { func, args, destination, target, unwind, fn_span, .. } => {
                    out.push_str("{\"k\":\"call\"");
                    let fty = func.ty(&body.local_decls, tcx);
                    match fty.kind() {
                        ty::FnDef(def, gargs) => {
                            out.push_str(",\"orig\":");
                            esc(&self.path(*def), out);
                            let env = TypingEnv::post_analysis(tcx, did);
                            let mut resolved = false;
                            if let Ok(Some(inst)) = Instance::try_resolve(tcx, env, *def, gargs) {
                                let rd = inst.def_id();
                                let is_virtual = matches!(inst.def, ty::InstanceKind::Virtual(..));
                                // a trait method without a body that resolved to itself is unresolved
                                let still_trait_item = tcx.trait_of_assoc(rd).is_some()
                                    && !tcx.defaultness(rd).has_value();
                                if !is_virtual && !still_trait_item {
                                    resolved = true;
                                }
                                out.push_str(",\"callee\":");
                                esc(&self.path(rd), out);
                                out.push_str(",\"ikind\":");
                                let ik = match inst.def {
                                    ty::InstanceKind::Item(_) => "item",
                                    ty::InstanceKind::Intrinsic(_) => "intrinsic",
                                    ty::InstanceKind::Virtual(..) => "virtual",
                                    ty::InstanceKind::ClosureOnceShim { .. } => "closure_once_shim",
                                    ty::InstanceKind::FnPtrShim(..) => "fnptr_shim",
                                    ty::InstanceKind::DropGlue(..) => "drop_glue",
                                    ty::InstanceKind::CloneShim(..) => "clone_shim",
                                    _ => "other",
                                };
                                esc(ik, out);
                                out.push_str(",\"cargs\":");
                                esc(&with_no_trimmed_paths!(format!("{:?}", inst.args)), out);
                            } else {
                                out.push_str(",\"callee\":");
                                esc(&self.path(*def), out);
                            }
                            let _ = write!(out, ",\"res\":{}", resolved);
                            out.push_str(",\"gargs\":");
                            esc(&with_no_trimmed_paths!(format!("{:?}", gargs)), out);
                            if let Some(tr) = tcx.trait_of_assoc(*def) {
                                out.push_str(",\"trait\":");
                                esc(&self.path(tr), out);
                            }
                        }
                        _ => {
                            out.push_str(",\"fnptr\":");
                            out.push_str(&self.operand(body, did, func));
                            out.push_str(",\"res\":false");
                        }
                    }
                    out.push_str(",\"args\":[");
                    let mut first = true;
                    for a in args.iter() {
                        if !first {
                            out.push(',');
                        }
                        first = false;
                        out.push_str(&self.operand(body, did, &a.node));
                    }
                    out.push_str("],\"dest\":");
                    out.push_str(&self.place(body, destination));
                    if let Some(t) = target {
                        let _ = write!(out, ",\"t\":{}", self.bb(*t));
                    }
                    if let rustc_middle::mir::UnwindAction::Cleanup(u) = unwind {
                        let _ = write!(out, ",\"u\":{}", self.bb(*u));
                    }
                    out.push_str(",\"ln\":");
                    esc(&self.loc(tsp), out);
                    out.push_str(",\"exp\":");
                    esc(&self.expn(tsp), out);
                    out.push_str(",\"snip\":");
                    esc(&self.snippet(tsp), out);
                    out.push_str(",\"fsnip\":");
                    esc(&self.snippet(*fn_span), out);
                    out.push('}');
                }
                TerminatorKind::TailCall { .. } => out.push_str("{\"k\":\"tailcall\"}"),
                TerminatorKind::Assert { cond, expected, msg, target, unwind } => {
                    out.push_str("{\"k\":\"assert\",\"cond\":");
                    out.push_str(&self.operand(body, did, cond));
                    let _ = write!(out, ",\"expected\":{}", expected);
                    let (ak, aop) = match &**msg {
                        AssertKind::BoundsCheck { .. } => ("BoundsCheck", String::new()),
                        AssertKind::Overflow(op, ..) => ("Overflow", format!("{:?}", op)),
                        AssertKind::OverflowNeg(_) => ("OverflowNeg", String::new()),
                        AssertKind::DivisionByZero(_) => ("DivisionByZero", String::new()),
                        AssertKind::RemainderByZero(_) => ("RemainderByZero", String::new()),
                        AssertKind::MisalignedPointerDereference { .. } => ("MisalignedPointer", String::new()),
                        AssertKind::NullPointerDereference => ("NullPointer", String::new()),
                        _ => ("Other", String::new()),
                    };
                    let _ = write!(out, ",\"ak\":\"{}\",\"aop\":\"{}\"", ak, aop);
                    let _ = write!(out, ",\"t\":{}", self.bb(*target));
                    if let rustc_middle::mir::UnwindAction::Cleanup(u) = unwind {
                        let _ = write!(out, ",\"u\":{}", self.bb(*u));
                    }
                    out.push_str(",\"ln\":");
                    esc(&self.loc(tsp), out);
                    out.push_str(",\"exp\":");
                    esc(&self.expn(tsp), out);
                    out.push_str(",\"snip\":");
                    esc(&self.snippet(tsp), out);
                    out.push('}');
                }
                TerminatorKind::FalseEdge { real_target, .. } => {
                    let _ = write!(out, "{{\"k\":\"goto\",\"t\":{}}}", self.bb(*real_target));
                }
                TerminatorKind::FalseUnwind { real_target, .. } => {
                    let _ = write!(out, "{{\"k\":\"goto\",\"t\":{}}}", self.bb(*real_target));
                }
                other => {
                    let _ = write!(out, "{{\"k\":\"other\",\"s\":{}}}", js(&format!("{:?}", other)));
                }
            }
            out.push('}');
        }
        out.push_str("]}");
    }

    fn adts(&self, out: &mut String) {
        let tcx = self.tcx;
        out.push_str("\"adts\":[");
        let mut first = true;
        for ldid in tcx.hir_crate_items(()).definitions() {
            let did = ldid.to_def_id();
            let k = tcx.def_kind(did);
            if !matches!(k, DefKind::Struct | DefKind::Enum | DefKind::Union) {
                continue;
            }
            if !first {
                out.push(',');
            }
            first = false;
            let adt = tcx.adt_def(did);
            out.push_str("{\"name\":");
            esc(&self.path(did), out);
            let _ = write!(out, ",\"kind\":\"{:?}\"", k);
            out.push_str(",\"span\":");
            esc(&self.loc(tcx.def_span(did)), out);
            let vis = tcx.visibility(did);
            out.push_str(",\"vis\":");
            esc(&if vis.is_public() { "pub".to_string() } else { format!("{:?}", vis) }, out);
            let _ = write!(out, ",\"has_drop\":{}", adt.destructor(tcx).is_some());
            out.push_str(",\"variants\":[");
            let mut vf = true;
            for v in adt.variants().iter() {
                if !vf {
                    out.push(',');
                }
                vf = false;
                out.push_str("{\"name\":");
                esc(&v.name.to_string(), out);
                out.push_str(",\"fields\":[");
                let mut ff = true;
                for f in v.fields.iter() {
                    if !ff {
                        out.push(',');
                    }
                    ff = false;
                    out.push_str("{\"n\":");
                    esc(&f.name.to_string(), out);
                    out.push_str(",\"ty\":");
                    let fty = tcx.type_of(f.did).instantiate_identity().skip_norm_wip();
                    esc(&self.ty(fty), out);
                    let fv = f.vis;
                    out.push_str(",\"vis\":");
                    esc(&if fv.is_public() { "pub".to_string() } else { format!("{:?}", fv) }, out);
                    out.push('}');
                }
                out.push_str("]}");
            }
            out.push_str("]}");
        }
        out.push(']');
    }

    fn impls(&self, out: &mut String) {
        // trait impls of the local crate: trait, self type, method def paths, derived?
        let tcx = self.tcx;
        out.push_str("\"impls\":[");
        let mut first = true;
        for ldid in tcx.hir_crate_items(()).definitions() {
            let did = ldid.to_def_id();
            if !matches!(tcx.def_kind(did), DefKind::Impl { .. }) {
                continue;
            }
            if !first {
                out.push(',');
            }
            first = false;
            out.push_str("{\"self\":");
            let st = tcx.type_of(did).instantiate_identity().skip_norm_wip();
            esc(&self.ty(st), out);
            if let Some(tr) = tcx.impl_opt_trait_ref(did) {
                let tr = tr.instantiate_identity().skip_norm_wip();
                out.push_str(",\"trait\":");
                esc(&self.path(tr.def_id), out);
            }
            let _ = write!(out, ",\"derived\":{}", tcx.is_automatically_derived(did));
            out.push_str(",\"span\":");
            esc(&self.loc(tcx.def_span(did)), out);
            out.push_str(",\"items\":[");
            let mut ff = true;
            for it in tcx.associated_items(did).in_definition_order() {
                if !ff {
                    out.push(',');
                }
                ff = false;
                out.push_str("{\"name\":");
                esc(&it.name().to_string(), out);
                out.push_str(",\"path\":");
                esc(&self.path(it.def_id), out);
                if let Some(tid) = it.trait_item_def_id() {
                    out.push_str(",\"trait_item\":");
                    esc(&self.path(tid), out);
                }
                out.push('}');
            }
            out.push_str("]}");
        }
        out.push(']');
    }
}

struct Cb {
    facts_dir: String,
}

impl rustc_driver::Callbacks for Cb {
    fn after_analysis<'tcx>(
        &mut self,
        _c: &rustc_interface::interface::Compiler,
        tcx: TyCtxt<'tcx>,
    ) -> Compilation {
        let krate = tcx.crate_name(LOCAL_CRATE).to_string();
        let wanted = std::env::var("NOMT_FACTS_CRATES").unwrap_or_else(|_| "nomt,nomt_core".to_string());
        if !wanted.split(',').any(|w| w == krate) {
            return Compilation::Continue;
        }
        let _g1 = rustc_middle::ty::print::NoTrimmedGuard::new();
        let _g2 = rustc_middle::ty::print::CrateNamePrefixGuard::new();
        let _g3 = rustc_middle::ty::print::NoVisibleGuard::new();
        let cx = Cx { tcx, krate: krate.clone() };
        let mut out = String::with_capacity(64 << 20);
        out.push_str("{\"crate\":");
        esc(&krate, &mut out);
        out.push_str(",\"bodies\":[");
        let mut n = 0usize;
        for ldid in tcx.hir_body_owners() {
            let did = ldid.to_def_id();
            let k = tcx.def_kind(did);
            if !matches!(k, DefKind::Fn | DefKind::AssocFn | DefKind::Closure) {
                continue;
            }
            // const fns etc. are fine; skip bodies that have no MIR
            if !tcx.is_mir_available(did) {
                continue;
            }
            if n > 0 {
                out.push(',');
            }
            n += 1;
            cx.body(did, &mut out);
        }
        out.push_str("],");
        cx.adts(&mut out);
        out.push(',');
        cx.impls(&mut out);
        let _ = write!(out, ",\"n_bodies\":{}}}", n);
        let crate_types = format!("{:?}", tcx.crate_types());
        let suffix = if crate_types.contains("Executable") { ".bin" } else { "" };
        let path = format!("{}/{}{}.json", self.facts_dir, krate, suffix);
        std::fs::write(&path, out.as_bytes()).expect("write facts");
        Compilation::Continue
    }
}

fn main() {
    let mut args: Vec<String> = std::env::args().collect();
    // RUSTC_WORKSPACE_WRAPPER: argv = [wrapper, rustc, args...]
    if args.len() > 1 && (args[1].ends_with("rustc") || args[1].contains("/rustc")) {
        args.remove(1);
    }
    args[0] = "rustc".to_string();
    let facts_dir = std::env::var("NOMT_FACTS_DIR").unwrap_or_else(|_| ".".to_string());
    let mut cb = Cb { facts_dir };
    rustc_driver::run_compiler(&args, &mut cb);
}
