#!/bin/bash
# usage: extract-once.sh <outdir> [extra cargo args...]   (debug helper)
set -e
OUT=$1; shift
mkdir -p $OUT
T=$(mktemp -d /tmp/nomt-facts-target.XXXXXX)
cd /repo
LD_LIBRARY_PATH=$(rustc +nightly --print sysroot)/lib RUSTFLAGS="-Zmir-opt-level=0 -Awarnings" NOMT_FACTS_DIR=$OUT RUSTC_WORKSPACE_WRAPPER=/verif/driver/target/release/nomt-facts CARGO_TARGET_DIR=$T cargo +nightly check --offline -p nomt -p nomt-core --lib "$@" 2>&1 | grep -v "^\s*Compiling\|^\s*Checking" | tail -30
rm -rf $T
ls -la $OUT
